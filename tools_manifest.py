#!/usr/bin/env python3
# Regenerates MANIFEST.json from the table below (kept as code so the file is always valid JSON).
import json, sys
DED = "contract-based deductive verification: VC generation over go/ssa (loop invariants/variants, call-by-contract, heap components, spec functions, inductive lemmas), discharged by z3/cvc5"
TB = "Trusted: go/ssa, the govc SSA->SMT translation, z3/cvc5 'unsat', the stdlib contracts listed in the evidence. "
claimed = {
 "C01": dict(
   text="Unbounded deductive proof: order, cisdigit, cisalpha, verrevcmp (5 loop contracts), Compare and the sort adapter's Slice.Less are verified, from the SSA of the current sources, against a Policy-5.6.12 spec function (runs determined first, digit runs compared as unbounded mathematical integers); every bounds/overflow/termination obligation of these functions is discharged too. A bounded differential harness (independent oracle, cross-checked against the real dpkg) runs beside it as witness search and is reported under coverage.bounded.",
   note=TB+"Assumes NUL-free strings (dpkg's C strings; weaker than the parser alphabet).",
   technique=DED, design="3 (C01), Appendix A"),
 "C02": dict(
   text="Unbounded deductive proof: reflexivity, sign flip, transitivity (with strictness) and congruence are proved as inductive lemmas about the spec order and transferred to Compare through C01's postcondition; Slice.Len/Swap/Less are verified against their sort-adapter contracts (Swap with a checked frame). sort.Sort itself is trusted. Bounded law/sort harness beside it.",
   note=TB+"sort.Sort's contract (terminates with a non-decreasing permutation given a strict weak order) is assumed.",
   technique=DED, design="3 (C02)"),
 "C03": dict(
   text="Unbounded deductive proof of parseInto/Parse/UnmarshalControl against the statement: accepted input yields exactly epoch (digits before the first colon), upstream, revision (after the last hyphen); acceptance implies well-formedness (all rejection classes) and every well-formed string is accepted (completeness); a value xor an error; String/StringWithoutEpoch/MarshalControl equal the exact rendering. The round trip is proved as a lemma over those two contracts, for every version the parser can return and with no bound: the rendered text is untouched by trimming, well formed, and its epoch / upstream / revision are the version's (inductive lemmas on the position of the first colon and the last hyphen and on the value of the digit prefix). A bounded stand-in (all strings up to length 6/7 over a 12-letter alphabet) runs beside it.",
   note=TB+"strings.TrimSpace/Index/LastIndex/IndexFunc/Contains, strconv.ParseInt, unicode.IsSpace/IsDigit, fmt.Sprintf(%d,%s) contracts are assumed (stdlib/strings.spec). MarshalText/UnmarshalText and encoding/json wrap the same two functions and are covered by the bounded part only.",
   technique=DED, design="3 (C03), 7.4"),
 "C04": dict(
   text="Deductive proof, for all inputs, of every function of the dependency parser (17 functions, 16 loops): cursor discipline, no panic, termination, frames, and the rejection facts of the statement as postconditions (success only in front of ',', '|' or the end - so two names without separator are rejected; a version clause only closed by ')', an arch list by ']', a profile group by '>', a substvar by '}' followed by a separator; only the five operators; Parse returns a value xor an error; UnmarshalControl leaves its receiver alone when the field is rejected). That parsing a rendered AST gives back the AST is checked by the bounded stand-in (14.6 M renderings and corruptions), labelled bounded.",
   note=TB+"The positive half (parse(render(AST)) = AST) is bounded, not proved.",
   technique=DED+"; bounded exhaustive stand-in for the grammar composition", design="3 (C04)"),
 "C06": dict(
   text="Unbounded deductive proof: Arch.IsWildcard/Is (recursive, with variant) equal the matching relation written from the statement for all architectures denoted by Debian names (symmetry proved as a lemma); ArchSet.Matches equals 'some entry matches != negated, empty admits all'; GetPossibilities returns, per relation and in order, the first non-substvar alternative whose list admits the architecture (count and position functions over the heap); GetAllPossibilities/GetSubstvars; SatisfiedBy equals the five-operator table over the verified Compare and the verified Parse, false for unparsable numbers and unknown operators.",
   note=TB+"Strings are compared only for equality here, so the uninterpreted string sort is exact.",
   technique=DED, design="3 (C06)"),
 "C18": dict(
   text="Deductive proof for the version, architecture, dependency, control-paragraph (reader, clearsign front end, checksum and file-list line parsers) and changelog parsers (about 80 functions, 1250 obligations): every BOUNDS/NIL/OVERFLOW/DIV0 obligation (no panic), a decreases clause on every loop and recursion (no hang), value-xor-error postconditions, and checked modifies frames (no write outside arguments and fresh objects: calls on disjoint inputs commute); in addition a static SHARED obligation per function of the four parser packages (151 functions, reflective decoders included): outside the package initialiser nothing stores into memory reachable from a package-level variable. The reflective typed-document decoders and the dynamic race detector are covered by the bounded stand-in (all byte strings up to length 4 per entry point, 233 k mutated seed documents, 64-way concurrent parsing, go run -race in the thorough tier), labelled bounded.",
   note=TB+"Reflection-based decoders and scheduling are outside the verifier; they are only exercised by the bounded harness.",
   technique=DED+"; bounded exhaustive stand-in for the remaining entry points", design="3 (C18)"),

 "C05": dict(
   text="Deductive proof for architecture names, all inputs: parseArchInto/ParseArch/Arch.UnmarshalControl equal a parse spec written from the statement (two-part names leave the ABI open, lone any/all is all three parts, other lone names are gnu-linux-<name>), also when decoding into a used value; names with an empty component are refused (exactly those); Arch.String is proved to be the inverse of that spec for every triple with non-empty parts whose ABI and OS contain no dash (inductive lemmas about the position of the dashes in the rendered name), so a wildcard is neither widened nor narrowed; an appended profile list has at least one profile; version constraints and stages are rendered in full. That render-then-parse is a fixpoint for whole dependency fields is checked by the bounded stand-in (token sequences up to length 5/6 over a 16-token alphabet), labelled bounded.",
   note=TB+"strings.SplitN/Contains contracts assumed. Whole-field fixpoint: bounded only.",
   technique=DED+"; bounded exhaustive stand-in for the whole-field fixpoint", design="3 (C05), 6"),
 "C07": dict(
   text="Deductive proof, for arbitrary input bytes, of the representation invariant of every paragraph ParagraphReader.Next returns and All collects (each listed name has a value, each valued name is listed, no name twice - carried as a loop invariant with a position function over the heap), of termination and of a-value-xor-an-error; io.EOF is returned only when nothing but empty lines and comments was left (a last paragraph, terminated or not, is never dropped); Paragraph.Set/Update preserve the invariant. Conformance of the values to the deb822 document model (logical lines, comments, CRLF, final newline) and the agreement of Next/All/Unmarshal are checked by the bounded stand-in (6.4 M model documents), labelled bounded.",
   note=TB+"bufio.Reader.ReadString is modelled over a ghost 'remaining input' string (trusted). Model conformance: bounded only.",
   technique=DED+"; bounded exhaustive stand-in for model conformance", design="3 (C07), 6"),
 "C09": dict(
   text="Deductive proof of the merge half: Paragraph.Set and Paragraph.Update keep unknown fields in place with their values, append new names once, in order, and preserve the paragraph invariant. The reflective walkers (Marshal/Unmarshal) are outside the verifier and are checked by the bounded stand-in (22 probe struct types, embedded raw paragraphs with renamed fields, every embedded case marshalled twice, required fields also through UnpackFromParagraph, 74 k cases), labelled bounded.",
   note=TB+"reflect-based encode/decode: bounded only.",
   technique=DED+"; bounded exhaustive stand-in for the reflective walkers", design="3 (C09), 6"),
 "C10": dict(
   text="Deductive proof of the leaf code and accessors: the checksum-line parser (3- and 2-column forms, algorithm tag, by-hash name), the four element types each tagging their OWN algorithm, the .changes file-list line parser, HasArchAll, Maintainers (both), AbsFiles (both), DebianSource, SourcePackage, BestChecksums.Checksums - each against a postcondition taken from the statement; the ten on-demand dependency accessors hand the text of their OWN field, unchanged, to the (re-verified) dependency parser exactly once and return its result; the .deb control loader decodes the FIRST member of control.tar.* whose cleaned name is 'control' into deb.Control (tar members as a trusted ghost sequence). Static TAG obligations (no solver): for every row of a Debian layout table (8 document types, 113 rows) a struct field with that key exists and its Go type, delim and strip realise the field's syntax, under a trusted contract for the reflective walker. Whole-document decoding is checked by the bounded stand-in (37 k documents), labelled bounded.",
   note=TB+"The reflective walker's contract (field := conv(kind, delim, strip, Values[key])) is assumed, as are control.Unmarshal's frame (it writes the object it is given), ArEntry.Tarfile, tar.Reader.Next and path.Clean; strings.Fields/Split/Contains, path.Join, filepath.Dir/Base are uninterpreted.",
   technique=DED+"; static obligations over struct tags; bounded stand-in for whole documents", design="3 (C10), 6"),
 "C11": dict(
   text="Deductive proof of the wiring (openpgp trusted): decodeClearsig/NewParagraphReader parse exactly the signed text of the input and nothing else; with a keyring, success implies that CheckDetachedSignature accepted exactly that text against exactly that keyring, and the reported signer is the entity it returned; without a check there is no signer; unsigned input is passed through without a signer. Bounded stand-in (28 k corrupted clearsigned inputs with real keys) beside it.",
   note=TB+"clearsign.Decode and openpgp.CheckDetachedSignature are assumed (an empty keyring validates nothing; unforgeability is not ours to prove); ioutil.ReadAll, bufio, bytes readers over ghost content.",
   technique=DED+" with trusted contracts on the OpenPGP library", design="3 (C11), 6"),
 "C12": dict(
   text="Deductive proof over a ghost byte stream per hash object (digest functions uninterpreted): GetHash's name table; the Hasher invariant size == len(stream) under the named algorithm, preserved by every Write of any size (so any chunking gives the same stream), Size and Sum, and - as an object invariant - by every other method the type has or gets (a method added later is verified against it without being listed); the four constructors forward to the target and to one fresh Hasher per requested name, in order, pairwise distinct; FileHash.Verifier hashes with the entry's own algorithm against the entry's own recorded hash, Close accepts iff the full digest equals it (first call decides); FileHashFromHasher; BestChecksums selection and element tags (TAG obligations). Bounded stand-in (2 M cases against crypto/*) beside it.",
   note=TB+"hash.Hash.Write/Sum, crypto/*.New, hex.DecodeString, bytes.Equal, io.MultiWriter/TeeReader are assumed contracts; streams shorter than 2^63 bytes.",
   technique=DED+" with trusted contracts on hash/io", design="3 (C12), 6"),
 "C13": dict(
   text="Deductive proof against a byte-level layout spec on the ghost file behind the io.ReaderAt: checkAr/LoadAr accept exactly the global magic (also from a reader that reports EOF with the last bytes); parseArEntry takes each field from its own columns (map-range loop with a visited-set invariant), Next returns the member whose fields are the header's columns, a reader over exactly its data bytes, advances by 60+size+padding, reports io.EOF only at a clean end; completeness: a well-formed member is returned and the end of a well-formed archive is io.EOF. Bounded stand-in (329 k archives) beside it.",
   note=TB+"io.ReaderAt.ReadAt (ghost file, no I/O failure for the completeness clauses), io.NewSectionReader, strconv.ParseUint, strings.TrimSpace/TrimSuffix assumed.",
   technique=DED, design="3 (C13), 6"),
 "C15": dict(
   text="Deductive proof without any well-formedness precondition: every successful Next advances by at least 60 bytes inside the file (step bound and termination of the loader's member loop), returns a non-negative size with the data inside the file, never panics or overflows; findDeb2Member returns the ONLY member with the prefix or an error (map-range proof: the choice does not depend on iteration order); loadDeb2/loadDeb value xor error. Bounded stand-in (16.8 M corrupted archives) beside it.",
   note=TB+"decompressors, archive/tar members and the reflective control decoder are trusted contracts (ArEntry.Tarfile, tar.Reader.Next, control.Unmarshal, loadDeb2Data); loadDeb2Control itself is verified.",
   technique=DED, design="3 (C15), 6"),
 "C16": dict(
   text="Deductive proof of the wiring (openpgp trusted): CheckDebsig succeeds only if the role's own '_gpg<role>' member and debian-binary exist and there is exactly one control.* and one data.* member - found by the same verified findDeb2Member the loader uses - and CheckDetachedSignature accepted the supplied keyring over the concatenation debian-binary ++ control ++ data of exactly those members' complete contents, with the role member's complete content as signature. Bounded stand-in (7 k signed packages) beside it.",
   note=TB+"openpgp.CheckDetachedSignature, io.MultiReader/NewSectionReader over ghost content assumed.",
   technique=DED+" with trusted contracts on the OpenPGP library", design="3 (C16), 6"),
 "C17": dict(
   text="Deductive proof, for arbitrary input: ParseOne returns io.EOF only at a clean end (input exhausted and everything consumed since the previous entry blank), so input ending inside an entry yields another error; a value xor an error; progress and termination of ParseOne and Parse; partition splits at the FIRST delimiter and keeps the rest verbatim; the change text of an entry is one contiguous piece of the input, byte for byte; source name and distribution list are the named pieces of the first non-blank line, the version is what the (re-verified) version parser makes of that line's bracketed text, the maintainer the piece of the ' -- ' trailer line between '--' and the first double blank, the timestamp what time.Parse (trusted) makes of the text after that double blank under the changelog layout. Options and the order of entries in Parse (model conformance) are checked by the bounded stand-in (2.8 M renderings and truncations), labelled bounded.",
   note=TB+"bufio ReadString over ghost input, time.Parse, strings.SplitN assumed. Model conformance: bounded only.",
   technique=DED+"; bounded exhaustive stand-in for model conformance", design="3 (C17), 6"),
 "C20": dict(
   text="Deductive proof against a ghost file-system effect model (a clock and per-path delivery/source/removal times; every OS call may fail, so all fault sequences are covered at once): for DSC and Changes, Copy/Move deliver every referenced file during the call, strictly before the control file, from the control file's own directory; on failure the control file is not delivered (for Move it is still at its source) and the handle is unchanged; on success the handle points at the new location; Remove deletes the control file last; whatever is delivered, moved or removed is a plain listed name or the control file (confinement), and a non-plain name stops everything before the first effect; CheckFilename accepts exactly the plain names; AbsFiles (the directory the referenced files are taken from) is re-verified in the same run (callee closure). Bounded stand-in on a real file system (320 scenarios, byte identity) beside it.",
   note=TB+"os.Rename/Remove/Stat and internal.Copy (temp file + rename) are assumed contracts over the ghost model; byte identity of copies is checked only by the bounded harness.",
   technique=DED+" with a ghost effect model for the OS", design="3 (C20), 6"),
}
BOUNDED = {
 "C08": "1.8 M paragraphs / documents (every line sequence of length 1..4 over six line kinds, now INCLUDING values that start with empty lines; values with '#' lines; mixed Encoder call sequences) through three write-read cycles and the encoder; no blank line inside a paragraph, identity up to one trailing newline, no growth, same number of paragraphs. Beside it, the encoder's separator discipline IS under contract and discharged on every run (146 obligations, writer output as ghost state): the encoder's flag never goes back - also after an Encode that failed -, whatever a call writes while the flag is set starts with an empty line, nothing is written while it is clear (Encode, encode, encodeSlice, encodeStruct, NewEncoder, and writeTo's append-only frame); the paragraph text (WriteTo) and its read-back are not",
 "C19": "121 k build-dependency graphs rendered as .dsc text (alternatives, arch restrictions, substvars, three fields, folded Binary lists, name families whose concatenations collide, multiarch qualifiers); permutation, edges respected, error iff cycle, deterministic. Beside it, the two things the order is computed from ARE under contract and discharged on every run (768 obligations, the dependency parser included by callee closure): the selection of the first applicable alternative per relation (GetPossibilities, proved for C06) and the Debian layout of the DSC fields (static TAG obligations); OrderDSCForBuild itself and pault.ag/go/topsort are not",
}
for pid, what in BOUNDED.items():
    claimed[pid] = dict(category="exploration",
      text="Bounded stand-in on the real code (never counted as proved): " + what + ". The contract-based proof of this property's functions is not built yet; until then the claim is bounded exploration only.",
      note="Only the stated finite domain is covered; the harness oracle is written from the property statement and is trusted.",
      technique="bounded exhaustive enumeration of a stated domain on the real code against an independent oracle (stand-in; the deductive obligations for this property are still to be built)",
      design="2.6, 3")
na = {
 "C14": "positive claim is carried by five third-party decompressors, archive/tar and reflection; no contract within reach can express it (DESIGN.md section 4). Its rejection/determinism clauses are function-local and are checked under C15.",
}
pending_reason = "check not built yet (build order: DESIGN.md section 5); not claimed until its obligations discharge"
allp = ["C%02d" % i for i in range(1, 21)]
checks = []
for pid in allp:
    if pid in claimed:
        c = claimed[pid]
        checks.append({
          "property_id": pid,
          "quick_cmd": "./check %s --tier quick" % pid,
          "thorough_cmd": "./check %s --tier thorough" % pid,
          "evidence_file": "/verif/evidence/%s.json" % pid,
          "replay_cmd_template": "./check %s --replay {path}" % pid,
          "engine": "govc",
          "level_claimed": {"category": c.get("category", "proof"), "text": c["text"], "design_ref": c["design"]},
          "level_note": c["note"],
          "technique": c["technique"],
        })
m = {
 "version": 1,
 "setup_cmd": "cd /verif/govc && GOFLAGS=-mod=mod GOPROXY=off GOSUMDB=off GOTOOLCHAIN=local go build -o /verif/bin/govc .",
 "hooks": {
   "guard": "verif",
   "enable": "go build tag: -tags verif (only adds comment-only contract files <pkg>/zz_verif_contracts.go; no executable code)",
   "baseline_off_cmd": "cd /repo && GOFLAGS=-mod=mod GOPROXY=off GOSUMDB=off go test -vet=off -count=1 ./...",
   "source_commits": json.load(open("/verif/hook_commits.json")) if __import__("os").path.exists("/verif/hook_commits.json") else [],
   "add_only": True,
 },
 "engines": [
   {"name": "govc", "path": "/verif/govc", "serves_properties": sorted(claimed), "kind_free_text": "deductive verifier for Go written for this task: contracts in guarded comment files, VC generation by symbolic execution of go/ssa (NaiveForm) with loop invariants/variants, call-by-contract, heap components, spec functions and inductive lemmas; obligations discharged by a z3-new/cvc5/z3 portfolio"},
 ],
 "checks": checks,
 "not_applicable": [{"property_id": p, "reason": na.get(p, pending_reason)} for p in allp if p not in claimed],
 "notes": "See DESIGN.md (section 7: as built). Bounded stand-ins, where present, are reported under coverage.bounded and never counted in obligations/discharged. Thorough tier: 60 s solver timeout, larger bounded domains, and the must-fail corpus entries of the property re-run against scratch copies (recorded under coverage.selftest; a self-check of the machinery, never a VIOLATION).",
}
json.dump(m, open("/verif/MANIFEST.json", "w"), indent=1)
print("claimed:", sorted(claimed))
