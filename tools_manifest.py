#!/usr/bin/env python3
# Regenerates MANIFEST.json from the table below (kept as code so the file is always valid JSON).
import json, sys
claimed = {
 "C01": dict(
   text="Unbounded deductive proof: order, cisdigit, cisalpha, verrevcmp (5 loop contracts) and Compare are verified, from the SSA of the current sources, against a Policy-5.6.12 spec function (runs determined first, digit runs compared as unbounded mathematical integers). Every bounds/overflow/termination obligation of these functions is discharged as well, so machine arithmetic equals mathematical arithmetic in them.",
   note="Assumes NUL-free strings (dpkg's C strings; weaker than the parser alphabet). Trusted: go/ssa, the govc SSA->SMT translation, z3/cvc5 'unsat'. The spec function itself is sampled against the real dpkg in the thorough tier.",
   technique="contract-based deductive verification: weakest-precondition style VC generation over go/ssa with loop invariants and inductive lemmas, discharged by z3/cvc5",
   design="3 (C01), Appendix A"),
}
na = {
 "C14": "positive claim is carried by five third-party decompressors, archive/tar and reflection; no contract within reach can express it (DESIGN.md section 4). Its rejection/determinism clauses are function-local and are checked under C15.",
}
pending_reason = "check not built yet in this session (build order: DESIGN.md section 5); not claimed until its obligations discharge"
allp = ["C%02d" % i for i in range(1, 21)]
checks = []
for pid in allp:
    if pid in claimed:
        c = claimed[pid]
        checks.append({
          "property_id": pid,
          "quick_cmd": "./check %s --tier quick" % pid,
          "thorough_cmd": "./check %s --tier thorough" % pid,
          "evidence_file": "/verif/evidence/%s.json" % pid,
          "replay_cmd_template": "./check %s --replay {path}" % pid,
          "engine": "govc",
          "level_claimed": {"category": c.get("category", "proof"), "text": c["text"], "design_ref": c["design"]},
          "level_note": c["note"],
          "technique": c["technique"],
        })
m = {
 "version": 1,
 "setup_cmd": "cd /verif/govc && GOFLAGS=-mod=mod GOPROXY=off GOSUMDB=off GOTOOLCHAIN=local go build -o /verif/bin/govc .",
 "hooks": {
   "guard": "verif",
   "enable": "go build tag: -tags verif (only adds comment-only contract files <pkg>/zz_verif_contracts.go; no executable code)",
   "baseline_off_cmd": "cd /repo && GOFLAGS=-mod=mod GOPROXY=off GOSUMDB=off go test -vet=off -count=1 ./...",
   "source_commits": json.load(open("/verif/hook_commits.json")) if __import__("os").path.exists("/verif/hook_commits.json") else [],
   "add_only": True,
 },
 "engines": [
   {"name": "govc", "path": "/verif/govc", "serves_properties": sorted(claimed), "kind_free_text": "deductive verifier for Go written for this task: contracts in guarded comment files, VC generation by symbolic execution of go/ssa (NaiveForm) with loop invariants/variants, call-by-contract, heap components, spec functions and inductive lemmas; obligations discharged by a z3-new/cvc5/z3 portfolio"},
 ],
 "checks": checks,
 "not_applicable": [{"property_id": p, "reason": na.get(p, pending_reason)} for p in allp if p not in claimed],
 "notes": "See DESIGN.md. Bounded stand-ins, where present, are reported under coverage.bounded and never counted in obligations/discharged.",
}
json.dump(m, open("/verif/MANIFEST.json", "w"), indent=1)
print("claimed:", sorted(claimed))
