#!/usr/bin/env python3
# Regenerates MANIFEST.json from the table below (kept as code so the file is always valid JSON).
import json, sys
DED = "contract-based deductive verification: VC generation over go/ssa (loop invariants/variants, call-by-contract, heap components, spec functions, inductive lemmas), discharged by z3/cvc5"
TB = "Trusted: go/ssa, the govc SSA->SMT translation, z3/cvc5 'unsat', the stdlib contracts listed in the evidence. "
claimed = {
 "C01": dict(
   text="Unbounded deductive proof: order, cisdigit, cisalpha, verrevcmp (5 loop contracts) and Compare are verified, from the SSA of the current sources, against a Policy-5.6.12 spec function (runs determined first, digit runs compared as unbounded mathematical integers); every bounds/overflow/termination obligation of these functions is discharged too. A bounded differential harness (independent oracle, cross-checked against the real dpkg) runs beside it as witness search and is reported under coverage.bounded.",
   note=TB+"Assumes NUL-free strings (dpkg's C strings; weaker than the parser alphabet).",
   technique=DED, design="3 (C01), Appendix A"),
 "C02": dict(
   text="Unbounded deductive proof: reflexivity, sign flip, transitivity (with strictness) and congruence are proved as inductive lemmas about the spec order and transferred to Compare through C01's postcondition; Slice.Len/Swap/Less are verified against their sort-adapter contracts (Swap with a checked frame). sort.Sort itself is trusted. Bounded law/sort harness beside it.",
   note=TB+"sort.Sort's contract (terminates with a non-decreasing permutation given a strict weak order) is assumed.",
   technique=DED, design="3 (C02)"),
 "C03": dict(
   text="Unbounded deductive proof of parseInto/Parse/UnmarshalControl against the statement: accepted input yields exactly epoch (digits before the first colon), upstream, revision (after the last hyphen); acceptance implies well-formedness (all rejection classes) and every well-formed string is accepted (completeness); a value xor an error; String/StringWithoutEpoch/MarshalControl equal the exact rendering. The render-then-parse round trip itself is checked by the bounded stand-in (all strings up to length 6/7 over a 12-letter alphabet), labelled bounded.",
   note=TB+"strings.TrimSpace/Index/LastIndex/IndexFunc, strconv.ParseInt, unicode.IsSpace/IsDigit, fmt.Sprintf(%d,%s) contracts are assumed (stdlib/strings.spec). Round trip: bounded only.",
   technique=DED+"; bounded exhaustive stand-in for the round-trip composition", design="3 (C03)"),
 "C04": dict(
   text="Deductive proof, for all inputs, of every function of the dependency parser (17 functions, 16 loops): cursor discipline, no panic, termination, frames, and the rejection facts of the statement as postconditions (success only in front of ',', '|' or the end - so two names without separator are rejected; a version clause only closed by ')', an arch list by ']', a profile group by '>', a substvar by '}' followed by a separator; only the five operators; Parse returns a value xor an error). That parsing a rendered AST gives back the AST is checked by the bounded stand-in (14.6 M renderings and corruptions), labelled bounded.",
   note=TB+"The positive half (parse(render(AST)) = AST) is bounded, not proved.",
   technique=DED+"; bounded exhaustive stand-in for the grammar composition", design="3 (C04)"),
 "C06": dict(
   text="Unbounded deductive proof: Arch.IsWildcard/Is (recursive, with variant) equal the matching relation written from the statement for all architectures denoted by Debian names (symmetry proved as a lemma); ArchSet.Matches equals 'some entry matches != negated, empty admits all'; GetPossibilities returns, per relation and in order, the first non-substvar alternative whose list admits the architecture (count and position functions over the heap); GetAllPossibilities/GetSubstvars; SatisfiedBy equals the five-operator table over the verified Compare and the verified Parse, false for unparsable numbers and unknown operators.",
   note=TB+"Strings are compared only for equality here, so the uninterpreted string sort is exact.",
   technique=DED, design="3 (C06)"),
 "C18": dict(
   text="Deductive proof for the version and dependency/architecture parsers (45 functions so far): every BOUNDS/NIL/OVERFLOW/DIV0 obligation (no panic), a decreases clause on every loop and recursion (no hang), value-xor-error postconditions, and checked modifies frames (no write outside arguments and fresh objects, no global writes: calls on disjoint inputs commute). The control-paragraph, typed-document and changelog parsers and the dynamic race detector are covered by the bounded stand-in (all byte strings up to length 4 per entry point, 233 k mutated seed documents, 64-way concurrent parsing, go run -race in the thorough tier), labelled bounded.",
   note=TB+"Reflection-based decoders and scheduling are outside the verifier; they are only exercised by the bounded harness.",
   technique=DED+"; bounded exhaustive stand-in for the remaining entry points", design="3 (C18)"),
}
BOUNDED = {
 "C05": "renders/re-parses every token sequence up to length 5/6 over a 16-token alphabet and every architecture name of up to 4 components; fixpoint in one step and (abi, os, cpu) round trip",
 "C07": "3.7 M deb822 documents from the model (comments, blank runs, CRLF, final newline) against an independent oracle; representation invariant on all byte strings up to length 6/7 over 8 bytes; Next/All/Unmarshal agreement",
 "C08": "936 k paragraphs / documents through three write-read cycles and the encoder; no blank line inside a paragraph, identity up to one trailing newline, no growth",
 "C09": "22 probe struct types x value cross products, embedded raw paragraph with unknown fields in every slot; Unmarshal(Marshal(x)) == x, omission/required rules, no panic",
 "C10": "37 k documents of the six typed kinds rendered from field models in the Debian layout; typed parsers and accessors against the model",
 "C11": "28 k clearsigned inputs: 2 keys x 5 keyring compositions x every single-byte substitution/deletion/insertion/truncation and splices of foreign text; success only with a valid keyring signature over exactly the parsed text",
 "C12": "2 M (content, chunking, algorithm list) cases against crypto/* and all recorded-hash variants through every verifier entry point",
 "C13": "329 k ar archives from the member-list model; every field, data re-readable after iteration, exactly io.EOF at the end",
 "C15": "16.8 M corrupted archives / .debs (every header column x 10 hostile values, every truncation, substitutions, duplicated members, all 3-byte tails): step bound, no panic/hang, returned members consistent, deterministic",
 "C16": "7 k signed-package cases: roles x keyrings x byte corruption of every signed member x decoy members; payload still readable after verification",
 "C17": "2.5 M changelog renderings and every truncation point of 14.7 k of them; all entries or an error, never a silently shortened list",
 "C19": "85 k build-dependency graphs rendered as .dsc text (alternatives, arch restrictions, substvars, three fields, folded Binary lists); permutation, edges respected, error iff cycle, deterministic",
 "C20": "320 real-file-system scenarios: Copy/Move/Remove x .dsc/.changes x injected failure at every file x hostile names, plus a watcher on the order of appearance",
}
for pid, what in BOUNDED.items():
    claimed[pid] = dict(category="exploration",
      text="Bounded stand-in on the real code (never counted as proved): " + what + ". The contract-based proof of this property's functions is not built yet; until then the claim is bounded exploration only.",
      note="Only the stated finite domain is covered; the harness oracle is written from the property statement and is trusted.",
      technique="bounded exhaustive enumeration of a stated domain on the real code against an independent oracle (stand-in; the deductive obligations for this property are still to be built)",
      design="2.6, 3")
na = {
 "C14": "positive claim is carried by five third-party decompressors, archive/tar and reflection; no contract within reach can express it (DESIGN.md section 4). Its rejection/determinism clauses are function-local and are checked under C15.",
}
pending_reason = "check not built yet (build order: DESIGN.md section 5); not claimed until its obligations discharge"
allp = ["C%02d" % i for i in range(1, 21)]
checks = []
for pid in allp:
    if pid in claimed:
        c = claimed[pid]
        checks.append({
          "property_id": pid,
          "quick_cmd": "./check %s --tier quick" % pid,
          "thorough_cmd": "./check %s --tier thorough" % pid,
          "evidence_file": "/verif/evidence/%s.json" % pid,
          "replay_cmd_template": "./check %s --replay {path}" % pid,
          "engine": "govc",
          "level_claimed": {"category": c.get("category", "proof"), "text": c["text"], "design_ref": c["design"]},
          "level_note": c["note"],
          "technique": c["technique"],
        })
m = {
 "version": 1,
 "setup_cmd": "cd /verif/govc && GOFLAGS=-mod=mod GOPROXY=off GOSUMDB=off GOTOOLCHAIN=local go build -o /verif/bin/govc .",
 "hooks": {
   "guard": "verif",
   "enable": "go build tag: -tags verif (only adds comment-only contract files <pkg>/zz_verif_contracts.go; no executable code)",
   "baseline_off_cmd": "cd /repo && GOFLAGS=-mod=mod GOPROXY=off GOSUMDB=off go test -vet=off -count=1 ./...",
   "source_commits": json.load(open("/verif/hook_commits.json")) if __import__("os").path.exists("/verif/hook_commits.json") else [],
   "add_only": True,
 },
 "engines": [
   {"name": "govc", "path": "/verif/govc", "serves_properties": sorted(claimed), "kind_free_text": "deductive verifier for Go written for this task: contracts in guarded comment files, VC generation by symbolic execution of go/ssa (NaiveForm) with loop invariants/variants, call-by-contract, heap components, spec functions and inductive lemmas; obligations discharged by a z3-new/cvc5/z3 portfolio"},
 ],
 "checks": checks,
 "not_applicable": [{"property_id": p, "reason": na.get(p, pending_reason)} for p in allp if p not in claimed],
 "notes": "See DESIGN.md. Bounded stand-ins, where present, are reported under coverage.bounded and never counted in obligations/discharged.",
}
json.dump(m, open("/verif/MANIFEST.json", "w"), indent=1)
print("claimed:", sorted(claimed))
