#!/bin/bash
# usage: benign_eval.sh <dir-with-patch.diff-and-meta.json> <name> <prop> [<prop> ...]
# A behaviour-preserving change must NOT raise an alarm: applies the patch to a scratch worktree of /repo HEAD, runs the
# 95 tests and ./check <prop> (deductive + bounded) against it, records every property that exits non-zero.
set -u
src=$1; name=$2; shift 2
export GOFLAGS=-mod=mod GOPROXY=off GOSUMDB=off GOTOOLCHAIN=local
wt=$(mktemp -d /tmp/benignchk-XXXXXX); rmdir $wt
git -C /repo worktree add -q --detach $wt HEAD || exit 2
trap 'git -C /repo worktree remove --force $wt 2>/dev/null; rm -rf $wt-out' EXIT
git -C $wt apply $src/patch.diff || { echo "$name PATCH-DOES-NOT-APPLY"; exit 3; }
(cd $wt && go build ./... && go test -vet=off -count=1 ./... >/dev/null 2>&1) || { echo "$name TESTS-FAIL"; exit 4; }
alarms=""
for prop in "$@"; do
  out=$(cd /verif && VERIF_REPO=$wt VERIF_OUT=$wt-out ./check $prop 2>&1); rc=$?
  if [ $rc -ne 0 ]; then
    alarms="$alarms $prop"
    echo "$out" | grep -E "^  obligation|TRANSLATE|load failed|bounded check|LOAD" | head -3 | cut -c1-220 | sed "s/^/    [$name $prop] /"
  fi
done
echo "BENIGN $name alarms:${alarms:- none}"
mkdir -p /verif/seeded/benign/$name && cp $src/patch.diff $src/meta.json /verif/seeded/benign/$name/
python3 - "/verif/seeded/benign/$name/meta.json" "$alarms" "$*" <<'PY'
import json,sys
m=json.load(open(sys.argv[1])); m["checked_properties"]=sys.argv[3].split(); m["false_alarms"]=sys.argv[2].split()
json.dump(m,open(sys.argv[1],"w"),indent=1)
PY
