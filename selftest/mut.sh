#!/bin/bash
# usage: mut.sh <prop> <file-relative-to-repo> <sed-expression> [extra govc args]
# Applies a sed mutation to a scratch copy of /repo (outside /repo and /verif), runs govc on it, deletes the copy.
set -u
prop=$1; file=$2; expr=$3; shift 3
d=$(mktemp -d /tmp/govc-mut-XXXXXX)
trap 'rm -rf "$d"' EXIT
rsync -a --exclude .git /repo/ "$d/"
sed -i -E "$expr" "$d/$file"
if diff -q /repo/$file "$d/$file" >/dev/null; then echo "MUTATION DID NOT APPLY"; exit 3; fi
(cd "$d" && GOFLAGS=-mod=mod GOPROXY=off GOSUMDB=off GOTOOLCHAIN=local go build ./... ) || { echo "MUTANT DOES NOT COMPILE"; exit 4; }
/verif/bin/govc check -repo "$d" -prop "$prop" "$@"
