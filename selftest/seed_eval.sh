#!/bin/bash
# usage: seed_eval.sh <PROP> <dir-with-patch.diff-demo_test.go-meta.json> <name>
# 1. confirms the seeded change in a scratch worktree (suite passes, demo fails with / passes without the change)
# 2. applies it to /repo, runs ./check <PROP>, reverts
# 3. stores it under /verif/seeded/<name>/ with the outcome in meta.json
set -u
prop=$1; src=$2; name=$3
export GOFLAGS=-mod=mod GOPROXY=off GOSUMDB=off GOTOOLCHAIN=local
wt=$(mktemp -d /tmp/seedchk-XXXXXX); rmdir $wt
git -C /repo worktree add -q --detach $wt HEAD || exit 2
trap 'git -C /repo worktree remove --force $wt 2>/dev/null; rm -rf $wt-demo' EXIT
mkdir -p $wt-demo && cp $src/demo_test.go $wt-demo/ && cat > $wt-demo/go.mod <<EOM
module demo

go 1.19

require pault.ag/go/debian v0.0.0

replace pault.ag/go/debian => $wt
EOM
cp $wt/go.sum $wt-demo/go.sum
(cd $wt-demo && go test -vet=off -count=1 ./... >/dev/null 2>&1); without=$?
git -C $wt apply $src/patch.diff || { echo "PATCH DOES NOT APPLY"; exit 3; }
(cd $wt && go build ./... && go test -vet=off -count=1 ./... >/dev/null 2>&1); suite=$?
(cd $wt-demo && go test -vet=off -count=1 ./... >/dev/null 2>&1); with=$?
echo "confirm: demo-without=$without (want 0) suite-with=$suite (want 0) demo-with=$with (want !=0)"
if [ $without -ne 0 ] || [ $suite -ne 0 ] || [ $with -eq 0 ]; then echo "NOT CONFIRMED"; exit 4; fi
if [ -n "${SEED_SCRATCH:-}" ]; then
  # development mode: run the check against the scratch worktree (which already carries the change), outputs to a scratch dir
  out=$(cd /verif && VERIF_REPO=$wt VERIF_OUT=$wt-demo/out ./check $prop 2>&1); rc=$?
else
  # never work on a dirty /repo: the revert below would wipe uncommitted contract edits
  if [ -n "$(git -C /repo status --porcelain)" ]; then echo "/repo has uncommitted changes: commit them first (or use SEED_SCRATCH=1)"; exit 6; fi
  git -C /repo apply $src/patch.diff || exit 5
  out=$(cd /verif && ./check $prop 2>&1); rc=$?
  git -C /repo checkout -- .
fi
caught=$( [ $rc -ne 0 ] && echo yes || echo no )
echo "$out" | grep -E "VIOLATION|obligation|bounded check|^govc:|^bounded:" | head -8
echo "RESULT $name prop=$prop caught=$caught"
mkdir -p /verif/seeded/$name && cp $src/patch.diff $src/demo_test.go /verif/seeded/$name/
python3 - "$src/meta.json" "/verif/seeded/$name/meta.json" "$prop" "$caught" "$out" <<'PY'
import json,sys
m=json.load(open(sys.argv[1]))
m["confirmed"]={"demo_passes_without_change":True,"existing_suite_passes_with_change":True,"demo_fails_with_change":True,"how":"selftest/seed_eval.sh in a scratch worktree of /repo HEAD"}
lines=[l for l in sys.argv[5].split("\n") if ("VIOLATION" in l or "obligation" in l or "bounded check" in l)]
m["check"]={"command":"./check %s (quick) with the change applied to /repo, reverted afterwards"%sys.argv[3],"caught":sys.argv[4]=="yes","reported":lines[:6]}
json.dump(m,open(sys.argv[2],"w"),indent=1)
PY
