#!/usr/bin/env python3
"""Must-fail corpus: every entry is a small change of /repo that breaks a property (or a contract statement turned
false). Each is applied to a scratch copy of /repo outside /repo and /verif, `govc check` for the affected property
is run on the copy and REQUIRED to report a failed obligation; the copy is deleted. A change that verifies is an
engine or contract hole and fails the run.  usage: run.py [--only substr] [--jobs N]"""
import json, os, shutil, subprocess, sys, tempfile, concurrent.futures as cf
HERE = os.path.dirname(os.path.abspath(__file__))
ENV = dict(os.environ, GOFLAGS="-mod=mod", GOPROXY="off", GOSUMDB="off", GOTOOLCHAIN="local")
def run_one(m):
    src = open("/repo/" + m["file"]).read()
    if src.count(m["old"]) < 1:
        return m["name"], "STALE (pattern not found: the code changed, update the corpus)", False
    d = tempfile.mkdtemp(prefix="govc-selftest-")
    try:
        subprocess.run(["rsync", "-a", "--exclude", ".git", "/repo/", d + "/"], check=True)
        open(d + "/" + m["file"], "w").write(src.replace(m["old"], m["new"], 1))
        if not m["file"].endswith("zz_verif_contracts.go"):
            b = subprocess.run(["go", "build", "./..."], cwd=d, env=ENV, capture_output=True, text=True)
            if b.returncode != 0:
                return m["name"], "DOES NOT COMPILE", False
        r = subprocess.run([os.path.join(HERE, "..", "bin", "govc"), "check", "-repo", d, "-stdlib", os.path.join(HERE, "..", "stdlib"), "-prop", m["prop"]],
                           capture_output=True, text=True)
        failed = [l.strip() for l in r.stdout.split("\n") if l.strip().startswith("obligation ") or "TRANSLATE" in l or "vacuity guard" in l or "load failed" in l]
        if r.returncode == 0 or not failed:
            return m["name"], "NOT DETECTED (hole!)", False
        return m["name"], failed[0][:140], True
    finally:
        shutil.rmtree(d, ignore_errors=True)
def main():
    corpus = json.load(open(os.path.join(HERE, "corpus.json")))
    only = None; jobs = 4
    a = sys.argv[1:]
    while a:
        if a[0] == "--only": only = a[1]; a = a[2:]
        elif a[0] == "--jobs": jobs = int(a[1]); a = a[2:]
        else: a = a[1:]
    if only: corpus = [m for m in corpus if only in m["name"] or only in m["prop"]]
    bad = 0
    with cf.ThreadPoolExecutor(max_workers=jobs) as ex:
        for name, msg, ok in ex.map(run_one, corpus):
            print(("ok   " if ok else "FAIL ") + name + ": " + msg, flush=True)
            bad += 0 if ok else 1
    print("selftest: %d entries, %d not detected" % (len(corpus), bad))
    sys.exit(1 if bad else 0)
main()
