#!/bin/bash
# usage: seed_matrix.sh [name ...]   (default: every directory under /verif/seeded)
# For each seeded change: scratch worktree of /repo HEAD + the patch, then the deductive part (govc) and the bounded
# stand-in separately; records {"deductive": bool, "bounded": bool, ...} as "caught_by" in seeded/<name>/meta.json.
set -u
export GOFLAGS=-mod=mod GOPROXY=off GOSUMDB=off GOTOOLCHAIN=local
cd /verif
names=("$@"); [ ${#names[@]} -eq 0 ] && names=($(ls seeded))
one() {
  name=$1; prop=${name%-*}
  wt=$(mktemp -d /tmp/seedmx-XXXXXX); rmdir $wt
  git -C /repo worktree add -q --detach $wt HEAD || return
  git -C $wt apply /verif/seeded/$name/patch.diff || { echo "$name PATCH-FAILS"; git -C /repo worktree remove --force $wt; return; }
  ded=na; dl=""
  if grep -qs "^property $prop:" $wt/*/zz_verif_contracts.go; then
    out=$(bin/govc check -repo $wt -stdlib stdlib -prop $prop -known known_findings.json 2>&1); rc=$?
    ded=$([ $rc -ne 0 ] && echo true || echo false)
    dl=$(echo "$out" | grep -E "^  obligation|TRANSLATE|load failed" | head -2 | cut -c1-160)
  fi
  bnd=na; bl=""
  if [ -f bounded/$prop/main.go ]; then
    tmp=$(mktemp /tmp/seedmx-b-XXXXXX.json)
    out=$(VERIF_OUT=$wt-out python3 bounded/driver.py $prop $wt quick $tmp 2>&1); rc=$?
    bnd=$([ $rc -ne 0 ] && echo true || echo false)
    bl=$(echo "$out" | grep -E "bounded check" | head -1 | cut -c1-160)
    rm -f $tmp
  fi
  git -C /repo worktree remove --force $wt; rm -rf $wt-out
  python3 - "$name" "$ded" "$bnd" "$dl" "$bl" <<'PY'
import json,sys
name,ded,bnd,dl,bl=sys.argv[1:6]
p='/verif/seeded/%s/meta.json'%name
m=json.load(open(p))
conv={'true':True,'false':False,'na':None}
m['caught_by']={'deductive':conv[ded],'bounded':conv[bnd],'deductive_report':dl,'bounded_report':bl}
m.setdefault('check',{})['caught']=bool(conv[ded] or conv[bnd])
json.dump(m,open(p,'w'),indent=1)
print(name,'deductive=%s bounded=%s'%(ded,bnd))
PY
}
export -f one
printf "%s\n" "${names[@]}" | xargs -P 4 -I{} bash -c 'one {}'
