import random, subprocess, itertools
def isdig(c): return '0'<=c<='9'
def ordc(c):
    if isdig(c): return 0
    if c.isalpha() and c.isascii(): return ord(c)
    if c=='~': return -1
    return ord(c)+256
def nde(s,i):
    while i<len(s) and not isdig(s[i]): i+=1
    return i
def de(s,i):
    while i<len(s) and isdig(s[i]): i+=1
    return i
def wt(s,i,e): return ordc(s[i]) if i<e else 0
def lex(a,i,ie,b,j,je):
    while not (i>=ie and j>=je):
        if wt(a,i,ie)!=wt(b,j,je): return wt(a,i,ie)-wt(b,j,je)
        i+=1;j+=1
    return 0
def sgn(x): return (x>0)-(x<0)
def vcmp(a,b):
    i=j=0
    while not (i>=len(a) and j>=len(b)):
        ie,je=nde(a,i),nde(b,j)
        r=lex(a,i,ie,b,j,je)
        if r: return sgn(r)
        i2,j2=de(a,ie),de(b,je)
        d=int(a[ie:i2] or '0')-int(b[je:j2] or '0')
        if d: return sgn(d)
        i,j=i2,j2
    return 0
def dpkg(a,b):
    for op,v in (('lt',-1),('eq',0),('gt',1)):
        if subprocess.run(['dpkg','--compare-versions',a,op,b],stderr=subprocess.DEVNULL).returncode==0: return v
random.seed(1)
alpha="0019aZ.+~-"
bad=0;n=0
for _ in range(1500):
    # upstream-only versions "1"+rand vs; use form 0:X-1? use revision-less: compare X strings as upstream starting with digit
    a='1'+''.join(random.choice(alpha) for _ in range(random.randint(0,5)))
    b='1'+''.join(random.choice(alpha) for _ in range(random.randint(0,5)))
    # avoid '-' splitting differences: put as upstream with fixed revision by replacing '-' -> handled: dpkg splits at last '-'
    a2=a.replace('-','+'); b2=b.replace('-','+')
    s=vcmp(a2,b2); d=dpkg(a2,b2); n+=1
    if s!=d: bad+=1; print("MISMATCH",a2,b2,s,d)
print("checked",n,"bad",bad)
