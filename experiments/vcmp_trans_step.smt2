(define-sort Arr () (Array Int Int))
(define-fun isdig ((c Int)) Bool (and (<= 48 c) (<= c 57)))
(define-fun isalpha ((c Int)) Bool (or (and (<= 97 c) (<= c 122)) (and (<= 65 c) (<= c 90))))
(define-fun ord ((c Int)) Int (ite (isdig c) 0 (ite (isalpha c) c (ite (= c 126) (- 1) (ite (not (= c 0)) (+ c 256) 0)))))
(define-fun sgn ((x Int)) Int (ite (< x 0) (- 1) (ite (> x 0) 1 0)))
(define-fun-rec nde ((s Arr) (n Int) (i Int)) Int
  (ite (and (<= 0 i) (< i n) (not (isdig (select s i)))) (nde s n (+ i 1)) i))
(define-fun-rec de ((s Arr) (n Int) (i Int)) Int
  (ite (and (<= 0 i) (< i n) (isdig (select s i))) (de s n (+ i 1)) i))
(define-fun-rec val ((s Arr) (lo Int) (hi Int)) Int
  (ite (<= hi lo) 0 (+ (* 10 (val s lo (- hi 1))) (- (select s (- hi 1)) 48))))
(define-fun wt ((s Arr) (i Int) (e Int)) Int (ite (< i e) (ord (select s i)) 0))
(define-fun-rec lex ((a Arr) (i Int) (ie Int) (b Arr) (j Int) (je Int)) Int
  (ite (and (>= i ie) (>= j je)) 0
    (ite (not (= (wt a i ie) (wt b j je))) (- (wt a i ie) (wt b j je))
       (lex a (+ i 1) ie b (+ j 1) je))))
(define-fun-rec vcmp ((a Arr) (la Int) (i Int) (b Arr) (lb Int) (j Int)) Int
  (ite (and (>= i la) (>= j lb)) 0
   (let ((ie (nde a la i)) (je (nde b lb j)))
    (let ((r (lex a i ie b j je)))
     (ite (not (= r 0)) (sgn r)
      (let ((i2 (de a la ie)) (j2 (de b lb je)))
       (let ((d (- (val a ie i2) (val b je j2))))
        (ite (not (= d 0)) (sgn d)
          (vcmp a la i2 b lb j2)))))))))
; proven-elsewhere lemmas as axioms
(assert (forall ((s Arr) (n Int) (k Int)) (! (and (>= (nde s n k) k) (=> (<= k n) (<= (nde s n k) n))) :pattern ((nde s n k)))))
(assert (forall ((s Arr) (n Int) (k Int)) (! (and (>= (de s n k) k) (=> (<= k n) (<= (de s n k) n))) :pattern ((de s n k)))))
(declare-const a Arr) (declare-const la Int) (declare-const b Arr) (declare-const lb Int) (declare-const c Arr) (declare-const lc Int)
(declare-const i Int) (declare-const j Int) (declare-const k Int) (declare-const ie Int) (declare-const je Int) (declare-const ke Int)

; LexTrans as quantified lemma (proved above by induction)
(define-fun LTq ((a Arr) (i Int) (ie Int) (b Arr) (j Int) (je Int) (c Arr) (k Int) (ke Int)) Bool
  (let ((rab (lex a i ie b j je)) (rbc (lex b j je c k ke)) (rac (lex a i ie c k ke)))
   (and (=> (and (<= rab 0) (<= rbc 0)) (<= rac 0))
        (=> (and (<= rab 0) (<= rbc 0) (or (< rab 0) (< rbc 0))) (< rac 0))
        (=> (and (= rab 0) (= rbc 0)) (= rac 0)))))
; LexExh: x exhausted on both a and b sides => same lex against c (left and right)
(define-fun T ((i Int) (j Int) (k Int)) Bool
  (let ((sab (vcmp a la i b lb j)) (sbc (vcmp b lb j c lc k)) (sac (vcmp a la i c lc k)))
   (and (=> (and (<= sab 0) (<= sbc 0)) (<= sac 0))
        (=> (and (<= sab 0) (<= sbc 0) (or (< sab 0) (< sbc 0))) (< sac 0)))))
(assert (and (<= 0 i) (<= 0 j) (<= 0 k) (<= 0 la) (<= 0 lb) (<= 0 lc)))
(define-fun ie1 () Int (nde a la i)) (define-fun je1 () Int (nde b lb j)) (define-fun ke1 () Int (nde c lc k))
(define-fun i2 () Int (de a la ie1)) (define-fun j2 () Int (de b lb je1)) (define-fun k2 () Int (de c lc ke1))
(push)
(echo "VcmpTrans step, case none exhausted-pair (all three pairs unfold)")
(assert (LTq a i ie1 b j je1 c k ke1))
(assert (T i2 j2 k2)) ; IH
; case: no pair is jointly exhausted
(assert (not (and (>= i la) (>= j lb))))
(assert (not (and (>= j lb) (>= k lc))))
(assert (not (and (>= i la) (>= k lc))))
(assert (not (T i j k)))
(check-sat)
(pop)
