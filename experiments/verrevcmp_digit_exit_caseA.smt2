(define-sort Arr () (Array Int Int))
(define-fun isdig ((c Int)) Bool (and (<= 48 c) (<= c 57)))
(define-fun-rec de ((s Arr) (n Int) (i Int)) Int
  (ite (and (<= 0 i) (< i n) (isdig (select s i))) (de s n (+ i 1)) i))
(define-fun-rec val ((s Arr) (lo Int) (hi Int)) Int
  (ite (<= hi lo) 0 (+ (* 10 (val s lo (- hi 1))) (- (select s (- hi 1)) 48))))
; lemma instances are supplied as hypotheses (lemma-call style), here stated generally for the test
(assert (forall ((s Arr) (n Int) (k Int)) (! (and (>= (de s n k) k) (=> (<= k n) (<= (de s n k) n))) :pattern ((de s n k)))))
(declare-const a Arr) (declare-const la Int) (declare-const b Arr) (declare-const lb Int)
(declare-const ie Int) (declare-const je Int) (declare-const i3 Int) (declare-const j3 Int) (declare-const i Int) (declare-const j Int) (declare-const fd Int)
(define-fun i2 () Int (de a la ie)) (define-fun j2 () Int (de b lb je))
; facts carried: L3/L4 results
(assert (and (<= 0 ie) (<= ie i3) (<= i3 i2) (= (de a la i3) i2) (= (val a i3 i2) (val a ie i2)) (not (and (< i3 la) (= (select a i3) 48)))))
(assert (and (<= 0 je) (<= je j3) (<= j3 j2) (= (de b lb j3) j2) (= (val b j3 j2) (val b je j2))))
; L5 invariant at exit
(assert (and (<= i3 i) (<= i i2) (<= j3 j) (<= j j2) (= (- i i3) (- j j3)) (= (de a la i) i2) (= (de b lb j) j2)))
; exit case A: a has digit at i, b's run ended
(assert (and (< i la) (isdig (select a i))))
(assert (not (and (< j lb) (isdig (select b j)))))
; lemma de_digits instances: all of [i3,i2) digits ; [j3,j2) digits  (quantified facts from lemma)
(assert (forall ((q Int)) (! (=> (and (<= i3 q) (< q i2)) (isdig (select a q))) :pattern ((select a q)))))
(assert (forall ((q Int)) (! (=> (and (<= j3 q) (< q j2)) (isdig (select b q))) :pattern ((select b q)))))
; lemma longer_wins(a,i3,b,j3,n) instance with n = j-j3 ; lemma val_mono(a,i3,i+1,i2)
(define-fun n () Int (- j j3))
(assert (=> (and (>= n 0) (not (= (select a i3) 48))) (> (val a i3 (+ i3 n 1)) (val b j3 (+ j3 n)))))
(assert (=> (<= (+ i 1) i2) (>= (val a i3 i2) (val a i3 (+ i 1)))))
(echo "case A: d > 0 (expect unsat)")
(assert (not (> (- (val a ie i2) (val b je j2)) 0)))
(check-sat)
