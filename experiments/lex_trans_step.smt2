(define-sort Arr () (Array Int Int))
(define-fun isdig ((c Int)) Bool (and (<= 48 c) (<= c 57)))
(define-fun isalpha ((c Int)) Bool (or (and (<= 97 c) (<= c 122)) (and (<= 65 c) (<= c 90))))
(define-fun ord ((c Int)) Int (ite (isdig c) 0 (ite (isalpha c) c (ite (= c 126) (- 1) (ite (not (= c 0)) (+ c 256) 0)))))
(define-fun sgn ((x Int)) Int (ite (< x 0) (- 1) (ite (> x 0) 1 0)))
(define-fun-rec nde ((s Arr) (n Int) (i Int)) Int
  (ite (and (<= 0 i) (< i n) (not (isdig (select s i)))) (nde s n (+ i 1)) i))
(define-fun-rec de ((s Arr) (n Int) (i Int)) Int
  (ite (and (<= 0 i) (< i n) (isdig (select s i))) (de s n (+ i 1)) i))
(define-fun-rec val ((s Arr) (lo Int) (hi Int)) Int
  (ite (<= hi lo) 0 (+ (* 10 (val s lo (- hi 1))) (- (select s (- hi 1)) 48))))
(define-fun wt ((s Arr) (i Int) (e Int)) Int (ite (< i e) (ord (select s i)) 0))
(define-fun-rec lex ((a Arr) (i Int) (ie Int) (b Arr) (j Int) (je Int)) Int
  (ite (and (>= i ie) (>= j je)) 0
    (ite (not (= (wt a i ie) (wt b j je))) (- (wt a i ie) (wt b j je))
       (lex a (+ i 1) ie b (+ j 1) je))))
(define-fun-rec vcmp ((a Arr) (la Int) (i Int) (b Arr) (lb Int) (j Int)) Int
  (ite (and (>= i la) (>= j lb)) 0
   (let ((ie (nde a la i)) (je (nde b lb j)))
    (let ((r (lex a i ie b j je)))
     (ite (not (= r 0)) (sgn r)
      (let ((i2 (de a la ie)) (j2 (de b lb je)))
       (let ((d (- (val a ie i2) (val b je j2))))
        (ite (not (= d 0)) (sgn d)
          (vcmp a la i2 b lb j2)))))))))
; proven-elsewhere lemmas as axioms
(assert (forall ((s Arr) (n Int) (k Int)) (! (and (>= (nde s n k) k) (=> (<= k n) (<= (nde s n k) n))) :pattern ((nde s n k)))))
(assert (forall ((s Arr) (n Int) (k Int)) (! (and (>= (de s n k) k) (=> (<= k n) (<= (de s n k) n))) :pattern ((de s n k)))))
(declare-const a Arr) (declare-const la Int) (declare-const b Arr) (declare-const lb Int) (declare-const c Arr) (declare-const lc Int)
(declare-const i Int) (declare-const j Int) (declare-const k Int) (declare-const ie Int) (declare-const je Int) (declare-const ke Int)
; ---- LexTrans(i,j,k) with fixed ie,je,ke
(define-fun LT ((i Int) (j Int) (k Int)) Bool
  (let ((rab (lex a i ie b j je)) (rbc (lex b j je c k ke)) (rac (lex a i ie c k ke)))
   (and (=> (and (<= rab 0) (<= rbc 0)) (<= rac 0))
        (=> (and (<= rab 0) (<= rbc 0) (or (< rab 0) (< rbc 0))) (< rac 0))
        (=> (and (= rab 0) (= rbc 0)) (= rac 0)))))
(push)
(echo "LexTrans step")
(assert (LT (+ i 1) (+ j 1) (+ k 1)))
(assert (not (LT i j k)))
(check-sat)
(pop)
