package main

import (
	"go/token"
	"go/types"
	"encoding/json"
	"flag"
	"fmt"
	"os"
	"path/filepath"
	"sort"
	"strconv"
	"strings"
	"time"

	"golang.org/x/tools/go/ssa"
)

type Options struct {
	repo, stdlib, prop, tier, evidence, replayDir, known, keep, extra string
	timeout, workers, nsolvers                                      int
	funcs                                                           string
	verbose, names                                                  bool
	only, lock                                                      string
	levelNote                                                       string
}

func main() {
	if len(os.Args) < 2 {
		fmt.Fprintln(os.Stderr, "usage: govc check|dump|list ...")
		os.Exit(2)
	}
	cmd := os.Args[1]
	fs := flag.NewFlagSet(cmd, flag.ExitOnError)
	var o Options
	fs.StringVar(&o.repo, "repo", "/repo", "repository root")
	fs.StringVar(&o.stdlib, "stdlib", "/verif/stdlib", "directory of trusted *.spec files")
	fs.StringVar(&o.prop, "prop", "", "property id")
	fs.StringVar(&o.tier, "tier", "quick", "quick|thorough")
	fs.StringVar(&o.evidence, "evidence", "", "evidence file to write")
	fs.StringVar(&o.replayDir, "replay", "", "directory for replay files")
	fs.StringVar(&o.known, "known", "", "known findings file")
	fs.StringVar(&o.keep, "keep", "", "directory to keep failed queries in")
	fs.StringVar(&o.extra, "extra", "", "JSON file with bounded-check results to merge into the evidence")
	fs.IntVar(&o.timeout, "timeout", 0, "solver timeout per obligation (s)")
	fs.IntVar(&o.workers, "workers", 8, "parallel obligations")
	fs.IntVar(&o.nsolvers, "solvers", 2, "portfolio width")
	fs.StringVar(&o.funcs, "funcs", "", "comma-separated pkg.func[label] list (instead of -prop)")
	fs.BoolVar(&o.verbose, "v", false, "verbose")
	fs.BoolVar(&o.names, "names", false, "list every obligation")
	fs.StringVar(&o.levelNote, "level", "proof", "level written to the evidence (a property whose deciding part is the bounded stand-in says exploration)")
	fs.StringVar(&o.lock, "lock", "/verif/contracts.lock.json", "name lock file (see lock.go)")
	fs.StringVar(&o.only, "only", "", "development: discharge only obligations whose name contains this substring")
	fs.Parse(os.Args[2:])
	if o.timeout == 0 {
		if o.tier == "thorough" {
			o.timeout = 60
		} else {
			o.timeout = 10
		}
	}
	if o.tier == "thorough" {
		o.nsolvers = 3
	}
	switch cmd {
	case "check":
		os.Exit(runCheck(&o))
	case "dump":
		w, err := loadWorld(o.repo, o.stdlib, []string{"./..."})
		if err != nil {
			fmt.Fprintln(os.Stderr, err)
			os.Exit(2)
		}
		for _, f := range strings.Split(o.funcs, ",") {
			pi, fn := w.findFunc(f)
			if fn == nil {
				fmt.Fprintln(os.Stderr, "unknown function", f)
				continue
			}
			_ = pi
			fn.WriteTo(os.Stdout)
			li := analyzeLoops(fn)
			for _, l := range li.Loops {
				fmt.Printf("loop %d: head block %d, %d blocks\n", l.Ordinal, l.Head.Index, len(l.Blocks))
			}
		}
	case "lock":
		w, err := loadWorld(o.repo, o.stdlib, []string{"./..."})
		if err != nil {
			fmt.Fprintln(os.Stderr, err)
			os.Exit(2)
		}
		if err := w.writeLock(o.lock); err != nil {
			fmt.Fprintln(os.Stderr, err)
			os.Exit(2)
		}
	case "layouts":
		w, err := loadWorld(o.repo, o.stdlib, []string{"./..."})
		if err != nil {
			fmt.Fprintln(os.Stderr, err)
			os.Exit(2)
		}
		w.dumpLayouts(strings.Split(o.funcs, ","))
	case "list":
		w, err := loadWorld(o.repo, o.stdlib, []string{"./..."})
		if err != nil {
			fmt.Fprintln(os.Stderr, err)
			os.Exit(2)
		}
		for _, pi := range w.sortedPkgs() {
			if pi.contract == nil {
				continue
			}
			for _, pd := range pi.contract.Props {
				fmt.Printf("%s %s:", pd.ID, pi.types.Name())
				for _, it := range pd.Items {
					fmt.Printf(" %s:%s[%s]", it.Kind, it.Name, it.Label)
				}
				fmt.Println()
			}
		}
	default:
		fmt.Fprintln(os.Stderr, "unknown command", cmd)
		os.Exit(2)
	}
}

func (w *World) sortedPkgs() []*PkgInfo {
	var out []*PkgInfo
	for _, p := range w.pkgs {
		out = append(out, p)
	}
	sort.Slice(out, func(i, j int) bool { return out[i].path < out[j].path })
	return out
}

// findFunc resolves "pkgname.Func" / "pkgname.(*T).M".
func (w *World) findFunc(name string) (*PkgInfo, *ssa.Function) {
	i := strings.Index(name, ".")
	if i < 0 {
		return nil, nil
	}
	pn, fnn := name[:i], name[i+1:]
	for _, pi := range w.pkgs {
		if pi.types.Name() == pn {
			if fn, ok := pi.funcs[normName(fnn)]; ok {
				return pi, fn
			}
		}
	}
	return nil, nil
}

type target struct {
	pi    *PkgInfo
	fn    *ssa.Function
	fc    *FuncContract
	label string
}

type Evidence struct {
	PropertyID  string                 `json:"property_id"`
	Tier        string                 `json:"tier"`
	Seed        int                    `json:"seed"`
	Level       string                 `json:"level"`
	Coverage    map[string]interface{} `json:"coverage"`
	Assumptions []string               `json:"assumptions"`
	WallS       float64                `json:"wall_s"`
	Violations  int                    `json:"violations"`
}

type KnownFinding struct {
	Property   string `json:"property"`
	Obligation string `json:"obligation"`
	What       string `json:"what"`
	Status     string `json:"status,omitempty"` // "" open finding | "fixed"
	Commit     string `json:"commit,omitempty"`
}

var modellingAssumptions = []string{
	"go/ssa (x/tools v0.29.0, NaiveForm) of the current /repo sources is taken as the semantics of the code; the translation SSA->SMT and the solvers' 'unsat' answers are trusted",
	"int/uint are 64 bit; integers are mathematical in the logic and every + - * / unary- on a sized type carries an OVERFLOW obligation, so mathematical = machine arithmetic where those are discharged",
	"strings are byte sequences (uninterpreted sort with len/at, extensionality instances added per equality)",
	"append returns a fresh backing array (no aliasing with the old slice); memory exhaustion and stack depth are ignored; no string or slice is longer than 2^62 elements",
	"fresh objects: allocation (and the initialising stores into an object before it escapes its basic block) is modelled as an assumption on the current heap instead of a heap update; sound because no pointer to the object existed before",
	"goroutines, channels, select, recover, unsafe, floating point are outside the subset: a function using them is rejected, not approximated",
	"package-level error values of other packages (io.EOF, io.ErrUnexpectedEOF, ...) are constant, non-nil and pairwise distinct; errors made by fmt.Errorf/errors.New differ from all of them",
}

func runCheck(o *Options) int {
	start := time.Now()
	w, err := loadWorld(o.repo, o.stdlib, []string{"./..."})
	if err != nil {
		fmt.Fprintln(os.Stderr, "govc: load failed:", err)
		// a load failure (e.g. contract drift) is reported as a violation without a failing input
		return reportLoadFailure(o, err, start)
	}
	w.loadLock(o.lock)
	var targets []target
	lemmaSet := map[string]bool{}
	var examples []*Example
	type layoutRef struct {
		pi *PkgInfo
		l  *Layout
	}
	var layouts []layoutRef
	examplePkg := map[string]*PkgInfo{}
	involved := map[*PkgInfo]bool{}
	var sharedPkgs []*PkgInfo
	addFunc := func(pi *PkgInfo, name, label string) error {
		fn, ok := pi.funcs[normName(name)]
		if !ok {
			return fmt.Errorf("property item %s: unknown function", name)
		}
		fc := w.contractFor(fn)
		if fc == nil {
			return fmt.Errorf("property item %s: no contract", name)
		}
		targets = append(targets, target{pi, fn, fc, ""})
		if label != "" {
			targets = append(targets, target{pi, fn, fc, label})
		}
		involved[pi] = true
		return nil
	}
	if o.funcs != "" {
		for _, f := range strings.Split(o.funcs, ",") {
			label := ""
			if i := strings.Index(f, "["); i >= 0 {
				label = strings.TrimSuffix(f[i+1:], "]")
				f = f[:i]
			}
			pi, fn := w.findFunc(f)
			if fn == nil {
				fmt.Fprintln(os.Stderr, "unknown function", f)
				return 2
			}
			if err := addFunc(pi, fn.RelString(pi.types), label); err != nil {
				fmt.Fprintln(os.Stderr, err)
				return 2
			}
		}
	} else {
		found := false
		for _, pi := range w.sortedPkgs() {
			if pi.contract == nil {
				continue
			}
			for _, pd := range pi.contract.Props {
				if pd.ID != o.prop {
					continue
				}
				found = true
				for _, it := range pd.Items {
					switch it.Kind {
					case "func":
						if err := addFunc(pi, it.Name, it.Label); err != nil {
							return reportLoadFailure(o, err, start)
						}
					case "lemma":
						if _, ok := w.lemmas[it.Name]; !ok {
							return reportLoadFailure(o, fmt.Errorf("property %s: unknown lemma %s", o.prop, it.Name), start)
						}
						lemmaSet[it.Name] = true
						involved[pi] = true
					case "layout":
						ok := false
						for _, l := range pi.contract.Layouts {
							if l.Type == it.Name {
								layouts = append(layouts, layoutRef{pi, l})
								ok = true
							}
						}
						if !ok {
							return reportLoadFailure(o, fmt.Errorf("property %s: unknown layout %s", o.prop, it.Name), start)
						}
					case "nosharedwrites":
						sharedPkgs = append(sharedPkgs, pi)
						involved[pi] = true
					case "typeinv":
						ts, err := w.typeInvTargets(pi, it.Name)
						if err != nil {
							return reportLoadFailure(o, fmt.Errorf("property %s: %v", o.prop, err), start)
						}
						targets = append(targets, ts...)
						involved[pi] = true
					case "example":
						for _, ex := range pi.contract.Examples {
							if ex.Name == it.Name {
								examples = append(examples, ex)
								examplePkg[ex.Name] = pi
							}
						}
						involved[pi] = true
					}
				}
			}
		}
		if !found {
			fmt.Fprintf(os.Stderr, "govc: no contract file declares property %s\n", o.prop)
			return reportLoadFailure(o, fmt.Errorf("no contract file declares property %s (contract files missing?)", o.prop), start)
		}
	}
	// dedupe targets
	seenT := map[string]bool{}
	var ts []target
	for _, t := range targets {
		k := t.fn.String() + "[" + t.label + "]"
		if !seenT[k] {
			seenT[k] = true
			ts = append(ts, t)
		}
	}
	targets = ts

	var results []*FuncResult
	var jobs []*job
	// Modular soundness per property: a callee's contract is only as good as the check of that callee, so every function
	// whose (non-trusted) contract is applied at a call site of a target becomes a target of this property as well.
	var closure []string
	for i := 0; i < len(targets); i++ {
		t := targets[i]
		r := w.verifyFunc(t.pi, t.fn, t.fc, t.label)
		results = append(results, r)
		for _, ob := range r.Obls {
			jobs = append(jobs, &job{o: ob, g: r.Gen, uses: t.fc.Uses})
		}
		// lemmas referenced by hints
		collectLemmaRefs(t.fc, lemmaSet)
		for _, u := range t.fc.Uses {
			lemmaSet[u] = true
		}
		if o.funcs != "" {
			continue
		}
		sort.Slice(r.Called, func(a, b int) bool { return r.Called[a].String() < r.Called[b].String() })
		for _, cf := range r.Called {
			k := cf.String() + "[]"
			if seenT[k] || cf.Blocks == nil {
				continue
			}
			cpi, mine := w.pkgs[pkgPath(cf)]
			cfc := w.contractFor(cf)
			if !mine || cfc == nil || cfc.Trusted {
				continue
			}
			seenT[k] = true
			targets = append(targets, target{cpi, cf, cfc, ""})
			involved[cpi] = true
			closure = append(closure, cf.RelString(nil))
		}
	}
	sort.Strings(closure)
	w.closure = closure
	// exported entry points of the packages this property touches that no contract of this run speaks for
	{
		covered := map[*ssa.Function]bool{}
		for _, t := range targets {
			covered[t.fn] = true
		}
		inl := map[string]bool{}
		for _, r := range results {
			for _, n := range r.Inlined {
				inl[n] = true
			}
		}
		var un []string
		for pi := range involved {
			for _, fn := range pi.funcs {
				if fn.Pkg == nil || fn.Pkg.Pkg != pi.types || fn.Synthetic != "" || fn.Blocks == nil || covered[fn] || inl[fn.String()] || !token.IsExported(fn.Name()) {
					continue
				}
				if rv := fn.Signature.Recv(); rv != nil {
					rt := rv.Type()
					if p, ok := rt.(*types.Pointer); ok {
						rt = p.Elem()
					}
					if nt, ok := rt.(*types.Named); ok && !nt.Obj().Exported() {
						continue
					}
				}
				un = append(un, fn.RelString(nil))
			}
		}
		sort.Strings(un)
		w.uncovered = un
	}
	// lemma closure: bodies, plus all auto lemmas of the involved packages
	for _, lm := range w.lemmas {
		if lm.Auto && (w.lemmaPkg[lm.Name] == nil || involved[w.lemmaPkg[lm.Name]]) {
			lemmaSet[lm.Name] = true
		}
	}
	for changed := true; changed; {
		changed = false
		for n := range lemmaSet {
			lm := w.lemmas[n]
			if lm == nil {
				return reportLoadFailure(o, fmt.Errorf("unknown lemma %s", n), start)
			}
			before := len(lemmaSet)
			collectStmtLemmas(lm.Body, lemmaSet)
			if len(lemmaSet) != before {
				changed = true
			}
		}
	}
	var lnames []string
	for n := range lemmaSet {
		lnames = append(lnames, n)
	}
	sort.Strings(lnames)
	for _, n := range lnames {
		lm := w.lemmas[n]
		pi := w.lemmaPkg[n]
		if pi == nil {
			pi = w.stdPkg() // lemmas of the shared prelude are proved like any other (axioms are skipped inside)
		}
		r := w.verifyLemma(pi, lm)
		results = append(results, r)
		for _, ob := range r.Obls {
			jobs = append(jobs, &job{o: ob, g: r.Gen})
		}
	}
	// spec function termination for the involved packages (and the shared prelude)
	for _, n := range w.specOrder {
		pi := w.specPkg[n]
		if pi == nil {
			pi = w.stdPkg()
		} else if !involved[pi] {
			continue
		}
		r := w.verifySpec(pi, w.specs[n])
		results = append(results, r)
		for _, ob := range r.Obls {
			jobs = append(jobs, &job{o: ob, g: r.Gen})
		}
	}
	// examples
	for _, ex := range examples {
		pi := examplePkg[ex.Name]
		r := w.verifyExample(pi, ex)
		results = append(results, r)
		for _, ob := range r.Obls {
			jobs = append(jobs, &job{o: ob, g: r.Gen})
		}
	}

	for _, sp := range sharedPkgs {
		r := w.verifyNoSharedWrites(sp)
		results = append(results, r)
		for _, ob := range r.Obls {
			jobs = append(jobs, &job{o: ob, g: r.Gen, preset: true})
		}
	}
	for _, lr := range layouts {
		r := w.verifyLayout(lr.pi, lr.l)
		results = append(results, r)
		for _, ob := range r.Obls {
			jobs = append(jobs, &job{o: ob, g: r.Gen, preset: true})
		}
	}

	// vacuity guard on the background theory
	{
		var gens []*Gen
		for _, r := range results {
			gens = append(gens, r.Gen)
		}
		qs := w.buildAxiomQueries(gens)
		var qn []string
		for n := range qs {
			qn = append(qn, n)
		}
		sort.Strings(qn)
		for _, n := range qn {
			ao := &Obligation{Name: "background#COVER#axioms." + n, Kind: "COVER", Func: "background", Cover: true, Goal: "false"}
			jobs = append(jobs, &job{o: ao, g: newGen(w), fixed: qs[n]})
		}
	}
	if o.only != "" {
		var js []*job
		for _, j := range jobs {
			if strings.Contains(j.o.Name, o.only) {
				js = append(js, j)
			}
		}
		jobs = js
	}
	w.discharge(jobs, o.timeout, o.workers, o.nsolvers, o.keep)
	return report(o, w, results, jobs, start)
}

func collectLemmaRefs(fc *FuncContract, set map[string]bool) {
	for _, c := range fc.Requires {
		collectStmtLemmas(c.By, set)
	}
	for _, c := range fc.Ensures {
		collectStmtLemmas(c.By, set)
	}
	for _, l := range fc.Loops {
		for _, c := range l.Invariants {
			collectStmtLemmas(c.By, set)
		}
		for _, c := range l.Decreases {
			collectStmtLemmas(c.By, set)
		}
	}
}

func collectStmtLemmas(ss []CStmt, set map[string]bool) {
	for _, s := range ss {
		switch n := s.(type) {
		case *SCall:
			set[n.Fun] = true
		case *SIf:
			collectStmtLemmas(n.Then, set)
			collectStmtLemmas(n.Else, set)
		case *SForall:
			collectStmtLemmas(n.Body, set)
		}
	}
}

func (w *World) verifyExample(pi *PkgInfo, ex *Example) (res *FuncResult) {
	g := newGen(w)
	pc := &pureCtx{w: w, g: g, pkg: pi, name: "example:" + ex.Name}
	res = &FuncResult{Func: pc.name, Gen: g}
	defer func() {
		res.Obls = pc.obls
		if r := recover(); r != nil {
			switch e := r.(type) {
			case unsupported:
				res.Err = "unsupported: " + e.msg
			case cerr:
				res.Err = "contract error: " + e.msg
			default:
				panic(r)
			}
		}
	}()
	var side []string
	env := &Env{w: w, pkg: pi, vars: map[string]Val{}, bound: map[string]bool{}, side: &side}
	hy := w.ghostHyps(env, ex.By, nil, nil)
	goal := env.trB(ex.E)
	pc.emit(append(hy, side...), "EXAMPLE", "1", goal, ex.Src)
	return
}

func reportLoadFailure(o *Options, err error, start time.Time) int {
	name := "LOAD"
	path := ""
	if o.replayDir != "" {
		os.MkdirAll(o.replayDir, 0o755)
		path = filepath.Join(o.replayDir, "LOAD.json")
		b, _ := json.MarshalIndent(map[string]interface{}{"obligation": name, "error": err.Error(),
			"note": "the repository and its contract files could not be loaded together: a function or loop named by a contract no longer exists, or the code does not type-check"}, "", " ")
		os.WriteFile(path, b, 0o644)
	}
	ev := Evidence{PropertyID: o.prop, Tier: o.tier, Seed: seed(), Level: "proof", WallS: time.Since(start).Seconds(), Violations: 1,
		Coverage: map[string]interface{}{"obligations": 1, "discharged": 0, "checker_cmd": strings.Join(os.Args, " "), "trusted_base": []string{},
			"explanation": "load failure: " + err.Error(), "evaluations": 1, "distinct_nontrivial": 0},
		Assumptions: modellingAssumptions}
	writeEvidence(o, &ev)
	fmt.Printf("VIOLATION property=%s replay=%s no-failing-input-found\n", o.prop, path)
	return 1
}

func seed() int {
	s, _ := strconv.Atoi(os.Getenv("VERIF_SEED"))
	return s
}

func writeEvidence(o *Options, ev *Evidence) {
	if o.evidence == "" {
		return
	}
	os.MkdirAll(filepath.Dir(o.evidence), 0o755)
	b, _ := json.MarshalIndent(ev, "", " ")
	os.WriteFile(o.evidence, b, 0o644)
}

type group struct {
	name      string
	kind      string
	fn        string
	label     string
	src       string
	instances int
	failed    []*Obligation
	solvers   map[string]int
	time      float64
}

func report(o *Options, w *World, results []*FuncResult, jobs []*job, start time.Time) int {
	groups := map[string]*group{}
	var order []string
	coverBad := []*Obligation{}
	type coverGroup struct {
		first *Obligation
		ok    int
	}
	coverGroups := map[string]*coverGroup{}
	covers := 0
	bySolver := map[string]int{}
	retried := 0
	retriedNames := map[string]bool{} // the brittle ones: decided only when asked again, alone, with three times the time
	var solverTime float64
	for _, j := range jobs {
		ob := j.o
		solverTime += ob.Time
		if ob.Cover {
			covers++
			cg, ok := coverGroups[ob.Name]
			if !ok {
				cg = &coverGroup{first: ob}
				coverGroups[ob.Name] = cg
			}
			if ob.Status != "cover-vacuous" {
				cg.ok++
			}
			continue
		}
		g, ok := groups[ob.Name]
		if !ok {
			g = &group{name: ob.Name, kind: ob.Kind, fn: ob.Func, label: ob.Label, src: ob.Src, solvers: map[string]int{}}
			groups[ob.Name] = g
			order = append(order, ob.Name)
		}
		g.instances++
		g.time += ob.Time
		if ob.Retried {
			retried++
			retriedNames[ob.Name+" ("+ob.Solver+")"] = true
		}
		if ob.Status != "discharged" {
			g.failed = append(g.failed, ob)
		} else {
			g.solvers[ob.Solver]++
			bySolver[ob.Solver]++
		}
	}
	var cnames []string
	for n := range coverGroups {
		cnames = append(cnames, n)
	}
	sort.Strings(cnames)
	for _, n := range cnames {
		if cg := coverGroups[n]; cg.ok == 0 && !strings.HasSuffix(n, "#return") {
			coverBad = append(coverBad, cg.first)
		}
	}
	// translation errors
	type terr struct{ fn, label, msg string }
	var terrs []terr
	for _, r := range results {
		if r.Err != "" {
			terrs = append(terrs, terr{r.Func, r.Label, r.Err})
		}
	}
	known := loadKnown(o.known)
	discharged := 0
	var failedGroups []*group
	for _, n := range order {
		g := groups[n]
		if len(g.failed) == 0 {
			discharged++
		} else {
			failedGroups = append(failedGroups, g)
		}
	}
	violations := 0
	knownHits := 0
	exit := 0
	writeReplay := func(name string, content map[string]interface{}) string {
		if o.replayDir == "" {
			return ""
		}
		os.MkdirAll(o.replayDir, 0o755)
		p := filepath.Join(o.replayDir, sanitize(name)+".json")
		b, _ := json.MarshalIndent(content, "", " ")
		os.WriteFile(p, b, 0o644)
		return p
	}
	for _, g := range failedGroups {
		f := g.failed[0]
		if kf := matchKnown(known, o.prop, g.name); kf != nil {
			fmt.Printf("KNOWN-FINDING: property=%s %s: %s\n", o.prop, g.name, kf.What)
			knownHits++
			continue
		}
		violations++
		var inputs interface{}
		var replayed map[string]interface{}
		tail := " no-failing-input-found"
		for _, cand := range g.failed {
			if cand.Reason != "sat" || cand.fn == nil {
				continue
			}
			vals := modelValues(cand)
			if len(vals) == 0 {
				continue
			}
			f = cand
			inputs = vals
			if ri := w.replayInfoFor(cand.pi, cand.fn, cand.Inputs); ri != nil {
				replayed = w.runReplay(o.repo, ri, vals, cand.pi)
				if ran, _ := replayed["ran"].(bool); ran {
					tail = ""
				}
			} else {
				replayed = map[string]interface{}{"ran": false, "why": "the function has a pointer receiver or no callable form: its inputs live in the heap and are not rebuilt from the model"}
			}
			break
		}
		var qpath string
		if o.replayDir != "" {
			os.MkdirAll(o.replayDir, 0o755)
			qpath = filepath.Join(o.replayDir, sanitize(g.name)+".smt2")
			os.WriteFile(qpath, []byte(f.Query), 0o644)
		}
		p := writeReplay(g.name, map[string]interface{}{
			"property": o.prop, "obligation": g.name, "kind": g.kind, "function": g.fn, "behaviour": g.label,
			"clause": g.src, "path": f.Path, "reason": f.Reason, "solver_output": f.Model, "model_values": inputs, "replay_on_real_code": replayed,
			"failed_instances": len(g.failed), "instances": g.instances, "query": qpath,
		})
		fmt.Printf("VIOLATION property=%s replay=%s%s\n", o.prop, p, tail)
		fmt.Printf("  obligation %s failed (%s): %s\n", g.name, f.Reason, g.src)
		exit = 1
	}
	for _, t := range terrs {
		violations++
		name := fmt.Sprintf("%s[%s]#TRANSLATE", t.fn, t.label)
		p := writeReplay(name, map[string]interface{}{"property": o.prop, "obligation": name, "error": t.msg})
		fmt.Printf("VIOLATION property=%s replay=%s no-failing-input-found\n", o.prop, p)
		fmt.Printf("  %s: %s\n", name, t.msg)
		exit = 1
	}
	for _, c := range coverBad {
		violations++
		p := writeReplay(c.Name, map[string]interface{}{"property": o.prop, "obligation": c.Name, "error": c.Reason, "path": c.Path})
		fmt.Printf("VIOLATION property=%s replay=%s no-failing-input-found\n", o.prop, p)
		fmt.Printf("  vacuity guard %s: %s\n", c.Name, c.Reason)
		exit = 1
	}
	nObl := len(order)
	if nObl == 0 && len(terrs) == 0 {
		violations++
		fmt.Printf("VIOLATION property=%s replay= no-failing-input-found\n", o.prop)
		fmt.Println("  vacuity guard: no obligations were generated")
		exit = 1
	}
	// evidence
	var samples []interface{}
	for i, n := range order {
		if i%maxInt(1, len(order)/12) == 0 && len(samples) < 14 {
			g := groups[n]
			samples = append(samples, map[string]interface{}{"obligation": g.name, "kind": g.kind, "clause": g.src, "instances": g.instances,
				"status": map[bool]string{true: "discharged", false: "failed"}[len(g.failed) == 0], "solvers": g.solvers, "solver_s": round3(g.time)})
		}
	}
	trusted := map[string]bool{}
	inlined := map[string]bool{}
	havocked := map[string]bool{}
	notes := map[string]bool{}
	var funcs []string
	seenF := map[string]bool{}
	for _, r := range results {
		for _, u := range r.Used {
			trusted[u] = true
		}
		for _, u := range r.Inlined {
			inlined[u] = true
		}
		for _, u := range r.Havocked {
			havocked[u] = true
		}
		for _, u := range r.Notes {
			notes[u] = true
		}
		k := r.Func
		if r.Label != "" {
			k += "[" + r.Label + "]"
		}
		if !seenF[k] {
			seenF[k] = true
			funcs = append(funcs, k)
		}
	}
	kinds := map[string]int{}
	for _, n := range order {
		kinds[groups[n].kind]++
	}
	instances := 0
	for _, n := range order {
		instances += groups[n].instances
	}
	assumptions := append([]string(nil), modellingAssumptions...)
	for _, t := range keys(trusted) {
		assumptions = append(assumptions, "trusted contract (assumed, not verified): "+t)
	}
	for _, t := range keys(havocked) {
		assumptions = append(assumptions, "callee without contract treated as arbitrary (havoc): "+t)
	}
	for _, t := range keys(notes) {
		assumptions = append(assumptions, t)
	}
	for _, t := range keys(w.lockNotes) {
		assumptions = append(assumptions, t)
	}
	cov := map[string]interface{}{
		"obligations": nObl, "discharged": discharged, "obligation_instances": instances,
		"checker_cmd": strings.Join(os.Args, " "),
		"trusted_base": append([]string{"golang.org/x/tools/go/ssa v0.29.0", "govc SSA->SMT translation", "z3 5.1.0 (z3-new)", "cvc5 1.0", "z3 4.8.12 (thorough tier and second-chance pass)"}, keys(trusted)...),
		"functions_under_contract": funcs, "inlined_callees": keys(inlined), "by_backend": bySolver, "by_kind": kinds,
		"solver_s": round3(solverTime), "cover_checks": covers, "cover_vacuous": len(coverBad), "samples": samples,
		"known_findings_hit": knownHits, "solver_timeout_s": o.timeout, "decided_in_second_pass": retried, "second_pass_obligations": keys(retriedNames),
		"callees_verified_by_closure": w.closure,
		"exported_functions_not_under_contract": w.uncovered,
	}
	level := o.levelNote
	if level == "" {
		level = "proof"
	}
	if o.extra != "" {
		if b, err := os.ReadFile(o.extra); err == nil {
			var ex map[string]interface{}
			if json.Unmarshal(b, &ex) == nil {
				cov["bounded"] = ex
				if v, ok := ex["violations"].(float64); ok && v > 0 {
					violations += int(v)
				}
				if level == "exploration" {
					// the deciding part of this property is the bounded stand-in: its exploration figures are the
					// coverage, the discharged obligations are listed beside them
					for _, k := range []string{"evaluations", "distinct_nontrivial", "rule", "exhaustive", "bound"} {
						if v, ok := ex[k]; ok {
							cov[k] = v
						}
					}
					if f, ok := cov["evaluations"].(float64); ok {
						cov["evaluations"] = int(f)
					}
					if f, ok := cov["distinct_nontrivial"].(float64); ok {
						cov["distinct_nontrivial"] = int(f)
					}
					if bs, ok := ex["samples"].([]interface{}); ok && len(bs) > 0 {
						cov["obligation_samples"] = cov["samples"]
						cov["samples"] = bs
					}
				}
			}
		}
	}
	ev := Evidence{PropertyID: o.prop, Tier: o.tier, Seed: seed(), Level: level, Coverage: cov, Assumptions: assumptions,
		WallS: round3(time.Since(start).Seconds()), Violations: violations}
	writeEvidence(o, &ev)
	fmt.Printf("govc: property=%s tier=%s obligations=%d discharged=%d instances=%d functions=%d wall=%.1fs solver=%.1fs\n",
		o.prop, o.tier, nObl, discharged, instances, len(funcs), time.Since(start).Seconds(), solverTime)
	if o.names {
		for _, n := range order {
			g := groups[n]
			fmt.Printf("  %-70s inst=%-3d failed=%d solvers=%v  %s\n", g.name, g.instances, len(g.failed), g.solvers, g.src)
		}
	}
	if o.verbose {
		var gs []*group
		for _, n := range order {
			gs = append(gs, groups[n])
		}
		sort.Slice(gs, func(i, j int) bool { return gs[i].time > gs[j].time })
		for i, g := range gs {
			if i < 12 {
				fmt.Printf("  slow: %-60s instances=%d solver_s=%.2f\n", g.name, g.instances, g.time)
			}
		}
		for _, g := range failedGroups {
			fmt.Printf("FAILED %s (%d/%d instances): %s\n", g.name, len(g.failed), g.instances, g.src)
			for _, f := range g.failed {
				fmt.Printf("   path: %s\n   reason: %s\n", f.Path, f.Reason)
			}
		}
	}
	return exit
}

func maxInt(a, b int) int {
	if a > b {
		return a
	}
	return b
}

func round3(f float64) float64 { return float64(int(f*1000+0.5)) / 1000 }

func loadKnown(path string) []KnownFinding {
	if path == "" {
		return nil
	}
	b, err := os.ReadFile(path)
	if err != nil {
		return nil
	}
	var out struct {
		Findings []KnownFinding `json:"findings"`
	}
	if json.Unmarshal(b, &out) != nil {
		return nil
	}
	return out.Findings
}

func matchKnown(ks []KnownFinding, prop, obl string) *KnownFinding {
	for i := range ks {
		if ks[i].Status == "fixed" {
			continue
		}
		if ks[i].Property == prop && ks[i].Obligation == obl {
			return &ks[i]
		}
	}
	return nil
}

// decodeModel extracts concrete inputs from a sat answer's get-value output.
func decodeModel(o *Obligation) map[string]interface{} {
	if o.Reason != "sat" {
		return nil
	}
	txt := o.Model
	i := strings.Index(txt, "\n")
	if i < 0 {
		return nil
	}
	body := txt[i+1:]
	vals := parseGetValue(body)
	if len(vals) == 0 {
		return nil
	}
	out := map[string]interface{}{}
	for name, term := range o.Inputs {
		if v, ok := vals[term]; ok {
			out[name] = v
			continue
		}
		if l, ok := vals[app("len", term)]; ok {
			n, err := strconv.Atoi(l)
			if err != nil || n < 0 || n > 12 {
				out[name] = map[string]interface{}{"len": l, "note": "string longer than the 12 bytes requested from the model"}
				continue
			}
			bs := make([]byte, n)
			for k := 0; k < n; k++ {
				c, _ := strconv.Atoi(vals[app("at", term, fmt.Sprint(k))])
				bs[k] = byte(c)
			}
			out[name] = map[string]interface{}{"string": string(bs), "quoted": strconv.Quote(string(bs))}
		}
	}
	if len(out) == 0 {
		return nil
	}
	return out
}

// parseGetValue parses "((t1 v1) (t2 v2) ...)" into a map from term text to value text.
func parseGetValue(s string) map[string]string {
	out := map[string]string{}
	s = strings.TrimSpace(s)
	if !strings.HasPrefix(s, "(") {
		return out
	}
	// strip outer parens
	d := 0
	end := -1
	for i := 0; i < len(s); i++ {
		if s[i] == '(' {
			d++
		} else if s[i] == ')' {
			d--
			if d == 0 {
				end = i
				break
			}
		}
	}
	if end < 0 {
		return out
	}
	inner := s[1:end]
	for _, pair := range splitArgs(inner) {
		if len(pair) < 2 || pair[0] != '(' {
			continue
		}
		parts := splitArgs(pair[1 : len(pair)-1])
		if len(parts) == 2 {
			v := parts[1]
			if strings.HasPrefix(v, "(- ") {
				v = "-" + strings.TrimSuffix(v[3:], ")")
			}
			out[parts[0]] = v
		}
	}
	return out
}

func modelValues(o *Obligation) map[string]string {
	if o.Reason != "sat" {
		return nil
	}
	i := strings.Index(o.Model, "\n")
	if i < 0 {
		return nil
	}
	return parseGetValue(o.Model[i+1:])
}

// typeInvTargets: the methods of the named type that have no contract of their own, each with the synthesized contract
// "requires inv(receiver) / ensures inv(receiver) / modifies *". Methods are found in the package as it is now, so a
// method added later is under the invariant without anybody listing it. A method with a value receiver is verified
// against "modifies nothing" instead (it works on a copy).
func (w *World) typeInvTargets(pi *PkgInfo, typ string) ([]target, error) {
	var ti *TypeInv
	for _, t := range pi.contract.TypeInvs {
		if t.Type == typ {
			ti = t
		}
	}
	if ti == nil {
		return nil, fmt.Errorf("unknown typeinv %s", typ)
	}
	var names []string
	for n := range pi.funcs {
		names = append(names, n)
	}
	sort.Strings(names)
	var out []target
	for _, n := range names {
		fn := pi.funcs[n]
		if fn.Synthetic != "" || fn.Blocks == nil || fn.Signature.Recv() == nil || len(fn.Params) == 0 {
			continue
		}
		rt := fn.Signature.Recv().Type()
		ptr := false
		if p, ok := rt.(*types.Pointer); ok {
			rt, ptr = p.Elem(), true
		}
		nt, ok := rt.(*types.Named)
		if !ok || nt.Obj().Name() != typ || nt.Obj().Pkg() != pi.types {
			continue
		}
		if w.contractFor(fn) != nil {
			continue // its own contract speaks for it
		}
		fc := &FuncContract{Name: n, ModAny: true, HasMod: true, Line: ti.Line, Loops: map[int]*LoopContract{}}
		if ptr {
			e := &CLet{ti.Binder, &CIdent{fn.Params[0].Name()}, ti.E}
			src := "typeinv " + typ + ": " + ti.Src
			fc.Requires = []Clause{{Name: "typeinv", E: e, Src: src}}
			fc.Ensures = []Clause{{Name: "typeinv", E: e, Src: src}}
		} else {
			// a copy of the object: it can reach the original's state only through the pointers it holds, so "writes
			// nothing" is what keeps every object's invariant (FRAME obligations); anything else needs its own contract
			fc.ModAny = false
		}
		out = append(out, target{pi, fn, fc, ""})
	}
	return out, nil
}
