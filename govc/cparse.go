package main

// Contract language: lexer, AST and parser.
//
// Contracts live in comment-only files /repo/<pkg>/zz_verif_contracts.go
// guarded by //go:build verif, inside /*@ ... @*/ blocks.

import (
	"fmt"
	"strconv"
	"strings"
)

// ---------- AST ----------

type CExpr interface{}

type (
	CIdent struct{ Name string }
	CInt   struct{ V string }
	CBool  struct{ V bool }
	CStr   struct{ V string }
	CNil   struct{}
	CUnary struct {
		Op string
		X  CExpr
	}
	CBinary struct {
		Op   string
		X, Y CExpr
	}
	CCond struct{ C, A, B CExpr }
	CCall struct {
		Fun  string
		Args []CExpr
	}
	CIndex struct{ X, I CExpr }
	CSlice struct{ X, Lo, Hi CExpr }
	CField struct {
		X    CExpr
		Name string
	}
	CQuant struct {
		Forall bool
		Vars   []CParam
		Body   CExpr
	}
	CLet struct {
		Name string
		Val  CExpr
		Body CExpr
	}
	// CApply: body of a spec function with its parameters bound simultaneously to the arguments
	CApply struct {
		Params []string
		Args   []CExpr
		Body   CExpr
		Heap   bool // the function reads the heap: the body is evaluated in the caller's heap
	}
)

type CParam struct {
	Name string
	Type string // textual Go-like type
}

type Clause struct {
	Split CExpr  // case split for a leading forall: proved separately under Split and under !Split
	Label string // behaviour label, "" = safety
	Name  string // optional explicit name
	E     CExpr
	By    []CStmt // lemma applications available when this clause is proved
	Src   string
}

type CStmt interface{}

type (
	SIf struct {
		Cond CExpr
		Then []CStmt
		Else []CStmt
	}
	SCall struct { // lemma application
		Fun  string
		Args []CExpr
	}
	SAssert struct {
		E   CExpr
		Src string
	}
	SLet struct { // ghost local: let x = e
		Name string
		E    CExpr
	}
	SForall struct { // forall-introduction over lemma applications
		Vars []CParam
		Body []CStmt
	}
)

type LoopContract struct {
	Ordinal    int
	Invariants []Clause
	Decreases  []Clause // at most one per label
	Modifies   []CExpr
}

type FuncContract struct {
	Name      string // SSA-style relative name: verrevcmp, Slice.Len, (*Version).Empty
	Requires  []Clause
	Ensures   []Clause
	Decreases []Clause
	Modifies  []CExpr
	ModAny    bool // "modifies *": anything reachable
	HasMod    bool
	Loops     map[int]*LoopContract
	Trusted   bool // contract assumed, body not verified (stdlib / out of reach)
	Pure      bool // callee has no side effects and result is a function of args (for trusted)
	Inline    bool
	Line      int
	Uses      []string // auto lemmas to include
	NoSafety  bool
}

type SpecFunc struct {
	Heap      bool // reads the heap: the heap components become implicit parameters
	Line      int
	Name      string
	Params    []CParam
	Result    string
	Body      CExpr // nil => uninterpreted
	Decreases CExpr
	Rec       bool
	Axioms    []Clause
}

type Lemma struct {
	Heap      bool // reads the heap (the heap components are implicit parameters)
	Name      string
	Params    []CParam
	Requires  []Clause
	Ensures   []Clause
	Decreases CExpr
	Body      []CStmt
	Auto      bool
	Trigger   []CExpr
	Axiom     bool // assumed, not proved (only allowed in stdlib specs)
	Line      int
}

type PropertyDecl struct {
	ID    string
	Items []PropItem
}

type PropItem struct {
	Kind  string // func | lemma | example
	Name  string
	Label string // optional behaviour label
}

// TypeInv: an object invariant of a named type. Every method of the type (pointer receiver) that has no contract of
// its own is verified against "requires inv / ensures inv" - including methods added after the contract was written.
type TypeInv struct {
	Type   string
	Binder string
	E      CExpr
	Src    string
	Line   int
}

type Example struct {
	Name string
	E    CExpr
	Src  string
	By   []CStmt
}

// GhostField: a specification-only field of a (library) struct type, e.g. the unread input of a bufio.Reader
type GhostField struct {
	Owner string // type text, e.g. bufio.Reader
	Name  string
	Type  string
}

type ContractFile struct {
	Ghosts   []*GhostField
	Path     string
	Pkg      string
	Funcs    []*FuncContract
	Specs    []*SpecFunc
	Lemmas   []*Lemma
	Props    []*PropertyDecl
	Examples []*Example
	Layouts  []*Layout
	TypeInvs []*TypeInv
	GhostVars []*GhostVar
}

// GhostVar: `ghost var name type` - specification-only global state (e.g. the effect clock of the file system model)
type GhostVar struct {
	Name string
	Type string
}

// ---------- lexer ----------

type tok struct {
	kind string // id, int, str, op, eof
	s    string
	line int
}

type lexer struct {
	src  string
	pos  int
	line int
	toks []tok
}

var ops3 = []string{"<==>", "==>", "...", "::", "==", "!=", "<=", ">=", "&&", "||", "++", "<<", ">>", ":="}

func lex(src string, line0 int) ([]tok, error) {
	lx := &lexer{src: src, line: line0}
	for {
		lx.skipWS()
		if lx.pos >= len(lx.src) {
			lx.toks = append(lx.toks, tok{"eof", "", lx.line})
			return lx.toks, nil
		}
		c := lx.src[lx.pos]
		switch {
		case isIdStart(c):
			st := lx.pos
			for lx.pos < len(lx.src) && (isIdStart(lx.src[lx.pos]) || isDig(lx.src[lx.pos]) || lx.src[lx.pos] == '$') {
				lx.pos++
			}
			// name#k selects the k-th declaration of a shadowed local
			if lx.pos+1 < len(lx.src) && lx.src[lx.pos] == '#' && isDig(lx.src[lx.pos+1]) {
				lx.pos++
				for lx.pos < len(lx.src) && isDig(lx.src[lx.pos]) {
					lx.pos++
				}
			}
			lx.toks = append(lx.toks, tok{"id", lx.src[st:lx.pos], lx.line})
		case isDig(c):
			st := lx.pos
			if c == '0' && lx.pos+1 < len(lx.src) && (lx.src[lx.pos+1] == 'x' || lx.src[lx.pos+1] == 'X') {
				lx.pos += 2
				for lx.pos < len(lx.src) && isHex(lx.src[lx.pos]) {
					lx.pos++
				}
				v, err := strconv.ParseInt(lx.src[st+2:lx.pos], 16, 64)
				if err != nil {
					return nil, fmt.Errorf("line %d: bad hex literal", lx.line)
				}
				lx.toks = append(lx.toks, tok{"int", strconv.FormatInt(v, 10), lx.line})
			} else {
				for lx.pos < len(lx.src) && isDig(lx.src[lx.pos]) {
					lx.pos++
				}
				lx.toks = append(lx.toks, tok{"int", lx.src[st:lx.pos], lx.line})
			}
		case c == '"':
			st := lx.pos
			lx.pos++
			for lx.pos < len(lx.src) && lx.src[lx.pos] != '"' {
				if lx.src[lx.pos] == '\\' {
					lx.pos++
				}
				lx.pos++
			}
			lx.pos++
			if lx.pos > len(lx.src) {
				return nil, fmt.Errorf("line %d: unterminated string", lx.line)
			}
			s, err := strconv.Unquote(lx.src[st:lx.pos])
			if err != nil {
				return nil, fmt.Errorf("line %d: bad string literal %s", lx.line, lx.src[st:lx.pos])
			}
			lx.toks = append(lx.toks, tok{"str", s, lx.line})
		case c == '\'':
			st := lx.pos
			lx.pos++
			for lx.pos < len(lx.src) && lx.src[lx.pos] != '\'' {
				if lx.src[lx.pos] == '\\' {
					lx.pos++
				}
				lx.pos++
			}
			lx.pos++
			if lx.pos > len(lx.src) {
				return nil, fmt.Errorf("line %d: unterminated char", lx.line)
			}
			r, _, _, err := strconv.UnquoteChar(lx.src[st+1:lx.pos-1], '\'')
			if err != nil {
				return nil, fmt.Errorf("line %d: bad char literal %s", lx.line, lx.src[st:lx.pos])
			}
			lx.toks = append(lx.toks, tok{"int", strconv.Itoa(int(r)), lx.line})
		default:
			matched := false
			for _, o := range ops3 {
				if strings.HasPrefix(lx.src[lx.pos:], o) {
					lx.toks = append(lx.toks, tok{"op", o, lx.line})
					lx.pos += len(o)
					matched = true
					break
				}
			}
			if !matched {
				lx.toks = append(lx.toks, tok{"op", string(c), lx.line})
				lx.pos++
			}
		}
	}
}

func isIdStart(c byte) bool {
	return c == '_' || (c >= 'a' && c <= 'z') || (c >= 'A' && c <= 'Z')
}
func isDig(c byte) bool { return c >= '0' && c <= '9' }
func isHex(c byte) bool {
	return isDig(c) || (c >= 'a' && c <= 'f') || (c >= 'A' && c <= 'F')
}

func (lx *lexer) skipWS() {
	for lx.pos < len(lx.src) {
		c := lx.src[lx.pos]
		if c == '\n' {
			lx.line++
			lx.pos++
		} else if c == ' ' || c == '\t' || c == '\r' {
			lx.pos++
		} else if c == '/' && lx.pos+1 < len(lx.src) && lx.src[lx.pos+1] == '/' {
			for lx.pos < len(lx.src) && lx.src[lx.pos] != '\n' {
				lx.pos++
			}
		} else {
			return
		}
	}
}

// ---------- parser ----------

type parser struct {
	toks []tok
	p    int
	file string
	src  []string
}

func (p *parser) peek() tok { return p.toks[p.p] }
func (p *parser) next() tok {
	t := p.toks[p.p]
	if p.p < len(p.toks)-1 {
		p.p++
	}
	return t
}
func (p *parser) isOp(s string) bool {
	t := p.peek()
	return t.kind == "op" && t.s == s
}
func (p *parser) isId(s string) bool {
	t := p.peek()
	return t.kind == "id" && t.s == s
}
func (p *parser) accept(s string) bool {
	if p.isOp(s) {
		p.next()
		return true
	}
	return false
}
func (p *parser) acceptId(s string) bool {
	if p.isId(s) {
		p.next()
		return true
	}
	return false
}
func (p *parser) fail(format string, a ...interface{}) {
	panic(fmt.Errorf("%s:%d: %s", p.file, p.peek().line, fmt.Sprintf(format, a...)))
}
func (p *parser) expect(s string) {
	if !p.accept(s) {
		p.fail("expected %q, got %q", s, p.peek().s)
	}
}
func (p *parser) ident() string {
	t := p.next()
	if t.kind != "id" {
		p.p--
		p.fail("expected identifier, got %q", t.s)
	}
	return t.s
}

var declKeywords = map[string]bool{
	"pure": true, "lemma": true, "auto": true, "func": true, "property": true,
	"trusted": true, "example": true, "axiom": true, "uninterpreted": true, "ghost": true, "layout": true, "typeinv": true,
}
var clauseKeywords = map[string]bool{
	"requires": true, "ensures": true, "decreases": true, "modifies": true, "loop": true,
	"invariant": true, "uses": true, "inline": true, "nosafety": true, "trigger": true,
}

func parseContracts(file, pkg, src string, line0 int, cf *ContractFile) (err error) {
	defer func() {
		if r := recover(); r != nil {
			if e, ok := r.(error); ok {
				err = e
				return
			}
			panic(r)
		}
	}()
	toks, lerr := lex(src, line0)
	if lerr != nil {
		return fmt.Errorf("%s: %v", file, lerr)
	}
	p := &parser{toks: toks, file: file}
	for p.peek().kind != "eof" {
		p.decl(cf)
	}
	return nil
}

func (p *parser) decl(cf *ContractFile) {
	t := p.peek()
	if t.kind != "id" {
		p.fail("expected declaration, got %q", t.s)
	}
	switch t.s {
	case "pure", "uninterpreted":
		unint := t.s == "uninterpreted"
		p.next()
		if !p.acceptId("func") {
			p.fail("expected func")
		}
		sf := &SpecFunc{Name: p.ident(), Line: t.line}
		sf.Params = p.params()
		sf.Result = p.typeText()
		if p.acceptId("reads") {
			if !p.acceptId("heap") {
				p.fail("expected 'reads heap'")
			}
			sf.Heap = true
		}
		for p.isId("decreases") || p.isId("axiom") {
			if p.acceptId("decreases") {
				sf.Decreases = p.expr()
				sf.Rec = true
			} else {
				p.next()
				sf.Axioms = append(sf.Axioms, p.clause())
			}
		}
		if !unint {
			p.expect("{")
			sf.Body = p.expr()
			p.expect("}")
		}
		cf.Specs = append(cf.Specs, sf)
	case "auto", "lemma", "axiom":
		lm := &Lemma{Line: t.line}
		if p.acceptId("auto") {
			lm.Auto = true
		}
		if p.acceptId("axiom") {
			lm.Axiom = true
		} else if !p.acceptId("lemma") {
			p.fail("expected lemma")
		}
		lm.Name = p.ident()
		lm.Params = p.params()
		if p.acceptId("reads") {
			if !p.acceptId("heap") {
				p.fail("expected 'reads heap'")
			}
			lm.Heap = true
		}
		for {
			if p.acceptId("requires") {
				lm.Requires = append(lm.Requires, p.clause())
			} else if p.acceptId("ensures") {
				lm.Ensures = append(lm.Ensures, p.clause())
			} else if p.acceptId("decreases") {
				lm.Decreases = p.expr()
			} else if p.acceptId("trigger") {
				lm.Trigger = append(lm.Trigger, p.expr())
			} else {
				break
			}
		}
		if p.isOp("{") {
			lm.Body = p.block()
		}
		cf.Lemmas = append(cf.Lemmas, lm)
	case "trusted", "func":
		fc := &FuncContract{Loops: map[int]*LoopContract{}, Line: t.line}
		if p.acceptId("trusted") {
			fc.Trusted = true
			if p.acceptId("pure") {
				fc.Pure = true
			}
		}
		if !p.acceptId("func") {
			p.fail("expected func")
		}
		fc.Name = p.funcName()
		var cur *LoopContract
		for {
			if p.acceptId("requires") {
				fc.Requires = append(fc.Requires, p.clause())
			} else if p.acceptId("ensures") {
				fc.Ensures = append(fc.Ensures, p.clause())
			} else if p.acceptId("inline") {
				fc.Inline = true
			} else if p.acceptId("nosafety") {
				fc.NoSafety = true
			} else if p.acceptId("uses") {
				for {
					fc.Uses = append(fc.Uses, p.ident())
					if !p.accept(",") {
						break
					}
				}
			} else if p.acceptId("modifies") {
				var tgt *[]CExpr
				if cur != nil {
					tgt = &cur.Modifies
				} else {
					tgt = &fc.Modifies
					fc.HasMod = true
				}
				if p.acceptId("nothing") {
					// empty
				} else if p.isOp("*") && !(p.toks[p.p+1].kind == "id" && !clauseKeywords[p.toks[p.p+1].s] && !declKeywords[p.toks[p.p+1].s]) && !(p.toks[p.p+1].kind == "op" && p.toks[p.p+1].s == "(") {
					p.next()
					fc.ModAny = true
				} else {
					for {
						*tgt = append(*tgt, p.expr())
						if !p.accept(",") {
							break
						}
					}
				}
			} else if p.acceptId("decreases") {
				c := p.clause()
				if cur != nil {
					cur.Decreases = append(cur.Decreases, c)
				} else {
					fc.Decreases = append(fc.Decreases, c)
				}
			} else if p.acceptId("loop") {
				n := p.next()
				if n.kind != "int" {
					p.fail("expected loop ordinal")
				}
				ord, _ := strconv.Atoi(n.s)
				p.accept(":")
				cur = &LoopContract{Ordinal: ord}
				fc.Loops[ord] = cur
			} else if p.acceptId("invariant") {
				if cur == nil {
					p.fail("invariant outside loop")
				}
				cur.Invariants = append(cur.Invariants, p.clause())
			} else {
				break
			}
		}
		cf.Funcs = append(cf.Funcs, fc)
	case "ghost":
		p.next()
		if p.acceptId("var") {
			gv := &GhostVar{Name: p.ident(), Type: p.typeText()}
			cf.GhostVars = append(cf.GhostVars, gv)
			return
		}
		if !p.acceptId("field") {
			p.fail("expected 'ghost field' or 'ghost var'")
		}
		owner := p.typeText()
		i := strings.LastIndex(owner, ".")
		if i < 0 {
			p.fail("ghost field: expected Type.name")
		}
		gf := &GhostField{Owner: owner[:i], Name: owner[i+1:], Type: p.typeText()}
		cf.Ghosts = append(cf.Ghosts, gf)
	case "property":
		p.next()
		pd := &PropertyDecl{ID: p.ident()}
		p.expect(":")
		for {
			it := PropItem{Kind: "func"}
			if p.acceptId("lemma") {
				it.Kind = "lemma"
			} else if p.acceptId("example") {
				it.Kind = "example"
			} else if p.acceptId("layout") {
				it.Kind = "layout"
			} else if p.acceptId("typeinv") {
				it.Kind = "typeinv"
			} else if p.acceptId("nosharedwrites") {
				it.Kind = "nosharedwrites"
			}
			if it.Kind == "func" {
				it.Name = p.funcName()
			} else if it.Kind == "nosharedwrites" {
				it.Name = "package"
			} else {
				it.Name = p.ident()
			}
			if p.accept("[") {
				it.Label = p.ident()
				p.expect("]")
			}
			pd.Items = append(pd.Items, it)
			if !p.accept(",") {
				break
			}
		}
		cf.Props = append(cf.Props, pd)
	case "layout":
		p.next()
		l := &Layout{Type: p.ident(), Line: t.line}
		for p.acceptId("field") {
			k := p.next()
			if k.kind != "str" {
				p.fail("layout: expected the field key as a string")
			}
			lf := LayoutField{Key: k.s, Shape: p.ident(), Line: k.line}
			if p.peek().kind == "id" && !declKeywords[p.peek().s] && p.peek().s != "field" {
				lf.Arg = p.ident()
			}
			l.Fields = append(l.Fields, lf)
		}
		cf.Layouts = append(cf.Layouts, l)
	case "typeinv":
		p.next()
		ti := &TypeInv{Type: p.ident(), Line: t.line}
		ti.Binder = p.ident()
		p.expect(":")
		st := p.p
		ti.E = p.expr()
		ti.Src = p.srcOf(st, p.p)
		cf.TypeInvs = append(cf.TypeInvs, ti)
	case "example":
		p.next()
		ex := &Example{Name: p.ident()}
		p.accept(":")
		st := p.p
		ex.E = p.expr()
		ex.Src = p.srcOf(st, p.p)
		if p.acceptId("by") {
			ex.By = p.block()
		}
		cf.Examples = append(cf.Examples, ex)
	default:
		p.fail("unknown declaration %q", t.s)
	}
}

// funcName parses verrevcmp | Slice.Len | (*Version).Empty | pkg.Func | (*pkg.T).M
func (p *parser) funcName() string {
	if p.peek().kind == "str" {
		return p.next().s
	}
	if p.accept("(") {
		star := ""
		if p.accept("*") {
			star = "*"
		}
		n := p.ident()
		for p.accept(".") {
			n += "." + p.ident()
		}
		p.expect(")")
		p.expect(".")
		m := p.ident()
		return "(" + star + n + ")." + m
	}
	n := p.ident()
	for p.accept(".") {
		n += "." + p.ident()
	}
	for p.accept("$") {
		n += "$" + p.next().s
	}
	return n
}

func (p *parser) params() []CParam {
	var ps []CParam
	p.expect("(")
	for !p.isOp(")") {
		var names []string
		names = append(names, p.ident())
		for p.accept(",") {
			names = append(names, p.ident())
		}
		ty := p.typeText()
		for _, n := range names {
			ps = append(ps, CParam{n, ty})
		}
		if !p.accept(",") {
			break
		}
	}
	p.expect(")")
	return ps
}

// typeText parses a Go-like type and returns it as text.
func (p *parser) typeText() string {
	if p.accept("*") {
		return "*" + p.typeText()
	}
	if p.accept("[") {
		p.expect("]")
		return "[]" + p.typeText()
	}
	if p.isId("map") {
		p.next()
		p.expect("[")
		k := p.typeText()
		p.expect("]")
		return "map[" + k + "]" + p.typeText()
	}
	if p.isId("seq") || p.isId("set") {
		k := p.next().s
		p.expect("[")
		e := p.typeText()
		p.expect("]")
		return k + "[" + e + "]"
	}
	n := p.ident()
	for p.accept(".") {
		n += "." + p.ident()
	}
	return n
}

func (p *parser) srcOf(from, to int) string {
	var sb strings.Builder
	for i := from; i < to && i < len(p.toks); i++ {
		t := p.toks[i]
		if i > from {
			sb.WriteByte(' ')
		}
		if t.kind == "str" {
			sb.WriteString(strconv.Quote(t.s))
		} else {
			sb.WriteString(t.s)
		}
	}
	return sb.String()
}

func (p *parser) clause() Clause {
	var c Clause
	if p.isOp("[") {
		// behaviour label: [name]
		p.next()
		c.Label = p.ident()
		p.expect("]")
	}
	if p.peek().kind == "id" && p.p+1 < len(p.toks) && p.toks[p.p+1].kind == "op" && p.toks[p.p+1].s == ":" &&
		!(p.p+2 < len(p.toks) && p.toks[p.p+2].s == ":") {
		c.Name = p.ident()
		p.expect(":")
	}
	st := p.p
	c.E = p.expr()
	c.Src = p.srcOf(st, p.p)
	if p.acceptId("split") {
		c.Split = p.expr()
	}
	if p.acceptId("by") {
		c.By = p.block()
	}
	return c
}

func (p *parser) block() []CStmt {
	p.expect("{")
	var out []CStmt
	for !p.isOp("}") {
		out = append(out, p.stmt())
		p.accept(";")
	}
	p.expect("}")
	return out
}

func (p *parser) stmt() CStmt {
	if p.acceptId("if") {
		c := p.expr()
		th := p.block()
		var el []CStmt
		if p.acceptId("else") {
			if p.isId("if") {
				el = []CStmt{p.stmt()}
			} else {
				el = p.block()
			}
		}
		return &SIf{c, th, el}
	}
	if p.acceptId("forall") {
		var vars []CParam
		for {
			n := p.ident()
			ty := "int"
			if !p.isOp("{") && !p.isOp(",") {
				ty = p.typeText()
			}
			vars = append(vars, CParam{n, ty})
			if !p.accept(",") {
				break
			}
		}
		return &SForall{vars, p.block()}
	}
	if p.acceptId("assert") {
		st := p.p
		e := p.expr()
		return &SAssert{e, p.srcOf(st, p.p)}
	}
	if p.acceptId("let") {
		n := p.ident()
		if !p.accept(":=") {
			p.expect("=")
		}
		return &SLet{n, p.expr()}
	}
	n := p.ident()
	p.expect("(")
	var args []CExpr
	for !p.isOp(")") {
		args = append(args, p.expr())
		if !p.accept(",") {
			break
		}
	}
	p.expect(")")
	return &SCall{n, args}
}

// precedence climbing. lowest: <==>, ==>, ?:, ||, &&, compare, + - ++, * / %, unary, postfix
func (p *parser) expr() CExpr {
	if p.isId("forall") || p.isId("exists") {
		fa := p.next().s == "forall"
		var vars []CParam
		for {
			n := p.ident()
			ty := "int"
			if !p.isOp("::") && !p.isOp(",") {
				ty = p.typeText()
			}
			vars = append(vars, CParam{n, ty})
			if !p.accept(",") {
				break
			}
		}
		p.expect("::")
		body := p.expr()
		return &CQuant{fa, vars, body}
	}
	if p.isId("let") {
		p.next()
		n := p.ident()
		if !p.accept(":=") {
			p.expect("=")
		}
		v := p.exprNoIn()
		if !p.acceptId("in") {
			p.fail("expected 'in'")
		}
		b := p.expr()
		return &CLet{n, v, b}
	}
	return p.iff()
}

func (p *parser) exprNoIn() CExpr { return p.iff() }

func (p *parser) iff() CExpr {
	x := p.implies()
	for p.accept("<==>") {
		y := p.implies()
		x = &CBinary{"<==>", x, y}
	}
	return x
}

func (p *parser) implies() CExpr {
	x := p.cond()
	if p.accept("==>") {
		var y CExpr
		if p.isId("forall") || p.isId("exists") || p.isId("let") {
			y = p.expr()
		} else {
			y = p.implies() // right assoc
		}
		return &CBinary{"==>", x, y}
	}
	return x
}

func (p *parser) cond() CExpr {
	c := p.or()
	if p.accept("?") {
		a := p.cond()
		p.expect(":")
		b := p.cond()
		return &CCond{c, a, b}
	}
	return c
}

func (p *parser) or() CExpr {
	x := p.and()
	for p.accept("||") {
		y := p.and()
		x = &CBinary{"||", x, y}
	}
	return x
}

func (p *parser) and() CExpr {
	x := p.cmp()
	for p.accept("&&") {
		var y CExpr
		if p.isId("forall") || p.isId("exists") {
			y = p.expr()
		} else {
			y = p.cmp()
		}
		x = &CBinary{"&&", x, y}
	}
	return x
}

func (p *parser) cmp() CExpr {
	first := p.add()
	last := first
	var parts []CExpr
	for {
		t := p.peek()
		if t.kind == "op" && isCmp(t.s) {
			p.next()
			y := p.add()
			parts = append(parts, &CBinary{t.s, last, y})
			last = y
			continue
		}
		break
	}
	if len(parts) == 0 {
		return first
	}
	x := parts[0]
	for _, q := range parts[1:] {
		x = &CBinary{"&&", x, q}
	}
	return x
}

func isCmp(op string) bool {
	switch op {
	case "==", "!=", "<", "<=", ">", ">=":
		return true
	}
	return false
}

func (p *parser) add() CExpr {
	x := p.mul()
	for {
		t := p.peek()
		if t.kind == "op" && (t.s == "+" || t.s == "-" || t.s == "++") {
			p.next()
			y := p.mul()
			x = &CBinary{t.s, x, y}
			continue
		}
		return x
	}
}

func (p *parser) mul() CExpr {
	x := p.unary()
	for {
		t := p.peek()
		if t.kind == "op" && (t.s == "*" || t.s == "/" || t.s == "%") {
			p.next()
			y := p.unary()
			x = &CBinary{t.s, x, y}
			continue
		}
		return x
	}
}

func (p *parser) unary() CExpr {
	if p.accept("!") {
		return &CUnary{"!", p.unary()}
	}
	if p.accept("-") {
		return &CUnary{"-", p.unary()}
	}
	if p.accept("*") {
		return &CUnary{"*", p.unary()}
	}
	if p.accept("&") {
		return &CUnary{"&", p.unary()}
	}
	return p.postfix()
}

func (p *parser) postfix() CExpr {
	x := p.primary()
	for {
		if p.accept(".") {
			x = &CField{x, p.ident()}
		} else if p.accept("[") {
			if p.accept(":") {
				hi := p.expr()
				p.expect("]")
				x = &CSlice{x, nil, hi}
				continue
			}
			i := p.expr()
			if p.accept(":") {
				var hi CExpr
				if !p.isOp("]") {
					hi = p.expr()
				}
				p.expect("]")
				x = &CSlice{x, i, hi}
			} else {
				p.expect("]")
				x = &CIndex{x, i}
			}
		} else if p.isOp("(") {
			id, ok := x.(*CIdent)
			if !ok {
				fld, ok2 := x.(*CField)
				if !ok2 {
					p.fail("call of non-identifier")
				}
				// pkg.Func(...) or x.Method(...) : encode as call with dotted name, receiver resolved later
				if base, ok3 := fld.X.(*CIdent); ok3 {
					id = &CIdent{base.Name + "." + fld.Name}
				} else {
					p.fail("unsupported call target")
				}
			}
			p.next()
			var args []CExpr
			for !p.isOp(")") {
				args = append(args, p.expr())
				if !p.accept(",") {
					break
				}
			}
			p.expect(")")
			x = &CCall{id.Name, args}
		} else {
			return x
		}
	}
}

func (p *parser) primary() CExpr {
	t := p.next()
	switch t.kind {
	case "int":
		return &CInt{t.s}
	case "str":
		return &CStr{t.s}
	case "id":
		switch t.s {
		case "true":
			return &CBool{true}
		case "false":
			return &CBool{false}
		case "nil":
			return &CNil{}
		}
		return &CIdent{t.s}
	case "op":
		if t.s == "(" {
			e := p.expr()
			p.expect(")")
			return e
		}
	}
	p.p--
	p.fail("unexpected token %q", t.s)
	return nil
}
