package main

// Lazy initialisation of fresh objects ("allocation as assumption", block-local).
//
// A store into a cell of an object that this very basic block allocated, that has not escaped and whose cell has not
// been read or written yet, cannot be observed by anything but later code of this function. Instead of producing a
// new version of the heap component (store) it is modelled as the assumption "the current heap already holds that
// value there"; cells that are never written are assumed to hold the zero value when they are first read, or when
// the object escapes / the block ends. The plan is computed statically per function so that the loop-havoc analysis
// and the executor agree on which stores are real.

import (
	"fmt"
	"go/constant"
	"go/token"
	"go/types"

	"golang.org/x/tools/go/ssa"
)

type cellPath []int // field index >= 0; array element i encoded as -(i+1)

func (p cellPath) key() string { return fmt.Sprint([]int(p)) }

func (p cellPath) hasPrefix(q cellPath) bool {
	if len(q) > len(p) {
		return false
	}
	for i := range q {
		if p[i] != q[i] {
			return false
		}
	}
	return true
}

type zeroReq struct {
	alloc *ssa.Alloc
	path  cellPath
}

type lazyPlan struct {
	alloc      map[*ssa.Alloc]bool
	store      map[*ssa.Store]cellPath // lazy stores and the cell path they write
	storeAlloc map[*ssa.Store]*ssa.Alloc
	zeroBefore map[ssa.Instruction][]zeroReq // leaf cells to assume zero before executing the instruction
}

const maxLazyArray = 8

// lazyEligible: objects whose cells can be enumerated statically
func lazyEligible(t types.Type) bool {
	switch u := t.Underlying().(type) {
	case *types.Struct:
		for i := 0; i < u.NumFields(); i++ {
			if !lazyEligible(u.Field(i).Type()) {
				return false
			}
		}
		return true
	case *types.Array:
		return u.Len() <= maxLazyArray && lazyEligible(u.Elem())
	}
	return true
}

// leafPaths enumerates the leaf cells below a path of the given type.
func leafPaths(t types.Type, base cellPath, out *[]cellPath) {
	switch u := t.Underlying().(type) {
	case *types.Struct:
		for i := 0; i < u.NumFields(); i++ {
			leafPaths(u.Field(i).Type(), append(append(cellPath(nil), base...), i), out)
		}
		if u.NumFields() == 0 {
			return
		}
	case *types.Array:
		for i := int64(0); i < u.Len(); i++ {
			leafPaths(u.Elem(), append(append(cellPath(nil), base...), -int(i)-1), out)
		}
	default:
		*out = append(*out, append(cellPath(nil), base...))
	}
}

func typeAtPath(t types.Type, p cellPath) types.Type {
	for _, s := range p {
		switch u := t.Underlying().(type) {
		case *types.Struct:
			t = u.Field(s).Type()
		case *types.Array:
			t = u.Elem()
		}
	}
	return t
}

func planLazy(fn *ssa.Function, heapMode func(*ssa.Alloc) bool) *lazyPlan {
	pl := &lazyPlan{alloc: map[*ssa.Alloc]bool{}, store: map[*ssa.Store]cellPath{}, storeAlloc: map[*ssa.Store]*ssa.Alloc{}, zeroBefore: map[ssa.Instruction][]zeroReq{}}
	type ptr struct {
		a *ssa.Alloc
		p cellPath
	}
	for _, b := range fn.Blocks {
		live := map[*ssa.Alloc]map[string]cellPath{} // alloc -> touched paths
		var order []*ssa.Alloc
		ptrs := map[ssa.Value]ptr{}
		kill := func(a *ssa.Alloc, before ssa.Instruction) {
			touched, ok := live[a]
			if !ok {
				return
			}
			et := a.Type().Underlying().(*types.Pointer).Elem()
			var leaves []cellPath
			leafPaths(et, nil, &leaves)
			for _, lf := range leaves {
				covered := false
				for _, t := range touched {
					if lf.hasPrefix(t) {
						covered = true
						break
					}
				}
				if !covered {
					pl.zeroBefore[before] = append(pl.zeroBefore[before], zeroReq{a, lf})
				}
			}
			delete(live, a)
		}
		killAll := func(before ssa.Instruction) {
			for _, a := range order {
				kill(a, before)
			}
		}
		for _, in := range b.Instrs {
			switch n := in.(type) {
			case *ssa.Alloc:
				et := n.Type().Underlying().(*types.Pointer).Elem()
				if heapMode(n) && lazyEligible(et) {
					pl.alloc[n] = true
					live[n] = map[string]cellPath{}
					order = append(order, n)
					ptrs[n] = ptr{n, nil}
				}
				continue
			case *ssa.FieldAddr:
				if p, ok := ptrs[n.X]; ok {
					if _, l := live[p.a]; l {
						ptrs[n] = ptr{p.a, append(append(cellPath(nil), p.p...), n.Field)}
						continue
					}
				}
			case *ssa.IndexAddr:
				if p, ok := ptrs[n.X]; ok {
					if _, l := live[p.a]; l {
						if c, isC := n.Index.(*ssa.Const); isC && c.Value != nil && c.Value.Kind() == constant.Int {
							i := int(c.Int64())
							ptrs[n] = ptr{p.a, append(append(cellPath(nil), p.p...), -i-1)}
							continue
						}
					}
				}
			case *ssa.Store:
				// the stored value must not be a pointer into a live object (escape)
				if vp, ok := ptrs[n.Val]; ok {
					kill(vp.a, in)
				}
				if p, ok := ptrs[n.Addr]; ok {
					if touched, l := live[p.a]; l {
						overlap := false
						for _, t := range touched {
							if t.hasPrefix(p.p) || p.p.hasPrefix(t) {
								overlap = true
							}
						}
						if !overlap {
							pl.store[n] = p.p
							pl.storeAlloc[n] = p.a
							touched[p.p.key()] = p.p
							continue
						}
						// second write to the cell: a real store; the object stays live
						continue
					}
				}
				continue
			case *ssa.UnOp:
				if n.Op == token.MUL {
					if p, ok := ptrs[n.X]; ok {
						if touched, l := live[p.a]; l {
							// reading cells that were never written: they hold zero
							var leaves []cellPath
							leafPaths(typeAtPath(p.a.Type().Underlying().(*types.Pointer).Elem(), p.p), p.p, &leaves)
							for _, lf := range leaves {
								covered := false
								for _, t := range touched {
									if lf.hasPrefix(t) {
										covered = true
									}
								}
								if !covered {
									pl.zeroBefore[in] = append(pl.zeroBefore[in], zeroReq{p.a, lf})
									touched[lf.key()] = lf
								}
							}
							continue
						}
					}
					continue
				}
			case *ssa.DebugRef:
				continue
			}
			// any other use of a pointer into a live object is an escape; calls end all laziness
			if _, isCall := in.(ssa.CallInstruction); isCall {
				killAll(in)
				continue
			}
			switch in.(type) {
			case *ssa.If, *ssa.Jump, *ssa.Return, *ssa.Panic, *ssa.RunDefers:
				killAll(in)
				continue
			}
			for _, op := range in.Operands(nil) {
				if op == nil || *op == nil {
					continue
				}
				if p, ok := ptrs[*op]; ok {
					kill(p.a, in)
				}
			}
		}
	}
	return pl
}

// cellAddr builds the address term of a cell path below object address a.
func (x *Exec) cellAddr(a string, t types.Type, p cellPath) (string, types.Type) {
	for _, s := range p {
		switch u := t.Underlying().(type) {
		case *types.Struct:
			si := x.w.structInfo(t)
			a = app("fld", a, fmt.Sprint(si.Tags[s]))
			t = u.Field(s).Type()
		case *types.Array:
			a = app("idx", a, fmt.Sprint(-s-1))
			t = u.Elem()
		}
	}
	return a, t
}

func (x *Exec) applyZeroReqs(st *State, in ssa.Instruction) {
	fr := st.top
	pl := x.plan(fr.fn)
	for _, z := range pl.zeroBefore[in] {
		av, ok := fr.vals[z.alloc]
		if !ok {
			continue
		}
		et := z.alloc.Type().Underlying().(*types.Pointer).Elem()
		addr, lt := x.cellAddr(av.S, et, z.path)
		_, cur := x.w.comp(st, x.w.compKey(lt))
		st.assume(app("=", app("select", cur, addr), x.w.zero(lt)))
	}
}

func (x *Exec) plan(fn *ssa.Function) *lazyPlan {
	if p, ok := x.plans[fn]; ok {
		return p
	}
	p := planLazy(fn, func(a *ssa.Alloc) bool { return !x.isLocalMode(a) })
	x.plans[fn] = p
	return p
}

// lazyStore: the store is modelled as an assumption on the current heap.
func (x *Exec) lazyStore(st *State, n *ssa.Store, path cellPath, alloc *ssa.Alloc, v Val) bool {
	fr := st.top
	av, ok := fr.vals[alloc]
	if !ok {
		return false
	}
	et := alloc.Type().Underlying().(*types.Pointer).Elem()
	addr, ct := x.cellAddr(av.S, et, path)
	var assumeLeaves func(a string, t types.Type, val string)
	assumeLeaves = func(a string, t types.Type, val string) {
		switch u := t.Underlying().(type) {
		case *types.Struct:
			si := x.w.structInfo(t)
			for i := range si.Fields {
				assumeLeaves(app("fld", a, fmt.Sprint(si.Tags[i])), u.Field(i).Type(), selApp(si, i, val))
			}
		case *types.Array:
			for i := int64(0); i < u.Len(); i++ {
				assumeLeaves(app("idx", a, fmt.Sprint(i)), u.Elem(), app("select", val, fmt.Sprint(i)))
			}
		default:
			_, cur := x.w.comp(st, x.w.compKey(t))
			st.assume(app("=", app("select", cur, a), val))
		}
	}
	assumeLeaves(addr, ct, v.S)
	return true
}
