package main

// Name lock: contracts refer to parameters and local variables by their source names. A pure rename in the code
// would otherwise be reported as "unknown identifier" - an alarm on code where the property still holds. The lock file
// (/verif/contracts.lock.json, written by `govc lock` when contracts are accepted, committed in /verif) records, for
// every function under contract, the parameter names by position and, for every named local, its type and its
// position among the named locals of that type in SSA order. When a name used by a contract no longer exists in the
// function, it is resolved through the lock to the parameter at the same position / the local with the same type at
// the same position. This only changes how a NAME is resolved: every obligation is still generated from and proved
// about the current code, so a wrong guess can fail a proof but cannot make a false one pass unnoticed by the solver.

import (
	"encoding/json"
	"fmt"
	"go/types"
	"os"
	"sort"

	"golang.org/x/tools/go/ssa"
)

type lockedLocal struct {
	Type  string `json:"type"`
	Index int    `json:"index"`
}

type lockedFunc struct {
	Params []string                 `json:"params"`
	Locals map[string][]lockedLocal `json:"locals"`
}

type nameLock map[string]*lockedFunc

func namedAllocs(fn *ssa.Function) []*ssa.Alloc {
	var out []*ssa.Alloc
	for _, b := range fn.Blocks {
		for _, in := range b.Instrs {
			if a, ok := in.(*ssa.Alloc); ok && a.Comment != "" {
				out = append(out, a)
			}
		}
	}
	return out
}

func allocTypeString(a *ssa.Alloc) string {
	return types.TypeString(a.Type().Underlying().(*types.Pointer).Elem(), nil)
}

func lockOf(fn *ssa.Function) *lockedFunc {
	lf := &lockedFunc{Locals: map[string][]lockedLocal{}}
	for _, p := range fn.Params {
		lf.Params = append(lf.Params, p.Name())
	}
	count := map[string]int{}
	for _, a := range namedAllocs(fn) {
		ts := allocTypeString(a)
		lf.Locals[a.Comment] = append(lf.Locals[a.Comment], lockedLocal{Type: ts, Index: count[ts]})
		count[ts]++
	}
	return lf
}

func (w *World) writeLock(path string) error {
	lock := nameLock{}
	var names []string
	for n := range w.contracts {
		names = append(names, n)
	}
	sort.Strings(names)
	for _, pi := range w.sortedPkgs() {
		for _, fn := range pi.funcs {
			if fn.Blocks == nil {
				continue
			}
			if _, ok := w.contracts[fn.String()]; ok {
				lock[fn.String()] = lockOf(fn)
			}
		}
	}
	b, _ := json.MarshalIndent(lock, "", " ")
	return os.WriteFile(path, b, 0o644)
}

func (w *World) loadLock(path string) {
	b, err := os.ReadFile(path)
	if err != nil {
		return
	}
	var l nameLock
	if json.Unmarshal(b, &l) == nil {
		w.lock = l
	}
}

// lockedAllocs: the locals a name that no longer exists referred to when the contracts were accepted.
func (w *World) lockedAllocs(fn *ssa.Function, name string) []*ssa.Alloc {
	if w.lock == nil {
		return nil
	}
	lf := w.lock[fn.String()]
	if lf == nil {
		return nil
	}
	var out []*ssa.Alloc
	for _, ll := range lf.Locals[name] {
		k := 0
		for _, a := range namedAllocs(fn) {
			if allocTypeString(a) != ll.Type {
				continue
			}
			if k == ll.Index {
				// only a local whose current name is new (not itself locked under its own name) can be the renamed one
				if _, known := lf.Locals[a.Comment]; !known {
					out = append(out, a)
				}
				break
			}
			k++
		}
	}
	if len(out) > 0 {
		w.lockNotes[fmt.Sprintf("local %q of %s is resolved by position through contracts.lock.json (now %q)", name, fn.String(), out[0].Comment)] = true
	}
	return out
}

// lockedParam: index of the parameter that had this name when the contracts were accepted, or -1.
func (w *World) lockedParam(fn *ssa.Function, name string) int {
	if w.lock == nil || fn == nil {
		return -1
	}
	lf := w.lock[fn.String()]
	if lf == nil || len(lf.Params) != len(fn.Params) {
		return -1
	}
	for i, n := range lf.Params {
		if n == name && fn.Params[i].Name() != name {
			// the current name must be new as well
			for _, m := range lf.Params {
				if m == fn.Params[i].Name() {
					return -1
				}
			}
			w.lockNotes[fmt.Sprintf("parameter %q of %s is resolved by position through contracts.lock.json (now %q)", name, fn.String(), fn.Params[i].Name())] = true
			return i
		}
	}
	return -1
}
