package main

// Replay of solver counterexamples on the real code: the model's inputs are turned into Go literals, an in-package
// test is injected with `go test -overlay` (nothing is written to the repository) and the observed behaviour is
// recorded in the replay file.

import (
	"encoding/json"
	"fmt"
	"go/types"
	"os"
	"os/exec"
	"path/filepath"
	"sort"
	"strconv"
	"strings"

	"golang.org/x/tools/go/ssa"
)

type replayInfo struct {
	PkgPath string
	PkgDir  string
	PkgName string
	Call    string // Go expression prefix, e.g. "verrevcmp" or "Version.String"
	Params  []replayParam
	NRes    int
}

type replayParam struct {
	Name string
	Term string // SMT term of the input
	Type types.Type
}

// getValueTerms lists the ground terms whose values are requested from the model for one input.
func (w *World) getValueTerms(term string, t types.Type, out *[]string) bool {
	switch u := t.Underlying().(type) {
	case *types.Basic:
		switch {
		case u.Info()&types.IsInteger != 0, u.Info()&types.IsBoolean != 0:
			*out = append(*out, term)
			return true
		case u.Info()&types.IsString != 0:
			*out = append(*out, app("len", term))
			for k := 0; k < 12; k++ {
				*out = append(*out, app("at", term, fmt.Sprint(k)))
			}
			return true
		}
	case *types.Struct:
		si := w.structInfo(t)
		ok := true
		for i := range si.Fields {
			if !w.getValueTerms(app(selName(si, i), term), u.Field(i).Type(), out) {
				ok = false
			}
		}
		return ok
	case *types.Pointer:
		// a pointer to a struct of plain fields: the entry heap behind it (nil-ness first)
		if _, isStruct := u.Elem().Underlying().(*types.Struct); !isStruct {
			return false
		}
		*out = append(*out, "(ite (= "+term+" anil) 1 0)")
		w.heapValueTerms(term, u.Elem(), out)
		return true
	}
	return false
}

// heapValueTerms: the entry-heap cells of the plain (integer, boolean, string) fields of the struct at address a.
func (w *World) heapValueTerms(a string, t types.Type, out *[]string) {
	st, ok := t.Underlying().(*types.Struct)
	if !ok {
		return
	}
	si := w.structInfo(t)
	for i := 0; i < st.NumFields(); i++ {
		ft := st.Field(i).Type()
		fa := app("fld", a, fmt.Sprint(si.Tags[i]))
		switch u := ft.Underlying().(type) {
		case *types.Basic:
			cell := app("select", compName(w.compKey(ft))+"_0", fa)
			switch {
			case u.Info()&types.IsInteger != 0, u.Info()&types.IsBoolean != 0:
				*out = append(*out, cell)
			case u.Info()&types.IsString != 0:
				*out = append(*out, app("len", cell))
				for k := 0; k < 12; k++ {
					*out = append(*out, app("at", cell, fmt.Sprint(k)))
				}
			}
		case *types.Struct:
			w.heapValueTerms(fa, ft, out)
		}
	}
}

// heapLiteral renders the struct at address a from the model; cells the model says nothing about keep their zero value.
func (w *World) heapLiteral(a string, t types.Type, vals map[string]string, qual types.Qualifier) string {
	st := t.Underlying().(*types.Struct)
	si := w.structInfo(t)
	var fs []string
	for i := 0; i < st.NumFields(); i++ {
		ft := st.Field(i).Type()
		fa := app("fld", a, fmt.Sprint(si.Tags[i]))
		switch ft.Underlying().(type) {
		case *types.Basic:
			cell := app("select", compName(w.compKey(ft))+"_0", fa)
			if lit, ok := w.goLiteral(cell, ft, vals, qual); ok {
				fs = append(fs, st.Field(i).Name()+": "+lit)
			}
		case *types.Struct:
			fs = append(fs, st.Field(i).Name()+": "+w.heapLiteral(fa, ft, vals, qual))
		}
	}
	return types.TypeString(t, qual) + "{" + strings.Join(fs, ", ") + "}"
}

// goLiteral renders the model value of an input as a Go expression.
func (w *World) goLiteral(term string, t types.Type, vals map[string]string, qual types.Qualifier) (string, bool) {
	switch u := t.Underlying().(type) {
	case *types.Basic:
		switch {
		case u.Info()&types.IsInteger != 0:
			v, ok := vals[term]
			if !ok {
				return "", false
			}
			return fmt.Sprintf("%s(%s)", types.TypeString(t, qual), v), true
		case u.Info()&types.IsBoolean != 0:
			v, ok := vals[term]
			return v, ok
		case u.Info()&types.IsString != 0:
			l, ok := vals[app("len", term)]
			if !ok {
				return "", false
			}
			n, err := strconv.Atoi(l)
			if err != nil || n < 0 || n > 12 {
				return "", false
			}
			bs := make([]byte, n)
			for k := 0; k < n; k++ {
				c, _ := strconv.Atoi(vals[app("at", term, fmt.Sprint(k))])
				bs[k] = byte(c)
			}
			return strconv.Quote(string(bs)), true
		}
	case *types.Struct:
		si := w.structInfo(t)
		var fs []string
		for i := range si.Fields {
			f, ok := w.goLiteral(app(selName(si, i), term), u.Field(i).Type(), vals, qual)
			if !ok {
				return "", false
			}
			fs = append(fs, u.Field(i).Name()+": "+f)
		}
		return types.TypeString(t, qual) + "{" + strings.Join(fs, ", ") + "}", true
	case *types.Pointer:
		if _, isStruct := u.Elem().Underlying().(*types.Struct); !isStruct {
			return "", false
		}
		if vals["(ite (= "+term+" anil) 1 0)"] == "1" {
			return "nil", true
		}
		return "&" + w.heapLiteral(term, u.Elem(), vals, qual), true
	}
	return "", false
}

func (w *World) replayInfoFor(pi *PkgInfo, fn *ssa.Function, inputs map[string]string) *replayInfo {
	if pi == nil || pi.pkg == nil || len(pi.pkg.GoFiles) == 0 {
		return nil
	}
	ri := &replayInfo{PkgPath: pi.path, PkgDir: filepath.Dir(pi.pkg.GoFiles[0]), PkgName: pi.types.Name(), NRes: fn.Signature.Results().Len()}
	if recv := fn.Signature.Recv(); recv != nil {
		rt := recv.Type()
		if pt, isPtr := rt.Underlying().(*types.Pointer); isPtr {
			if _, isStruct := pt.Elem().Underlying().(*types.Struct); !isStruct {
				return nil
			}
			ri.Call = "(" + types.TypeString(rt, types.RelativeTo(pi.types)) + ")." + fn.Name()
		} else {
			ri.Call = types.TypeString(rt, types.RelativeTo(pi.types)) + "." + fn.Name()
		}
	} else {
		ri.Call = fn.Name()
	}
	for _, p := range fn.Params {
		ri.Params = append(ri.Params, replayParam{Name: p.Name(), Term: inputs[p.Name()], Type: p.Type()})
	}
	return ri
}

// runReplay executes the real function on the model's inputs.
func (w *World) runReplay(repo string, ri *replayInfo, vals map[string]string, pi *PkgInfo) map[string]interface{} {
	out := map[string]interface{}{}
	qual := types.RelativeTo(pi.types)
	var args []string
	shown := map[string]string{}
	for _, p := range ri.Params {
		lit, ok := w.goLiteral(p.Term, p.Type, vals, qual)
		if !ok {
			out["ran"] = false
			out["why"] = fmt.Sprintf("input %s of type %s cannot be rebuilt from the model (pointer, slice, map, interface, or a string longer than 12 bytes)", p.Name, p.Type)
			return out
		}
		args = append(args, lit)
		shown[p.Name] = lit
	}
	out["inputs_go"] = shown
	var res []string
	for i := 0; i < ri.NRes; i++ {
		res = append(res, fmt.Sprintf("r%d", i))
	}
	assign := ""
	prints := ""
	if len(res) > 0 {
		assign = strings.Join(res, ", ") + " := "
		for _, r := range res {
			prints += fmt.Sprintf("\tfmt.Printf(\"GOVC-REPLAY %s = %%#v\\n\", %s)\n", r, r)
		}
	}
	src := fmt.Sprintf(`package %s

import (
	"fmt"
	"testing"
)

func TestGovcReplay(t *testing.T) {
	defer func() {
		if r := recover(); r != nil {
			fmt.Printf("GOVC-REPLAY panic: %%v\n", r)
		}
	}()
	%s%s(%s)
%s	fmt.Println("GOVC-REPLAY done")
}
`, ri.PkgName, assign, ri.Call, strings.Join(args, ", "), prints)
	dir, err := os.MkdirTemp("", "govc-replay-")
	if err != nil {
		out["ran"] = false
		out["why"] = err.Error()
		return out
	}
	defer os.RemoveAll(dir)
	testFile := filepath.Join(dir, "govc_replay_test.go")
	os.WriteFile(testFile, []byte(src), 0o644)
	ov := map[string]map[string]string{"Replace": {filepath.Join(ri.PkgDir, "zz_govc_replay_test.go"): testFile}}
	ovb, _ := json.Marshal(ov)
	ovFile := filepath.Join(dir, "overlay.json")
	os.WriteFile(ovFile, ovb, 0o644)
	cmd := exec.Command("go", "test", "-overlay", ovFile, "-vet=off", "-v", "-count=1", "-timeout", "60s", "-run", "^TestGovcReplay$", "./"+strings.TrimPrefix(strings.TrimPrefix(ri.PkgDir, repo), "/"))
	cmd.Dir = repo
	cmd.Env = append(os.Environ(), "GOFLAGS=-mod=mod", "GOPROXY=off", "GOSUMDB=off", "GOTOOLCHAIN=local")
	b, _ := cmd.CombinedOutput()
	text := string(b)
	out["ran"] = true
	out["test_source"] = src
	var obs []string
	for _, l := range strings.Split(text, "\n") {
		if strings.HasPrefix(l, "GOVC-REPLAY ") {
			obs = append(obs, strings.TrimPrefix(l, "GOVC-REPLAY "))
		}
	}
	sort.Strings(obs)
	out["observed"] = obs
	if len(obs) == 0 {
		out["raw_output"] = firstLines(text, 20)
	}
	if strings.Contains(text, "panic: test timed out") {
		out["observed"] = append(obs, "hang: the call did not return within 60s")
	}
	return out
}
