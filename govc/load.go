package main

import (
	"fmt"
	"go/types"
	"os"
	"path/filepath"
	"sort"
	"strings"

	"golang.org/x/tools/go/packages"
	"golang.org/x/tools/go/ssa"
	"golang.org/x/tools/go/ssa/ssautil"
)

type PkgInfo struct {
	path     string
	pkg      *packages.Package
	ssa      *ssa.Package
	types    *types.Package
	contract *ContractFile
	funcs    map[string]*ssa.Function // normalised relative name -> function
}

const contractFileName = "zz_verif_contracts.go"

func normName(s string) string {
	s = strings.ReplaceAll(s, "(", "")
	s = strings.ReplaceAll(s, ")", "")
	return s
}

func loadWorld(repo, stdlibDir string, patterns []string) (*World, error) {
	w := newWorld()
	cfg := &packages.Config{Mode: packages.LoadAllSyntax, Dir: repo, BuildFlags: []string{"-tags=verif"},
		Env: append(os.Environ(), "GOFLAGS=-mod=mod", "GOPROXY=off", "GOSUMDB=off", "GOTOOLCHAIN=local")}
	pkgs, err := packages.Load(cfg, patterns...)
	if err != nil {
		return nil, err
	}
	var errs []string
	packages.Visit(pkgs, nil, func(p *packages.Package) {
		for _, e := range p.Errors {
			errs = append(errs, e.Error())
		}
	})
	if len(errs) > 0 {
		return nil, fmt.Errorf("package errors:\n%s", strings.Join(errs, "\n"))
	}
	prog, spkgs := ssautil.AllPackages(pkgs, ssa.NaiveForm)
	w.prog = prog
	// order packages by dependency (imports first)
	ordered := topoPkgs(pkgs)
	index := map[*packages.Package]*ssa.Package{}
	for i, p := range pkgs {
		index[p] = spkgs[i]
	}
	for _, p := range ordered {
		sp := prog.Package(p.Types)
		if sp == nil {
			continue
		}
		if _, isRoot := index[p]; !isRoot {
			continue
		}
		sp.Build()
		pi := &PkgInfo{path: p.PkgPath, pkg: p, ssa: sp, types: p.Types, funcs: map[string]*ssa.Function{}}
		w.pkgs[p.PkgPath] = pi
	}
	for fn := range ssautil.AllFunctions(prog) {
		pp := pkgPath(fn)
		if pi, ok := w.pkgs[pp]; ok {
			rel := fn.RelString(pi.types)
			pi.funcs[normName(rel)] = fn
		}
	}
	// stdlib / third-party trusted specs first
	if stdlibDir != "" {
		files, _ := filepath.Glob(filepath.Join(stdlibDir, "*.spec"))
		sort.Strings(files)
		for fi, f := range files {
			src, err := os.ReadFile(f)
			if err != nil {
				return nil, err
			}
			cf := &ContractFile{Path: f}
			// line numbers order the declarations of the whole prelude (lemma A may use lemma B only if B comes first)
			if err := parseContracts(f, "", string(src), 1+fi*100000, cf); err != nil {
				return nil, err
			}
			if err := w.register(nil, cf, true); err != nil {
				return nil, err
			}
		}
	}
	for _, p := range ordered {
		pi, ok := w.pkgs[p.PkgPath]
		if !ok {
			continue
		}
		for _, gf := range p.GoFiles {
			if filepath.Base(gf) != contractFileName {
				continue
			}
			src, err := os.ReadFile(gf)
			if err != nil {
				return nil, err
			}
			cf := &ContractFile{Path: gf, Pkg: p.PkgPath}
			text := string(src)
			pos := 0
			for {
				i := strings.Index(text[pos:], "/*@")
				if i < 0 {
					break
				}
				i += pos
				j := strings.Index(text[i:], "@*/")
				if j < 0 {
					return nil, fmt.Errorf("%s: unterminated /*@ block", gf)
				}
				j += i
				line := 1 + strings.Count(text[:i], "\n")
				if err := parseContracts(gf, p.PkgPath, text[i+3:j], line, cf); err != nil {
					return nil, err
				}
				pos = j + 3
			}
			pi.contract = cf
			if err := w.register(pi, cf, false); err != nil {
				return nil, err
			}
		}
	}
	return w, nil
}

func topoPkgs(roots []*packages.Package) []*packages.Package {
	var out []*packages.Package
	seen := map[*packages.Package]bool{}
	var visit func(p *packages.Package)
	visit = func(p *packages.Package) {
		if seen[p] {
			return
		}
		seen[p] = true
		var imps []string
		for k := range p.Imports {
			imps = append(imps, k)
		}
		sort.Strings(imps)
		for _, k := range imps {
			visit(p.Imports[k])
		}
		out = append(out, p)
	}
	sorted := append([]*packages.Package(nil), roots...)
	sort.Slice(sorted, func(i, j int) bool { return sorted[i].PkgPath < sorted[j].PkgPath })
	for _, p := range sorted {
		visit(p)
	}
	return out
}

func (w *World) register(pi *PkgInfo, cf *ContractFile, stdlib bool) error {
	w.pendingGhosts = append(w.pendingGhosts, cf.Ghosts...)
	for _, gv := range cf.GhostVars {
		if w.ghostVars == nil {
			w.ghostVars = map[string]*ghostVarInfo{}
		}
		if _, dup := w.ghostVars[gv.Name]; dup {
			return fmt.Errorf("%s: duplicate ghost var %s", cf.Path, gv.Name)
		}
		w.ghostVars[gv.Name] = &ghostVarInfo{id: len(w.ghostVars) + 1, text: gv.Type}
	}
	for _, sf := range cf.Specs {
		if _, dup := w.specs[sf.Name]; dup {
			return fmt.Errorf("%s: duplicate spec function %s", cf.Path, sf.Name)
		}
		w.specs[sf.Name] = sf
		w.specOrder = append(w.specOrder, sf.Name)
		w.specPkg[sf.Name] = pi
	}
	for _, lm := range cf.Lemmas {
		if _, dup := w.lemmas[lm.Name]; dup {
			return fmt.Errorf("%s: duplicate lemma %s", cf.Path, lm.Name)
		}
		if lm.Axiom && !stdlib {
			return fmt.Errorf("%s: axiom %s outside the trusted stdlib specs", cf.Path, lm.Name)
		}
		w.lemmas[lm.Name] = lm
		w.lemmaPkg[lm.Name] = pi
	}
	for _, fc := range cf.Funcs {
		if fc.Trusted && !stdlib {
			// trusted contracts on repository functions are allowed but are reported as assumptions
		}
		if stdlib {
			w.contracts[fc.Name] = fc
			continue
		}
		fn, ok := pi.funcs[normName(fc.Name)]
		if !ok {
			return fmt.Errorf("%s:%d: contract for unknown function %s (contract drift)", cf.Path, fc.Line, fc.Name)
		}
		// loop ordinals must exist
		if fn.Blocks != nil {
			li := analyzeLoops(fn)
			for ord := range fc.Loops {
				if ord < 1 || ord > len(li.Loops) {
					return fmt.Errorf("%s:%d: %s has %d loops, contract mentions loop %d (contract drift)", cf.Path, fc.Line, fc.Name, len(li.Loops), ord)
				}
			}
		}
		w.contracts[fn.String()] = fc
	}
	return nil
}

var stdPkgInfo *PkgInfo

// stdPkg: pseudo package for the shared prelude (/verif/stdlib/*.spec)
func (w *World) stdPkg() *PkgInfo {
	if stdPkgInfo == nil {
		stdPkgInfo = &PkgInfo{path: "stdlibspec", types: types.NewPackage("stdlibspec", "stdlib"), funcs: map[string]*ssa.Function{}}
	}
	return stdPkgInfo
}
