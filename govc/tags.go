package main

// Static TAG obligations (property C10 / C12 / C19): the reflective walkers of package control are outside the
// verifier's reach, so their behaviour is a *trusted* contract:
//
//   for every field F of the target struct (anonymous non-Paragraph structs flattened) with effective key
//   K = tag `control:"K"` or the Go field name, if the paragraph has a value v for K then
//     kind string            F = v
//     kind int / bool        F = atoi(v) / (v == "yes")
//     type with UnmarshalControl   F.UnmarshalControl(v)
//     slice of E             F = [ conv_E(trim(e, strip)) | e <- split(trim(v, strip), delim) ], where delim " "
//                            (the default) splits on any run of blanks and line breaks
//
// Under that contract "the typed parser returns the model" reduces to a finite table: for every field of the Debian
// layout, a struct field with that key exists and its Go type, delim and strip realise the field's syntax. The table
// (`layout T ... field "K" shape`) lives in the contract file; the actual types and tags are read from go/types on every
// run, one obligation per row. No solver is involved: the back end is reported as "static".

import (
	"fmt"
	"go/types"
	"reflect"
	"sort"
	"strings"
)

type LayoutField struct {
	Key   string
	Shape string
	Arg   string
	Line  int
}

type Layout struct {
	Type   string
	Fields []LayoutField
	Line   int
}

type flatField struct {
	key   string
	name  string
	typ   types.Type
	delim string
	strip string
	tag   string
}

func flattenStruct(t types.Type, out *[]flatField) {
	st, ok := t.Underlying().(*types.Struct)
	if !ok {
		return
	}
	for i := 0; i < st.NumFields(); i++ {
		f := st.Field(i)
		tag := reflect.StructTag(st.Tag(i))
		if f.Anonymous() {
			if n, ok := f.Type().(*types.Named); ok && n.Obj().Name() == "Paragraph" {
				continue
			}
			if _, isStruct := f.Type().Underlying().(*types.Struct); isStruct {
				flattenStruct(f.Type(), out)
			}
			continue
		}
		if !f.Exported() {
			continue
		}
		key := f.Name()
		if k := tag.Get("control"); k != "" {
			key = k
		}
		if key == "-" {
			continue
		}
		delim := " "
		if d := tag.Get("delim"); d != "" {
			delim = d
		}
		*out = append(*out, flatField{key: key, name: f.Name(), typ: f.Type(), delim: delim, strip: tag.Get("strip"), tag: st.Tag(i)})
	}
}

func typeName(t types.Type) string {
	if n, ok := t.(*types.Named); ok {
		if n.Obj().Pkg() != nil {
			p := n.Obj().Pkg().Path()
			if i := strings.LastIndex(p, "/"); i >= 0 {
				p = p[i+1:]
			}
			return p + "." + n.Obj().Name()
		}
		return n.Obj().Name()
	}
	if sl, ok := t.(*types.Slice); ok {
		return "[]" + typeName(sl.Elem())
	}
	return t.String()
}

func hasAll(set string, chars string) bool {
	for _, c := range chars {
		if !strings.ContainsRune(set, c) {
			return false
		}
	}
	return true
}

var hashElem = map[string]string{"md5": "control.MD5FileHash", "sha1": "control.SHA1FileHash", "sha256": "control.SHA256FileHash", "sha512": "control.SHA512FileHash"}

// shapeOK decides one table row against one actual field; the returned string is empty when the row holds.
func shapeOK(lf LayoutField, f flatField) string {
	basic := func(k types.BasicInfo) bool {
		b, ok := f.typ.Underlying().(*types.Basic)
		return ok && b.Info()&k != 0
	}
	elem := func() (types.Type, bool) {
		s, ok := f.typ.Underlying().(*types.Slice)
		if !ok {
			return nil, false
		}
		return s.Elem(), true
	}
	switch lf.Shape {
	case "scalar":
		if _, named := f.typ.(*types.Named); named || !basic(types.IsString) {
			return fmt.Sprintf("scalar text field needs Go type string, has %s", typeName(f.typ))
		}
	case "int":
		if !basic(types.IsInteger) {
			return fmt.Sprintf("integer field needs an integer type, has %s", typeName(f.typ))
		}
	case "bool":
		if !basic(types.IsBoolean) {
			return fmt.Sprintf("yes/no field needs bool, has %s", typeName(f.typ))
		}
	case "version", "arch", "dep":
		want := map[string]string{"version": "version.Version", "arch": "dependency.Arch", "dep": "dependency.Dependency"}[lf.Shape]
		if typeName(f.typ) != want {
			return fmt.Sprintf("needs %s, has %s", want, typeName(f.typ))
		}
	case "archlist":
		e, ok := elem()
		if !ok || typeName(e) != "dependency.Arch" {
			return fmt.Sprintf("needs []dependency.Arch, has %s", typeName(f.typ))
		}
		if f.delim != " " {
			return fmt.Sprintf("architecture lists are blank separated, delim is %q", f.delim)
		}
	case "spacelist":
		e, ok := elem()
		if !ok || typeName(e) != "string" {
			return fmt.Sprintf("needs []string, has %s", typeName(f.typ))
		}
		if f.delim != " " {
			return fmt.Sprintf("blank separated list, delim is %q", f.delim)
		}
	case "commalist":
		e, ok := elem()
		if !ok || typeName(e) != "string" {
			return fmt.Sprintf("needs []string, has %s", typeName(f.typ))
		}
		if f.delim != "," {
			return fmt.Sprintf("comma separated list, delim is %q", f.delim)
		}
		if !hasAll(f.strip, " \n\t") {
			return fmt.Sprintf("elements of a (possibly folded) comma separated list must be trimmed of blanks and line breaks, strip is %q", f.strip)
		}
	case "hashes":
		e, ok := elem()
		want := hashElem[lf.Arg]
		if want == "" {
			return "unknown algorithm " + lf.Arg
		}
		if !ok || typeName(e) != want {
			return fmt.Sprintf("%s checksum lines need []%s (the element type tags its own algorithm), has %s", lf.Arg, want, typeName(f.typ))
		}
		if f.delim != "\n" || !hasAll(f.strip, "\n") {
			return fmt.Sprintf("one entry per line: delim %q strip %q", f.delim, f.strip)
		}
	case "changesfiles":
		e, ok := elem()
		if !ok || typeName(e) != "control.FileListChangesFileHash" {
			return fmt.Sprintf("needs []control.FileListChangesFileHash, has %s", typeName(f.typ))
		}
		if f.delim != "\n" || !hasAll(f.strip, "\n") {
			return fmt.Sprintf("one entry per line: delim %q strip %q", f.delim, f.strip)
		}
	default:
		return "unknown shape " + lf.Shape
	}
	return ""
}

func (w *World) verifyLayout(pi *PkgInfo, l *Layout) *FuncResult {
	res := &FuncResult{Func: "layout:" + pi.types.Name() + "." + l.Type, Gen: newGen(w)}
	obj := pi.types.Scope().Lookup(l.Type)
	if obj == nil {
		res.Err = "contract error: layout for unknown type " + l.Type
		return res
	}
	var flat []flatField
	flattenStruct(obj.Type(), &flat)
	byKey := map[string][]flatField{}
	for _, f := range flat {
		byKey[f.key] = append(byKey[f.key], f)
	}
	add := func(name, src, why string) {
		o := &Obligation{Name: res.Func + "#TAG#" + name, Kind: "TAG", Func: res.Func, Src: src, Solver: "static", pi: pi}
		if why == "" {
			o.Status = "discharged"
		} else {
			o.Status = "failed"
			o.Reason = why
		}
		res.Obls = append(res.Obls, o)
	}
	for _, lf := range l.Fields {
		src := fmt.Sprintf("field %q %s %s", lf.Key, lf.Shape, lf.Arg)
		fs := byKey[lf.Key]
		switch {
		case len(fs) == 0:
			add(lf.Key, src, fmt.Sprintf("no field of %s decodes the key %q", l.Type, lf.Key))
		case len(fs) > 1:
			add(lf.Key, src, fmt.Sprintf("%d fields of %s decode the key %q", len(fs), l.Type, lf.Key))
		default:
			add(lf.Key, src, shapeOK(lf, fs[0]))
		}
	}
	res.Notes = append(res.Notes, "trusted contract (assumed, not verified): the reflective walkers control.decodeStruct/decodeStructValue/decodeStructValueSlice assign each tagged field conv(kind, delim, strip, Values[key]) as written at the top of govc/tags.go (bounded harness C09/C10 samples it)")
	return res
}

// dumpLayouts prints the effective (key, type, delim, strip) rows of the named struct types.
func (w *World) dumpLayouts(names []string) {
	for _, pi := range w.sortedPkgs() {
		for _, n := range names {
			obj := pi.types.Scope().Lookup(n)
			if obj == nil {
				continue
			}
			var flat []flatField
			flattenStruct(obj.Type(), &flat)
			fmt.Printf("%s.%s\n", pi.types.Name(), n)
			sort.SliceStable(flat, func(i, j int) bool { return false })
			for _, f := range flat {
				fmt.Printf("  %-24q %-34s delim=%q strip=%q\n", f.key, typeName(f.typ), f.delim, f.strip)
			}
		}
	}
}
