package main

// Translation of contract expressions to SMT terms.

import (
	"strconv"
	"fmt"
	"go/types"
	"sort"
	"strings"

	"golang.org/x/tools/go/ssa"
)

var mathInt = types.Typ[types.UntypedInt]

type Env struct {
	x      *Exec // may be nil for pure contexts
	w      *World
	pkg    *PkgInfo
	vars   map[string]Val
	st     *State // current program state (nil in pure contexts)
	fr     *Frame // frame whose locals are visible
	old    *State // entry state for old()
	side   *[]string
	bound  map[string]bool
	inLoop *Loop
	post   bool // translating a postcondition: parameters denote entry values
	cur    *State // under pre(): the real current state, in which local variables are read
	freshBase string // allocation counter before the call / at function entry (for fresh())
	freshTop  string // allocation counter after the call / at the return (fresh objects lie below it)
	hint   *hintCtx // inside the by-block of a function clause: where `assert` obligations go
}

// hintCtx: an `assert e` inside the by-block of a requires/ensures/invariant clause is proved as an obligation of its
// own (kind ASSERT) in the state the clause is proved in, under the guards of the enclosing ifs, and is then available
// as a hypothesis for the clause.
type hintCtx struct {
	st     *State
	site   string
	n      *int
	guards []string
}

// counterNow: the allocation counter of a state (every object allocated so far has a smaller oid)
func counterNow(st *State) string {
	if st.nobjBase != "" {
		return app("+", st.nobjBase, fmt.Sprint(st.nobj))
	}
	return app("+", "fresh0", fmt.Sprint(st.nobj))
}

func (e *Env) child() *Env {
	c := *e
	c.vars = make(map[string]Val, len(e.vars)+2)
	for k, v := range e.vars {
		c.vars[k] = v
	}
	c.bound = make(map[string]bool, len(e.bound)+2)
	for k, v := range e.bound {
		c.bound[k] = v
	}
	return &c
}

func (e *Env) withState(st *State) *Env {
	c := *e
	c.st = st
	if st != nil {
		// find the corresponding frame (same id) in the other state
		if e.fr != nil {
			for f := st.top; f != nil; f = f.parent {
				if f.id == e.fr.id {
					c.fr = f
					break
				}
			}
		}
	}
	return &c
}

func (e *Env) addSide(f string) {
	if e.side != nil {
		*e.side = append(*e.side, f)
	}
}

type cerr struct{ msg string }

func cfail(format string, a ...interface{}) {
	panic(cerr{fmt.Sprintf(format, a...)})
}

func (w *World) resolveType(pkg *PkgInfo, text string) types.Type {
	text = strings.TrimSpace(text)
	switch {
	case strings.HasPrefix(text, "*"):
		return types.NewPointer(w.resolveType(pkg, text[1:]))
	case strings.HasPrefix(text, "[]"):
		return types.NewSlice(w.resolveType(pkg, text[2:]))
	case strings.HasPrefix(text, "map["):
		d := 0
		for i := 3; i < len(text); i++ {
			if text[i] == '[' {
				d++
			} else if text[i] == ']' {
				d--
				if d == 0 {
					return types.NewMap(w.resolveType(pkg, text[4:i]), w.resolveType(pkg, text[i+1:]))
				}
			}
		}
	}
	switch text {
	case "int":
		return mathInt
	case "mint":
		return mathInt
	case "bool":
		return types.Typ[types.Bool]
	case "string":
		return types.Typ[types.String]
	case "byte", "uint8":
		return types.Typ[types.Uint8]
	case "rune", "int32":
		return types.Typ[types.Int32]
	case "int64":
		return types.Typ[types.Int64]
	case "uint":
		return types.Typ[types.Uint]
	case "uint64":
		return types.Typ[types.Uint64]
	case "error":
		return types.Universe.Lookup("error").Type()
	case "any":
		return types.Universe.Lookup("any").Type()
	}
	if i := strings.Index(text, "."); i >= 0 {
		pn, tn := text[:i], text[i+1:]
		for _, p := range w.pkgs {
			if p.types.Name() == pn {
				if o := p.types.Scope().Lookup(tn); o != nil {
					return o.Type()
				}
			}
		}
		if pkg != nil {
			for _, imp := range pkg.types.Imports() {
				if imp.Name() == pn {
					if o := imp.Scope().Lookup(tn); o != nil {
						return o.Type()
					}
				}
			}
		}
		// any package of the loaded program (used by the stdlib specs)
		var found types.Type
		for _, sp := range w.prog.AllPackages() {
			if sp.Pkg.Name() == pn {
				if o := sp.Pkg.Scope().Lookup(tn); o != nil {
					if _, isT := o.(*types.TypeName); isT {
						if found == nil || len(sp.Pkg.Path()) < 12 {
							found = o.Type()
						}
					}
				}
			}
		}
		if found != nil {
			return found
		}
		cfail("unknown type %s", text)
	}
	if pkg != nil {
		if o := pkg.types.Scope().Lookup(text); o != nil {
			if _, ok := o.(*types.TypeName); ok {
				return o.Type()
			}
		}
	}
	cfail("unknown type %q", text)
	return nil
}

func (e *Env) mk(s string, t types.Type) Val {
	return Val{S: s, Sort: e.w.sortOf(t), T: t}
}

// mkHeap: a value read from the (well-typed) heap carries the invariants of its type
func (e *Env) mkHeap(s string, t types.Type) Val {
	if !mentionsBound(s, e.bound) {
		for _, f := range e.w.typeFacts(s, t) {
			e.addSide(f)
		}
	}
	return e.mk(s, t)
}

func boolV(s string) Val { return Val{S: s, Sort: "Bool", T: types.Typ[types.Bool]} }
func intV(s string) Val  { return Val{S: s, Sort: "Int", T: mathInt} }

func (e *Env) tr(x CExpr) Val {
	switch n := x.(type) {
	case *CInt:
		return intV(intLit(n.V))
	case *CBool:
		if n.V {
			return boolV("true")
		}
		return boolV("false")
	case *CStr:
		return Val{S: e.w.strLit(n.V), Sort: "Str", T: types.Typ[types.String]}
	case *CNil:
		return Val{S: "nil?", Sort: "Nil"}
	case *CIdent:
		return e.ident(n.Name)
	case *CUnary:
		switch n.Op {
		case "!":
			return boolV(snot(e.trB(n.X)))
		case "-":
			return intV(app("-", e.trI(n.X)))
		case "*":
			p := e.tr(n.X)
			return e.deref(p)
		case "&":
			if e.x == nil {
				cfail("address-of in a pure context")
			}
			a, t := e.x.lvalueAddr(e, n.X)
			return Val{S: a, Sort: "Addr", T: types.NewPointer(t)}
		}
		cfail("unary %s", n.Op)
	case *CBinary:
		return e.binary(n)
	case *CCond:
		c := e.trB(n.C)
		a := e.tr(n.A)
		b := e.tr(n.B)
		a, b = e.unifyNil(a, b)
		return Val{S: site(c, a.S, b.S), Sort: a.Sort, T: a.T}
	case *CCall:
		return e.call(n)
	case *CIndex:
		return e.index(n)
	case *CSlice:
		xv := e.tr(n.X)
		lo := "0"
		if n.Lo != nil {
			lo = e.trI(n.Lo)
		}
		if xv.Sort == "Str" {
			hi := app("len", xv.S)
			if n.Hi != nil {
				hi = e.trI(n.Hi)
			}
			return Val{S: app("substr", xv.S, lo, hi), Sort: "Str", T: xv.T}
		}
		if xv.Sort == "Slice" {
			hi := app("slen", xv.S)
			if n.Hi != nil {
				hi = e.trI(n.Hi)
			}
			return Val{S: app("mk_slice", app("sarr", xv.S), app("+", app("soff", xv.S), lo), app("-", hi, lo), app("-", app("scap", xv.S), lo)), Sort: "Slice", T: xv.T}
		}
		cfail("slice of %s", xv.Sort)
	case *CField:
		return e.field(n)
	case *CQuant:
		c := e.child()
		var binders []string
		var guards []string
		for _, v := range n.Vars {
			t := e.w.resolveType(e.pkg, v.Type)
			s := e.w.sortOf(t)
			name := "q_" + v.Name
			c.vars[v.Name] = Val{S: name, Sort: s, T: t}
			c.bound[name] = true
			binders = append(binders, "("+name+" "+s+")")
			if t != mathInt {
				guards = append(guards, e.w.boundFacts(name, t)...)
			}
		}
		saved := c.side
		var inner []string
		c.side = &inner
		body := c.trB(n.Body)
		c.side = saved
		// side facts generated under the binder are dropped unless closed
		for _, f := range inner {
			if !mentionsBound(f, c.bound) {
				e.addSide(f)
			}
		}
		g := sand(guards...)
		if n.Forall {
			return boolV("(forall (" + strings.Join(binders, " ") + ") " + simplies(g, body) + ")")
		}
		return boolV("(exists (" + strings.Join(binders, " ") + ") " + sand(g, body) + ")")
	case *CLet:
		v := e.tr(n.Val)
		c := e.child()
		c.vars[n.Name] = v
		return c.tr(n.Body)
	case *CApply:
		vals := make([]Val, len(n.Args))
		for i, a := range n.Args {
			vals[i] = e.tr(a)
		}
		c := e.child()
		for i, p := range n.Params {
			c.vars[p] = vals[i]
		}
		// the body of a spec function sees only its parameters (and, if it reads the heap, the caller's heap)
		c.fr = nil
		if !n.Heap {
			c.st = nil
		}
		return c.tr(n.Body)
	}
	cfail("unsupported contract expression %T", x)
	return Val{}
}

func mentionsBound(s string, bound map[string]bool) bool {
	for b := range bound {
		if containsToken(s, b) {
			return true
		}
	}
	return false
}

func containsToken(s, tok string) bool {
	i := 0
	for {
		j := strings.Index(s[i:], tok)
		if j < 0 {
			return false
		}
		j += i
		before := j == 0 || strings.ContainsRune(" ()", rune(s[j-1]))
		after := j+len(tok) == len(s) || strings.ContainsRune(" ()", rune(s[j+len(tok)]))
		if before && after {
			return true
		}
		i = j + 1
	}
}

func (e *Env) trB(x CExpr) string {
	v := e.tr(x)
	if v.Sort != "Bool" {
		cfail("expected bool, got %s for %s", v.Sort, showExpr(x))
	}
	return v.S
}

func (e *Env) trI(x CExpr) string {
	v := e.tr(x)
	if v.Sort != "Int" {
		cfail("expected int, got %s for %s", v.Sort, showExpr(x))
	}
	return v.S
}

func showExpr(x CExpr) string { return fmt.Sprintf("%#v", x) }

func (e *Env) unifyNil(a, b Val) (Val, Val) {
	if a.Sort == "Nil" && b.Sort == "Nil" {
		cfail("nil compared with nil")
	}
	if a.Sort == "Nil" {
		a = nilOf(b)
	}
	if b.Sort == "Nil" {
		b = nilOf(a)
	}
	return a, b
}

func nilOf(v Val) Val {
	switch v.Sort {
	case "Addr":
		return Val{S: "anil", Sort: "Addr", T: v.T}
	case "Iface":
		return Val{S: "inil", Sort: "Iface", T: v.T}
	case "Slice":
		return Val{S: "(mk_slice anil 0 0 0)", Sort: "Slice", T: v.T}
	}
	cfail("nil of sort %s", v.Sort)
	return Val{}
}

func (e *Env) binary(n *CBinary) Val {
	switch n.Op {
	case "&&":
		return boolV(sand(e.trB(n.X), e.trB(n.Y)))
	case "||":
		return boolV(sor(e.trB(n.X), e.trB(n.Y)))
	case "==>":
		return boolV(simplies(e.trB(n.X), e.trB(n.Y)))
	case "<==>":
		return boolV(app("=", e.trB(n.X), e.trB(n.Y)))
	case "==", "!=":
		a, b := e.unifyNil(e.tr(n.X), e.tr(n.Y))
		if a.Sort != b.Sort {
			cfail("comparison of %s and %s", a.Sort, b.Sort)
		}
		var s string
		if a.Sort == "Slice" && (b.S == "(mk_slice anil 0 0 0)" || a.S == "(mk_slice anil 0 0 0)") {
			o := a
			if a.S == "(mk_slice anil 0 0 0)" {
				o = b
			}
			s = app("=", app("sarr", o.S), "anil")
		} else {
			s = app("=", a.S, b.S)
			if a.Sort == "Str" {
				e.noteStrEq(a.S, b.S)
			}
		}
		if n.Op == "!=" {
			s = snot(s)
		}
		return boolV(s)
	case "<", "<=", ">", ">=":
		return boolV(app(n.Op, e.trI(n.X), e.trI(n.Y)))
	case "+":
		a := e.tr(n.X)
		if a.Sort == "Str" {
			b := e.tr(n.Y)
			return Val{S: app("cat", a.S, b.S), Sort: "Str", T: a.T}
		}
		return intV(app("+", a.S, e.trI(n.Y)))
	case "++":
		a := e.tr(n.X)
		b := e.tr(n.Y)
		return Val{S: app("cat", a.S, b.S), Sort: "Str", T: a.T}
	case "-":
		return intV(app("-", e.trI(n.X), e.trI(n.Y)))
	case "*":
		return intV(app("*", e.trI(n.X), e.trI(n.Y)))
	case "/":
		// Go semantics: truncation toward zero
		a, b := e.trI(n.X), e.trI(n.Y)
		return intV(goDiv(a, b))
	case "%":
		a, b := e.trI(n.X), e.trI(n.Y)
		return intV(goRem(a, b))
	case "in":
		k := e.tr(n.X)
		m := e.tr(n.Y)
		if mt, ok := m.T.Underlying().(*types.Map); ok && e.st != nil {
			dom, _ := e.x.mapComps(e.st, mt)
			return boolV(app("select", app("select", dom, m.S), k.S))
		}
		cfail("'in' on non-map")
	}
	cfail("binary %s", n.Op)
	return Val{}
}

func goDiv(a, b string) string {
	// SMT div is floor for positive divisor (euclidean); Go truncates.
	return fmt.Sprintf("(ite (>= %s 0) (ite (> %s 0) (div %s %s) (- (div %s (- %s)))) (ite (> %s 0) (- (div (- %s) %s)) (div (- %s) (- %s))))", a, b, a, b, a, b, b, a, b, a, b)
}

func goRem(a, b string) string {
	return fmt.Sprintf("(- %s (* %s %s))", a, b, goDiv(a, b))
}

func (e *Env) ident(name string) Val {
	if v, ok := e.vars[name]; ok {
		return v
	}
	// local cell by source name (invariants / asserts), then parameters
	if e.fr != nil && e.st != nil && !e.post {
		lst := e.st
		if e.cur != nil {
			lst = e.cur // locals live in the current state even when the heap is the entry heap
		}
		if v, ok := e.x.localByName(lst, e.fr, name); ok {
			return v
		}
	}
	if e.fr != nil {
		if v, ok := e.fr.params[name]; ok {
			return v
		}
		if i := e.w.lockedParam(e.fr.fn, name); i >= 0 {
			if v, ok := e.fr.params[e.fr.fn.Params[i].Name()]; ok {
				return v
			}
		}
	}
	// package-level constant
	if e.pkg != nil {
		if o := e.pkg.types.Scope().Lookup(name); o != nil {
			if c, ok := o.(*types.Const); ok {
				return constVal(e.w, ssa.NewConst(c.Val(), c.Type()))
			}
			if gv, ok := o.(*types.Var); ok && e.x != nil {
				if g, ok2 := e.pkg.ssa.Members[name].(*ssa.Global); ok2 {
					_ = gv
					return e.x.globalAddr(g)
				}
			}
		}
	}
	if a, t, ok := e.w.ghostVar(name); ok {
		if _, isMap := t.Underlying().(*types.Map); isMap {
			return Val{S: a, Sort: "Addr", T: t}
		}
		if e.st == nil {
			cfail("ghost variable %s read in a pure context", name)
		}
		return e.mkHeap(e.w.heapLoad(e.st, a, t), t)
	}
	cfail("unknown identifier %q", name)
	return Val{}
}

func (e *Env) deref(p Val) Val {
	pt, ok := p.T.Underlying().(*types.Pointer)
	if !ok {
		cfail("deref of non-pointer")
	}
	if e.st == nil {
		cfail("heap read in pure context")
	}
	return e.mkHeap(e.w.heapLoad(e.st, p.S, pt.Elem()), pt.Elem())
}

func (e *Env) field(n *CField) Val {
	// package-qualified constant / global?
	if id, ok := n.X.(*CIdent); ok {
		if _, isVar := e.vars[id.Name]; !isVar {
			if p := e.w.pkgByName(e.pkg, id.Name); p != nil && !e.hasLocal(id.Name) {
				return e.qualified(p, n.Name)
			}
		}
	}
	xv := e.tr(n.X)
	t := xv.T
	if t == nil {
		cfail("field %s of untyped value", n.Name)
	}
	if pt, ok := t.Underlying().(*types.Pointer); ok {
		st, ok2 := pt.Elem().Underlying().(*types.Struct)
		if !ok2 {
			cfail("field of pointer to non-struct")
		}
		if e.st == nil {
			cfail("heap read in pure context")
		}
		si := e.w.structInfo(pt.Elem())
		for i := 0; i < st.NumFields(); i++ {
			if st.Field(i).Name() == n.Name {
				a := app("fld", xv.S, fmt.Sprint(si.Tags[i]))
				ft := st.Field(i).Type()
				return e.mkHeap(e.w.heapLoad(e.st, a, ft), ft)
			}
		}
		if gf := e.w.ghostField(pt.Elem(), n.Name); gf != nil {
			a := app("fld", xv.S, fmt.Sprint(gf.Tag))
			return e.mkHeap(e.w.heapLoad(e.st, a, gf.T), gf.T)
		}
		cfail("no field %s", n.Name)
	}
	if st, ok := t.Underlying().(*types.Struct); ok {
		si := e.w.structInfo(t)
		for i := 0; i < st.NumFields(); i++ {
			if st.Field(i).Name() == n.Name {
				return e.mk(selApp(si, i, xv.S), st.Field(i).Type())
			}
		}
		cfail("no field %s", n.Name)
	}
	if _, ok := t.Underlying().(*types.Interface); ok && xv.Sort == "Iface" {
		// specification-only state of the object behind an interface value (e.g. the bytes a hash.Hash has seen)
		if gf := e.w.ghostField(t, n.Name); gf != nil {
			if e.st == nil {
				cfail("heap read in pure context")
			}
			a := app("fld", app("iref", xv.S), fmt.Sprint(gf.Tag))
			return e.mkHeap(e.w.heapLoad(e.st, a, gf.T), gf.T)
		}
	}
	cfail("field %s of %s", n.Name, t)
	return Val{}
}

func (e *Env) hasLocal(name string) bool {
	if e.fr == nil {
		return false
	}
	if _, ok := e.fr.params[name]; ok {
		return true
	}
	if e.st != nil {
		if _, ok := e.x.localByName(e.st, e.fr, name); ok {
			return true
		}
	}
	return false
}

func (w *World) pkgByName(from *PkgInfo, name string) *types.Package {
	if from == nil {
		return nil
	}
	for _, imp := range from.types.Imports() {
		if imp.Name() == name {
			return imp
		}
	}
	return nil
}

func (e *Env) qualified(p *types.Package, name string) Val {
	o := p.Scope().Lookup(name)
	if o == nil {
		cfail("unknown %s.%s", p.Name(), name)
	}
	switch c := o.(type) {
	case *types.Const:
		return constVal(e.w, ssa.NewConst(c.Val(), c.Type()))
	case *types.Var:
		// global variable: its value (e.g. io.EOF)
		gv := e.x.globalValue(e.st, p.Path()+"."+name, c.Type())
		if gv.Sort == "Iface" {
			e.addSide(sand(snot(app("=", gv.S, "inil")), app("sentinel", gv.S)))
		}
		return gv
	}
	cfail("unsupported qualified identifier %s.%s", p.Name(), name)
	return Val{}
}

func (e *Env) index(n *CIndex) Val {
	xv := e.tr(n.X)
	switch xv.Sort {
	case "Str":
		i := e.trI(n.I)
		t := app("at", xv.S, i)
		if !mentionsBound(t, e.bound) {
			e.addSide(sand(app("<=", "0", t), app("<=", t, "255")))
		}
		return Val{S: t, Sort: "Int", T: types.Typ[types.Uint8]}
	case "Slice":
		i := e.trI(n.I)
		st, ok := xv.T.Underlying().(*types.Slice)
		if !ok {
			cfail("index of untyped slice")
		}
		if e.st == nil {
			cfail("heap read in pure context")
		}
		return e.mkHeap(e.w.heapLoad(e.st, app("selem", xv.S, i), st.Elem()), st.Elem())
	case "Addr":
		if mt, ok := xv.T.Underlying().(*types.Map); ok {
			// Go semantics: the zero value for a missing key (or a nil map)
			k := e.tr(n.I)
			dom, val := e.x.mapComps(e.st, mt)
			has := sand(snot(app("=", xv.S, "anil")), app("select", app("select", dom, xv.S), k.S))
			return e.mk(site(has, app("select", app("select", val, xv.S), k.S), e.w.zero(mt.Elem())), mt.Elem())
		}
	}
	if strings.HasPrefix(xv.Sort, "(Array Int") {
		at := xv.T.Underlying().(*types.Array)
		return e.mk(app("select", xv.S, e.trI(n.I)), at.Elem())
	}
	cfail("index of %s", xv.Sort)
	return Val{}
}

func (e *Env) call(n *CCall) Val {
	switch n.Fun {
	case "len":
		v := e.tr(n.Args[0])
		switch v.Sort {
		case "Str":
			return intV(app("len", v.S))
		case "Slice":
			return intV(app("slen", v.S))
		}
		cfail("len of %s", v.Sort)
	case "cap":
		v := e.tr(n.Args[0])
		return intV(app("scap", v.S))
	case "old":
		if e.old == nil {
			cfail("old() outside a function contract")
		}
		c := e.withState(e.old)
		c.post = true
		return c.tr(n.Args[0])
	case "pre":
		// pre(e): e with the heap as at function entry, locals and parameters as now
		if e.old == nil || e.st == nil {
			cfail("pre() outside a function contract")
		}
		mixed := *e.st
		mixed.heap = e.old.heap
		c := *e
		c.st = &mixed
		if c.cur == nil {
			c.cur = e.st
		}
		return c.tr(n.Args[0])
	case "entry", "at":
		// entry(e): value at entry to the current loop; at(L2.entry, e) / at(L1.head, e)
		var label string
		var arg CExpr
		if n.Fun == "entry" {
			if e.inLoop == nil {
				cfail("entry() outside a loop contract")
			}
			label = fmt.Sprintf("L%d.entry", e.inLoop.Ordinal)
			arg = n.Args[0]
		} else {
			f, ok := n.Args[0].(*CField)
			if !ok {
				cfail("at(Lk.head|entry, e) expected")
			}
			label = f.X.(*CIdent).Name + "." + f.Name
			arg = n.Args[1]
		}
		if e.st == nil {
			cfail("at() in pure context")
		}
		snap, ok := e.st.snaps[fmt.Sprintf("%d:%s", e.fr.id, label)]
		if !ok {
			cfail("no snapshot %s on this path", label)
		}
		return e.withState(snap).tr(arg)
	case "sgn":
		return intV(app("sgn", e.trI(n.Args[0])))
	case "abs":
		return intV(app("abs_", e.trI(n.Args[0])))
	case "min":
		return intV(app("min_", e.trI(n.Args[0]), e.trI(n.Args[1])))
	case "max":
		return intV(app("max_", e.trI(n.Args[0]), e.trI(n.Args[1])))
	case "chr":
		return Val{S: app("chr", e.trI(n.Args[0])), Sort: "Str", T: types.Typ[types.String]}
	case "str":
		// str(b): the string made of the bytes of b (what string(b) yields)
		v := e.tr(n.Args[0])
		if v.Sort != "Slice" || e.st == nil {
			cfail("str(b): b must be a []byte in a heap context")
		}
		_, cur := e.w.comp(e.st, "Int:uint8")
		return Val{S: app("bytes2str", cur, v.S), Sort: "Str", T: types.Typ[types.String]}
	case "itoa":
		return Val{S: app("itoa", e.trI(n.Args[0])), Sort: "Str", T: types.Typ[types.String]}
	case "ncalls", "callarg", "callres":
		// the contracted calls this activation (and what was inlined into it) has made on the path, in order
		if e.st == nil || len(n.Args) == 0 {
			cfail("%s needs a program state and the callee's name", n.Fun)
		}
		cs, ok := n.Args[0].(*CStr)
		if !ok {
			cfail("%s: the first argument is the callee's name as a string", n.Fun)
		}
		lst := e.st
		if e.cur != nil {
			lst = e.cur
		}
		recs := lst.calls[cs.V]
		if n.Fun == "ncalls" {
			if lst.callsLost {
				return Val{S: e.x.g.fresh("ncalls", "Int"), Sort: "Int", T: types.Typ[types.Int]}
			}
			return Val{S: fmt.Sprint(len(recs)), Sort: "Int", T: types.Typ[types.Int]}
		}
		if len(n.Args) != 3 {
			cfail("%s(callee, k, i)", n.Fun)
		}
		neg := false
		a1 := n.Args[1]
		if u, isU := a1.(*CUnary); isU && u.Op == "-" {
			neg, a1 = true, u.X
		}
		ki, ok1 := a1.(*CInt)
		ii, ok2 := n.Args[2].(*CInt)
		if !ok1 || !ok2 {
			cfail("%s: call ordinal and position must be literals", n.Fun)
		}
		k, _ := strconv.Atoi(ki.V)
		i, _ := strconv.Atoi(ii.V)
		if k < 0 {
			neg, k = true, -k
		}
		if neg {
			// -1 = the last call, -2 the one before it ... among the calls made since the last loop cut
			recs = lst.recent[cs.V]
			k = len(recs) + 1 - k
		}
		if k < 1 || k > len(recs) {
			// no such call on this path: an arbitrary value of the right type (nothing can be proved about it)
			sig := e.w.sigByLogKey(cs.V)
			if sig == nil {
				cfail("%s: there is no call number %d to %s on this path (%d made) and no such function in the repository", n.Fun, k, cs.V, len(recs))
			}
			var vt types.Type
			if n.Fun == "callres" && i >= 0 && i < sig.Results().Len() {
				vt = sig.Results().At(i).Type()
			} else if n.Fun == "callarg" {
				j := i
				if sig.Recv() != nil {
					if j == 0 {
						vt = sig.Recv().Type()
					}
					j--
				}
				if vt == nil && j >= 0 && j < sig.Params().Len() {
					vt = sig.Params().At(j).Type()
				}
			}
			if vt == nil {
				cfail("%s: %s has no position %d", n.Fun, cs.V, i)
			}
			so := e.w.sortOf(vt)
			return Val{S: e.x.g.fresh("nocall", so), Sort: so, T: vt}
		}
		r := recs[k-1]
		if n.Fun == "callarg" {
			if i < 0 || i >= len(r.args) {
				cfail("callarg: %s has no argument %d", cs.V, i)
			}
			return r.args[i]
		}
		if len(r.res.Tuple) > 0 {
			if i < 0 || i >= len(r.res.Tuple) {
				cfail("callres: %s has no result %d", cs.V, i)
			}
			return r.res.Tuple[i]
		}
		if i != 0 {
			cfail("callres: %s has one result", cs.V)
		}
		return r.res
	case "fresh":
		// fresh(x): x points to (is a slice over) an object allocated by this call
		v := e.tr(n.Args[0])
		base := e.freshBase
		if base == "" {
			base = "fresh0"
		}
		top := e.freshTop
		if top == "" && e.st != nil {
			top = counterNow(e.st)
		}
		below := func(o string) string {
			if top == "" {
				return "true"
			}
			return app("<", o, top)
		}
		switch v.Sort {
		case "Addr":
			return boolV(sand(snot(app("=", v.S, "anil")), app(">=", app("oid", v.S), base), below(app("oid", v.S))))
		case "Slice":
			return boolV(app("=>", snot(app("=", app("sarr", v.S), "anil")), sand(app(">=", app("oid", app("sarr", v.S)), base), below(app("oid", app("sarr", v.S))))))
		case "Iface":
			// an interface value over a newly allocated object
			return boolV(sand(snot(app("=", v.S, "inil")), snot(app("=", app("iref", v.S), "anil")), app(">=", app("oid", app("iref", v.S)), base), below(app("oid", app("iref", v.S)))))
		}
		cfail("fresh() of %s", v.Sort)
	case "allocated":
		// allocated(x): x refers to an object that exists now (so anything allocated later is a different object)
		v := e.tr(n.Args[0])
		if e.st == nil {
			cfail("allocated() in a pure context")
		}
		top := counterNow(e.st)
		switch v.Sort {
		case "Addr":
			return boolV(app("<", app("oid", v.S), top))
		case "Slice":
			return boolV(app("<", app("oid", app("sarr", v.S)), top))
		case "Iface":
			return boolV(app("<", app("oid", app("iref", v.S)), top))
		}
		cfail("allocated() of %s", v.Sort)
	case "ranged":
		// ranged(): the slice a `for ... range` loop iterates over (evaluated once before the loop)
		if e.inLoop == nil || e.st == nil || e.fr == nil {
			cfail("ranged() outside a loop contract")
		}
		for _, in := range e.inLoop.Head.Instrs {
			if b, ok := in.(*ssa.BinOp); ok {
				if c, isCall := b.Y.(*ssa.Call); isCall {
					if bi, isB := c.Call.Value.(*ssa.Builtin); isB && bi.Name() == "len" && len(c.Call.Args) == 1 {
						if v, have := e.fr.vals[c.Call.Args[0]]; have {
							return v
						}
					}
				}
			}
		}
		cfail("ranged(): the loop is not a range over a slice")
	case "visited":
		// visited(k): key k has been handed out by the map range of the current loop
		if e.inLoop == nil || e.st == nil {
			cfail("visited() outside a map-range loop contract")
		}
		rg := mapRangeOf(e.inLoop)
		if rg == nil || e.st.iters == nil || e.st.iters[rg] == "" {
			cfail("visited(): the loop is not a map range")
		}
		k := e.tr(n.Args[0])
		return boolV(app("select", e.st.iters[rg], k.S))
	case "sentinel":
		// sentinel(e): e is one of the package-level error values (io.EOF, ...), not an error made by Errorf/New
		v := e.tr(n.Args[0])
		return boolV(app("sentinel", v.S))
	case "isnil":
		v := e.tr(n.Args[0])
		return boolV(app("=", v.S, nilOf(v).S))
	case "has":
		m := e.tr(n.Args[0])
		k := e.tr(n.Args[1])
		mt, ok := m.T.Underlying().(*types.Map)
		if !ok || e.st == nil {
			cfail("has(m,k): m is not a map (or pure context)")
		}
		dom, _ := e.x.mapComps(e.st, mt)
		return boolV(sand(snot(app("=", m.S, "anil")), app("select", app("select", dom, m.S), k.S)))
	case "mention":
		return boolV("true")
	}
	if fv, ok := e.vars[n.Fun]; ok && fv.Fn != nil && e.x != nil {
		var args []Val
		for _, a := range n.Args {
			args = append(args, e.tr(a))
		}
		return e.x.applyPure(e, fv, args)
	}
	if sf, ok := e.w.specs[n.Fun]; ok {
		if len(n.Args) != len(sf.Params) {
			cfail("spec function %s: %d args, want %d", n.Fun, len(n.Args), len(sf.Params))
		}
		var args []string
		for i, a := range n.Args {
			v := e.tr(a)
			pt := e.w.resolveType(e.w.specPkg[n.Fun], sf.Params[i].Type)
			if v.Sort == "Nil" {
				v = nilOf(Val{Sort: e.w.sortOf(pt)})
			}
			if v.Sort != e.w.sortOf(pt) {
				cfail("spec function %s arg %d: sort %s, want %s", n.Fun, i, v.Sort, e.w.sortOf(pt))
			}
			args = append(args, v.S)
		}
		rt := e.w.resolveType(e.w.specPkg[n.Fun], sf.Result)
		if sf.Heap {
			if e.st == nil {
				cfail("heap-reading spec function %s used in a pure context", n.Fun)
			}
			var hargs []string
			for _, c := range e.w.heapComps(sf) {
				hargs = append(hargs, e.w.compByName(e.st, c))
			}
			args = append(hargs, args...)
		}
		return e.mk(app("spec_"+n.Fun, args...), rt)
	}
	if n.Fun == "box" && len(n.Args) == 1 {
		// box(p): the interface value holding the pointer p (what passing p to an interface-typed parameter builds)
		v := e.tr(n.Args[0])
		if v.Sort != "Addr" || v.T == nil {
			cfail("box(): a typed pointer is expected")
		}
		return Val{S: app("iface", fmt.Sprint(e.w.typeID(v.T)), "0", v.S), Sort: "Iface", T: types.NewInterfaceType(nil, nil)}
	}
	if (n.Fun == "as" || n.Fun == "is" || n.Fun == "unbox") && len(n.Args) == 2 {
		// is(x, T): the interface value x holds a T;  as(x, *T): the pointer it holds;  unbox(x, T): the (non-pointer)
		// value it holds - both meaningful when is(x, T)
		v := e.tr(n.Args[0])
		if v.Sort != "Iface" {
			cfail("%s(): first argument is not an interface value", n.Fun)
		}
		var ty types.Type
		if u, isPtr := n.Args[1].(*CUnary); isPtr && u.Op == "*" {
			ty = types.NewPointer(e.w.resolveType(e.pkg, typeNameOf(u.X)))
		} else {
			ty = e.w.resolveType(e.pkg, typeNameOf(n.Args[1]))
		}
		_, isPtr := ty.Underlying().(*types.Pointer)
		switch n.Fun {
		case "is":
			return boolV(sand(snot(app("=", v.S, "inil")), app("=", app("tid", v.S), fmt.Sprint(e.w.typeID(ty)))))
		case "as":
			if !isPtr {
				cfail("as(x, *T): a pointer type is expected (use unbox for values)")
			}
			return Val{S: app("iref", v.S), Sort: "Addr", T: ty}
		default:
			if isPtr || e.st == nil {
				cfail("unbox(x, T): a non-pointer type and a heap context are expected")
			}
			return e.mkHeap(e.w.heapLoad(e.st, app("iref", v.S), ty), ty)
		}
	}
	if n.Fun == "mk" && len(n.Args) >= 1 {
		// mk(Type, field values...): struct value
		tn := typeNameOf(n.Args[0])
		t := e.w.resolveType(e.pkg, tn)
		st, ok := t.Underlying().(*types.Struct)
		if !ok || st.NumFields() != len(n.Args)-1 {
			cfail("mk(%s, ...): not a struct type with %d fields", tn, len(n.Args)-1)
		}
		si := e.w.structInfo(t)
		var fs []string
		for i, a := range n.Args[1:] {
			v := e.tr(a)
			if v.Sort == "Nil" {
				v = nilOf(Val{Sort: si.Fields[i]})
			}
			if v.Sort != si.Fields[i] {
				cfail("mk(%s): field %d has sort %s, want %s", tn, i, v.Sort, si.Fields[i])
			}
			fs = append(fs, v.S)
		}
		return e.mk(e.w.mkStruct(si, fs), t)
	}
	cfail("unknown function %q in contract", n.Fun)
	return Val{}
}

// noteStrEq adds the extensionality instance for a string equality occurring in a contract.
func (e *Env) noteStrEq(a, b string) {
	if mentionsBound(a, e.bound) || mentionsBound(b, e.bound) || a == b {
		return
	}
	e.addSide(strExt(a, b))
}

func strExt(a, b string) string {
	return fmt.Sprintf("(=> (and (= (len %s) (len %s)) (forall ((k!e Int)) (=> (and (<= 0 k!e) (< k!e (len %s))) (= (at %s k!e) (at %s k!e))))) (= %s %s))", a, b, a, a, b, a, b)
}

// expandGoal splits a goal into independently provable pieces: conjunctions, implications with a conjunctive
// conclusion, and applications of non-recursive boolean spec functions (unfolded once).
func (w *World) expandGoal(e CExpr, depth int) []CExpr {
	switch n := e.(type) {
	case *CBinary:
		switch n.Op {
		case "&&":
			return append(w.expandGoal(n.X, depth), w.expandGoal(n.Y, depth)...)
		case "==>":
			ys := w.expandGoal(n.Y, depth)
			if len(ys) == 1 {
				return []CExpr{e}
			}
			var out []CExpr
			for _, y := range ys {
				out = append(out, &CBinary{"==>", n.X, y})
			}
			return out
		}
	case *CCall:
		if sf, ok := w.specs[n.Fun]; ok && depth < 3 && sf.Body != nil && sf.Result == "bool" && !mentionsCall(sf.Body, sf.Name) && len(n.Args) == len(sf.Params) {
			parts := w.expandGoal(sf.Body, depth+1)
			if len(parts) == 1 {
				return []CExpr{e}
			}
			var ps []string
			for _, p := range sf.Params {
				ps = append(ps, p.Name)
			}
			var out []CExpr
			for _, p := range parts {
				out = append(out, &CApply{Params: ps, Args: n.Args, Body: p, Heap: sf.Heap})
			}
			return out
		}
	case *CApply:
		parts := w.expandGoal(n.Body, depth)
		if len(parts) == 1 {
			return []CExpr{e}
		}
		var out []CExpr
		for _, p := range parts {
			out = append(out, &CApply{Params: n.Params, Args: n.Args, Body: p, Heap: n.Heap})
		}
		return out
	}
	return []CExpr{e}
}

func typeNameOf(e CExpr) string {
	switch n := e.(type) {
	case *CIdent:
		return n.Name
	case *CField:
		return typeNameOf(n.X) + "." + n.Name
	case *CUnary:
		if n.Op == "*" {
			return "*" + typeNameOf(n.X)
		}
	}
	cfail("type name expected")
	return ""
}

// heapComps: the heap components a heap-reading spec function (transitively) reads, discovered by translating its
// body against a formal heap.
func (w *World) heapComps(sf *SpecFunc) []string {
	if cs, ok := w.specHeap[sf.Name]; ok {
		return cs
	}
	if w.specHeapBusy[sf.Name] {
		return nil // recursive call during discovery
	}
	w.specHeapBusy[sf.Name] = true
	defer delete(w.specHeapBusy, sf.Name)
	st := &State{heap: map[string]string{}, snaps: map[string]*State{}, formal: true}
	pkg := w.specPkg[sf.Name]
	env := &Env{w: w, pkg: pkg, vars: map[string]Val{}, bound: map[string]bool{}, st: st, x: w.pureExec(pkg)}
	for _, p := range sf.Params {
		t := w.resolveType(pkg, p.Type)
		name := "a_" + p.Name
		env.vars[p.Name] = Val{S: name, Sort: w.sortOf(t), T: t}
		env.bound[name] = true
	}
	if sf.Body != nil {
		env.tr(sf.Body)
	}
	if sf.Decreases != nil {
		env.tr(sf.Decreases)
	}
	var cs []string
	for c := range st.heap {
		cs = append(cs, c)
	}
	sort.Strings(cs)
	w.specHeap[sf.Name] = cs
	return cs
}

// pureExec: an executor shell for contexts without a function under verification (map component access etc.)
func (w *World) pureExec(pkg *PkgInfo) *Exec {
	return &Exec{w: w, g: newGen(w), pkg: pkg, used: map[string]bool{}, inlined: map[string]bool{}, havocked: map[string]bool{}, localM: map[*ssa.Alloc]bool{}, plans: map[*ssa.Function]*lazyPlan{}}
}
