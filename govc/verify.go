package main

import (
	"fmt"
	"go/types"
	"sort"
	"strings"

	"golang.org/x/tools/go/ssa"
)

type FuncResult struct {
	Func     string
	Label    string
	Obls     []*Obligation
	Err      string
	Used     []string
	Inlined  []string
	Havocked []string
	Notes    []string
	Gen      *Gen
	Called   []*ssa.Function
}

// verifyFunc generates the obligations of one function for one behaviour label ("" = safety).
func (w *World) verifyFunc(pkg *PkgInfo, fn *ssa.Function, fc *FuncContract, label string) (res *FuncResult) {
	x := &Exec{w: w, g: newGen(w), pkg: pkg, fn: fn, fc: fc, label: label, sites: map[ssa.Instruction]string{},
		localM: map[*ssa.Alloc]bool{}, maxNodes: 20000, used: map[string]bool{}, inlined: map[string]bool{},
		havocked: map[string]bool{}, called: map[*ssa.Function]bool{}, inputs: map[string]string{}, inputTypes: map[string]types.Type{}, plans: map[*ssa.Function]*lazyPlan{}}
	res = &FuncResult{Func: fn.RelString(fn.Pkg.Pkg), Label: label, Gen: x.g}
	defer func() {
		res.Obls = x.obls
		res.Used = keys(x.used)
		res.Inlined = keys(x.inlined)
		res.Havocked = keys(x.havocked)
		res.Notes = x.notes
		for f := range x.called {
			res.Called = append(res.Called, f)
		}
		if r := recover(); r != nil {
			switch e := r.(type) {
			case unsupported:
				res.Err = "unsupported: " + e.msg
			case cerr:
				res.Err = "contract error: " + e.msg
			default:
				panic(r)
			}
		}
	}()
	if fn.Blocks == nil {
		res.Err = "no body"
		return
	}
	x.g.named("fresh0", "Int")
	fr := x.newFrame(fn, nil)
	fr.fc = fc
	st := &State{top: fr, heap: map[string]string{}, snaps: map[string]*State{}}
	st.assume("(>= fresh0 0)")
	for _, p := range fn.Params {
		s := w.sortOf(p.Type())
		name := x.g.named("in_"+sanitize(p.Name()), s)
		v := Val{S: name, Sort: s, T: p.Type()}
		for _, f := range w.typeFacts(name, p.Type()) {
			st.assume(f)
		}
		for _, f := range w.ptrFacts(name, p.Type()) {
			st.assume(f)
		}
		fr.vals[p] = v
		fr.params[p.Name()] = v
		x.inputs[p.Name()] = name
		x.inputTypes[p.Name()] = p.Type()
	}
	env := x.envFor(st, fr)
	env.post = true
	for _, c := range fc.Requires {
		if !x.activeClause(c) {
			continue
		}
		x.assumeClause(st, env, c)
	}
	fr.entry = st.clone()
	fr.entry.top.entry = fr.entry
	x.emitCover(st, "entry")
	for _, r := range x.execFunc(st, fr) {
		x.checkPost(r.st, r.res)
	}
	return
}

func keys(m map[string]bool) []string {
	var out []string
	for k := range m {
		out = append(out, k)
	}
	sort.Strings(out)
	return out
}

func (x *Exec) checkPost(st *State, results []Val) {
	fr := st.top
	env := x.envFor(st, fr)
	env.post = true
	var rv Val
	if len(results) == 1 {
		rv = results[0]
	} else if len(results) > 1 {
		rv = Val{Tuple: results, Sort: "Tuple"}
	}
	bindResults(env, x.fn.Signature, rv)
	x.emitCover(st, "return")
	for i, c := range x.fc.Ensures {
		if !x.activeClause(c) {
			continue
		}
		if x.label != "" && c.Label == "" {
			continue
		}
		x.proveClause(st, env, c, "POST", clauseSite("ens", i, c))
	}
	if x.label == "" {
		x.checkFrame(st, env)
	}
	_ = env
}

// checkFrame: every heap component changed by the function agrees with the entry heap outside the modifies set,
// for every address that existed at entry (fresh objects are the function's own).
func (x *Exec) checkFrame(st *State, env *Env) {
	for _, fg := range x.frameGoals(st, st.top, func(name string) string { return x.g.fresh("framep", "Addr") }) {
		x.emit(st, "FRAME", fg.comp, fg.formula, "memory outside the modifies clause is unchanged")
	}
}

type frameGoal struct {
	comp    string
	cur     string
	formula string
}

// frameGoals: for every heap component that differs from its value at function entry, the statement that it agrees
// with the entry heap at every address p that existed at entry and is outside the function's modifies clause.
func (x *Exec) frameGoals(st *State, fr *Frame, pvar func(comp string) string) []frameGoal {
	if x.fc == nil || x.fc.ModAny || fr.parent != nil || fr.entry == nil {
		return nil
	}
	entry := fr.entry
	env := x.envFor(st, fr)
	eenv := env.withState(entry)
	eenv.post = true
	type mod struct {
		addr string
		t    types.Type
		elem bool
		mp   bool
	}
	var mods []mod
	for _, m := range x.fc.Modifies {
		if c, ok := m.(*CCall); ok && (c.Fun == "elems" || c.Fun == "mapof") {
			v := eenv.tr(c.Args[0])
			mods = append(mods, mod{addr: v.S, t: v.T, elem: c.Fun == "elems", mp: c.Fun == "mapof"})
			continue
		}
		a, t := x.lvalueAddr(eenv, m)
		mods = append(mods, mod{addr: a, t: t})
	}
	var names []string
	for name := range st.heap {
		names = append(names, name)
	}
	sort.Strings(names)
	var out []frameGoal
	for _, name := range names {
		cur := st.heap[name]
		old, ok := entry.heap[name]
		if !ok {
			old = name + "_0"
		}
		if cur == old {
			continue
		}
		p := pvar(name)
		var excl []string
		if strings.HasPrefix(name, "MD_") || strings.HasPrefix(name, "MV_") {
			for _, m := range mods {
				if m.mp {
					excl = append(excl, snot(app("=", p, m.addr)))
				}
			}
			hyp := sand(append(excl, app("<", app("oid", p), "fresh0"))...)
			out = append(out, frameGoal{name, cur, simplies(hyp, app("=", app("select", cur, p), app("select", old, p)))})
			continue
		}
		for _, m := range mods {
			if m.mp {
				continue
			}
			if m.elem {
				excl = append(excl, snot(app("=", app("oid", p), app("oid", app("sarr", m.addr)))))
				continue
			}
			x.leafAddrs(m.addr, m.t, func(a string, lt types.Type) {
				if compName(x.w.compKey(lt)) == name {
					excl = append(excl, snot(app("=", p, a)))
				}
			})
		}
		hyp := sand(append(excl, app("<", app("oid", p), "fresh0"), snot(app("=", p, "anil")))...)
		out = append(out, frameGoal{name, cur, simplies(hyp, app("=", app("select", cur, p), app("select", old, p)))})
	}
	return out
}

func (x *Exec) leafAddrs(a string, t types.Type, f func(a string, t types.Type)) {
	switch u := t.Underlying().(type) {
	case *types.Struct:
		si := x.w.structInfo(t)
		for i := range si.Fields {
			x.leafAddrs(app("fld", a, fmt.Sprint(si.Tags[i])), u.Field(i).Type(), f)
		}
	case *types.Array:
	default:
		f(a, t)
	}
}

// ---------- lemmas and spec functions ----------

type pureCtx struct {
	w           *World
	g           *Gen
	pkg         *PkgInfo
	obls        []*Obligation
	name        string
	hyps        []string
	selfMeasure string
	ncall       int
	nassert     int
}

func (pc *pureCtx) emit(hyps []string, kind, site, goal, src string) {
	if goal == "true" {
		return
	}
	for i, g := range splitConj(goal) {
		s := site
		if i > 0 {
			s = fmt.Sprintf("%s.%d", site, i+1)
		}
		pc.obls = append(pc.obls, &Obligation{Name: fmt.Sprintf("%s.%s#%s#%s", pc.pkg.types.Name(), pc.name, kind, s), Kind: kind, Func: pc.name, Src: src,
			Goal: g, Hyps: append([]string(nil), hyps...)})
	}
}

// lemmaInstance returns the formula (requires => ensures) of a lemma at the given arguments.
func (w *World) lemmaInstance(env *Env, lm *Lemma, args []CExpr) string {
	if len(args) != len(lm.Params) {
		cfail("lemma %s: %d args, want %d", lm.Name, len(args), len(lm.Params))
	}
	c := &Env{x: env.x, w: w, pkg: w.lemmaPkg[lm.Name], vars: map[string]Val{}, bound: env.bound, side: env.side}
	if lm.Heap {
		if env.st == nil {
			cfail("heap-reading lemma %s applied in a pure context", lm.Name)
		}
		c.st = env.st
	}
	for i, p := range lm.Params {
		v := env.tr(args[i])
		pt := w.resolveType(c.pkg, p.Type)
		if v.Sort == "Nil" {
			v = nilOf(Val{Sort: w.sortOf(pt)})
		}
		if v.Sort != w.sortOf(pt) {
			cfail("lemma %s arg %d: sort %s, want %s", lm.Name, i, v.Sort, w.sortOf(pt))
		}
		v.T = pt
		c.vars[p.Name] = v
	}
	var req, ens []string
	for _, r := range lm.Requires {
		req = append(req, c.trB(r.E))
	}
	for _, r := range lm.Ensures {
		ens = append(ens, c.trB(r.E))
	}
	return simplies(sand(req...), sand(ens...))
}

// byHints turns a ghost block into hypotheses (lemma instances guarded by their path conditions).
func (x *Exec) byHints(env *Env, stmts []CStmt) []string {
	return x.w.ghostHyps(env, stmts, nil, nil)
}

// ghostHyps evaluates ghost statements. Lemma calls become hypotheses; asserts become obligations through pc (if any).
func (w *World) ghostHyps(env *Env, stmts []CStmt, pc *pureCtx, self *Lemma) []string {
	var hyps []string
	cur := env
	for _, s := range stmts {
		if pc == nil {
			// hint mode: a hint that refers to a snapshot which does not exist on this path is skipped
			if h, ok := w.tryHint(cur, s); ok {
				hyps = append(hyps, h...)
			}
			continue
		}
		switch n := s.(type) {
		case *SCall:
			lm, ok := w.lemmas[n.Fun]
			if !ok {
				cfail("unknown lemma %q", n.Fun)
			}
			if pc != nil && self != nil {
				if lm == self {
					// recursive call = induction hypothesis; admitted only with a smaller measure
					if self.Decreases == nil {
						cfail("recursive lemma %s without decreases", self.Name)
					}
					c := &Env{x: cur.x, w: w, pkg: w.lemmaPkg[lm.Name], vars: map[string]Val{}, bound: cur.bound, side: cur.side, st: cur.st}
					for i, p := range lm.Params {
						v := cur.tr(n.Args[i])
						v.T = w.resolveType(c.pkg, p.Type)
						c.vars[p.Name] = v
					}
					nv := c.trI(self.Decreases)
					ov := pc.selfMeasure
					pc.emit(append(append([]string(nil), pc.hyps...), hyps...), "LEMMA-DECREASES", fmt.Sprintf("call%d", pc.ncall), sand(app("<", nv, ov), app("<=", "0", ov)), "induction hypothesis at a smaller measure")
					pc.ncall++
				} else if !pc.declaredBefore(lm, self) {
					cfail("lemma %s uses %s, which is not declared before it", self.Name, lm.Name)
				}
			}
			hyps = append(hyps, w.lemmaInstance(cur, lm, n.Args))
		case *SAssert:
			g := cur.trB(n.E)
			if pc != nil {
				pc.emit(append(append([]string(nil), pc.hyps...), hyps...), "ASSERT", fmt.Sprintf("a%d", pc.nassert), g, n.Src)
				pc.nassert++
			}
			hyps = append(hyps, g)
		case *SForall:
			hyps = append(hyps, w.forallHyps(cur, n)...)
		case *SLet:
			v := cur.tr(n.E)
			cur = cur.child()
			cur.vars[n.Name] = v
		case *SIf:
			c := cur.trB(n.Cond)
			var saved []string
			if pc != nil {
				saved = pc.hyps
				pc.hyps = append(append(append([]string(nil), pc.hyps...), hyps...), c)
			}
			th := w.ghostHyps(cur, n.Then, pc, self)
			if pc != nil {
				pc.hyps = append(append(append([]string(nil), saved...), hyps...), snot(c))
			}
			el := w.ghostHyps(cur, n.Else, pc, self)
			if pc != nil {
				pc.hyps = saved
			}
			if len(th) > 0 {
				hyps = append(hyps, simplies(c, sand(th...)))
			}
			if len(el) > 0 {
				hyps = append(hyps, simplies(snot(c), sand(el...)))
			}
		}
	}
	return hyps
}

func (w *World) verifyLemma(pkg *PkgInfo, lm *Lemma) (res *FuncResult) {
	g := newGen(w)
	pc := &pureCtx{w: w, g: g, pkg: pkg, name: "lemma:" + lm.Name}
	res = &FuncResult{Func: pc.name, Gen: g}
	defer func() {
		res.Obls = pc.obls
		if r := recover(); r != nil {
			switch e := r.(type) {
			case unsupported:
				res.Err = "unsupported: " + e.msg
			case cerr:
				res.Err = "contract error: " + e.msg
			default:
				panic(r)
			}
		}
	}()
	if lm.Axiom {
		return
	}
	var side []string
	env := &Env{w: w, pkg: pkg, vars: map[string]Val{}, bound: map[string]bool{}, side: &side}
	if lm.Heap {
		env.st = &State{heap: map[string]string{}, snaps: map[string]*State{}, formal: true}
		env.x = w.pureExec(pkg)
		env.x.g = g
	}
	var hyps []string
	for _, p := range lm.Params {
		t := w.resolveType(pkg, p.Type)
		s := w.sortOf(t)
		name := g.named("p_"+p.Name, s)
		env.vars[p.Name] = Val{S: name, Sort: s, T: t}
		if t != mathInt {
			hyps = append(hyps, w.typeFacts(name, t)...)
		}
	}
	for _, r := range lm.Requires {
		hyps = append(hyps, env.trB(r.E))
	}
	pc.hyps = hyps
	if lm.Decreases != nil {
		pc.selfMeasure = env.trI(lm.Decreases)
	}
	body := w.ghostHyps(env, lm.Body, pc, lm)
	all := append(append([]string(nil), hyps...), body...)
	for i, e := range lm.Ensures {
		goal := env.trB(e.E)
		hy := append([]string(nil), all...)
		hy = append(hy, side...)
		pc.emit(hy, "LEMMA", clauseSite("ens", i, e), goal, e.Src)
	}
	// side facts apply to all obligations of the lemma
	for _, o := range pc.obls {
		o.Hyps = append(o.Hyps, side...)
	}
	if lm.Heap {
		// the formal heap components are constants of the lemma's obligations
		for c := range env.st.heap {
			g.named("hp_"+c, compArraySort(c, w.compSorts[c]))
		}
	}
	return
}

func (pc *pureCtx) declaredBefore(callee, self *Lemma) bool {
	// same file: by line; different package files: allowed
	if pc.w.lemmaPkg[callee.Name] != pc.w.lemmaPkg[self.Name] {
		return true
	}
	return callee.Line < self.Line
}

// verifySpec proves termination of a recursive spec function: at every recursive call, under the conditions
// guarding it, the measure decreases and is non-negative.
func (w *World) verifySpec(pkg *PkgInfo, sf *SpecFunc) (res *FuncResult) {
	g := newGen(w)
	pc := &pureCtx{w: w, g: g, pkg: pkg, name: "spec:" + sf.Name}
	res = &FuncResult{Func: pc.name, Gen: g}
	defer func() {
		res.Obls = pc.obls
		if r := recover(); r != nil {
			switch e := r.(type) {
			case unsupported:
				res.Err = "unsupported: " + e.msg
			case cerr:
				res.Err = "contract error: " + e.msg
			default:
				panic(r)
			}
		}
	}()
	if sf.Body == nil || !mentionsCall(sf.Body, sf.Name) {
		return
	}
	if sf.Decreases == nil {
		cfail("recursive spec function %s needs a decreases clause", sf.Name)
	}
	env := &Env{w: w, pkg: pkg, vars: map[string]Val{}, bound: map[string]bool{}}
	if sf.Heap {
		env.st = &State{heap: map[string]string{}, snaps: map[string]*State{}, formal: true}
		env.x = w.pureExec(pkg)
		for _, c := range w.heapComps(sf) {
			g.named("hp_"+c, compArraySort(c, w.compSorts[c]))
		}
	}
	for _, p := range sf.Params {
		t := w.resolveType(pkg, p.Type)
		s := w.sortOf(t)
		name := g.named("p_"+p.Name, s)
		env.vars[p.Name] = Val{S: name, Sort: s, T: t}
	}
	ov := env.trI(sf.Decreases)
	n := 0
	var walk func(e CExpr, env *Env, conds []string)
	walk = func(e CExpr, env *Env, conds []string) {
		switch x := e.(type) {
		case *CCall:
			for _, a := range x.Args {
				walk(a, env, conds)
			}
			if x.Fun == sf.Name {
				c := env.child()
				for i, p := range sf.Params {
					c.vars[p.Name] = env.tr(x.Args[i])
				}
				// the measure is evaluated on the callee's parameters
				c2 := &Env{w: w, pkg: pkg, vars: map[string]Val{}, bound: env.bound, st: env.st, x: env.x}
				for _, p := range sf.Params {
					c2.vars[p.Name] = c.vars[p.Name]
				}
				nv := c2.trI(sf.Decreases)
				pc.emit(conds, "SPEC-DECREASES", fmt.Sprintf("call%d", n), sand(app("<", nv, ov), app("<=", "0", ov)), "recursive spec function is well founded")
				n++
			}
		case *CCond:
			walk(x.C, env, conds)
			c := env.trB(x.C)
			walk(x.A, env, append(append([]string(nil), conds...), c))
			walk(x.B, env, append(append([]string(nil), conds...), snot(c)))
		case *CBinary:
			switch x.Op {
			case "&&", "==>":
				walk(x.X, env, conds)
				walk(x.Y, env, append(append([]string(nil), conds...), env.trB(x.X)))
			case "||":
				walk(x.X, env, conds)
				walk(x.Y, env, append(append([]string(nil), conds...), snot(env.trB(x.X))))
			default:
				walk(x.X, env, conds)
				walk(x.Y, env, conds)
			}
		case *CUnary:
			walk(x.X, env, conds)
		case *CIndex:
			walk(x.X, env, conds)
			walk(x.I, env, conds)
		case *CSlice:
			walk(x.X, env, conds)
			if x.Lo != nil {
				walk(x.Lo, env, conds)
			}
			if x.Hi != nil {
				walk(x.Hi, env, conds)
			}
		case *CField:
			walk(x.X, env, conds)
		case *CLet:
			walk(x.Val, env, conds)
			c := env.child()
			c.vars[x.Name] = env.tr(x.Val)
			walk(x.Body, c, conds)
		case *CQuant:
			if mentionsCall(x.Body, sf.Name) {
				cfail("recursive call of %s under a quantifier", sf.Name)
			}
		}
	}
	walk(sf.Body, env, nil)
	return
}

func mentionsCall(e CExpr, name string) bool {
	found := false
	var walk func(e CExpr)
	walk = func(e CExpr) {
		switch x := e.(type) {
		case *CCall:
			if x.Fun == name {
				found = true
			}
			for _, a := range x.Args {
				walk(a)
			}
		case *CCond:
			walk(x.C)
			walk(x.A)
			walk(x.B)
		case *CBinary:
			walk(x.X)
			walk(x.Y)
		case *CUnary:
			walk(x.X)
		case *CIndex:
			walk(x.X)
			walk(x.I)
		case *CSlice:
			walk(x.X)
			if x.Lo != nil {
				walk(x.Lo)
			}
			if x.Hi != nil {
				walk(x.Hi)
			}
		case *CField:
			walk(x.X)
		case *CLet:
			walk(x.Val)
			walk(x.Body)
		case *CQuant:
			walk(x.Body)
		}
	}
	walk(e)
	return found
}

// specDefinition returns the SMT definition of a spec function and the names of spec functions it mentions.
func (w *World) specDefinition(sf *SpecFunc) (def string, deps []string) {
	if d, ok := w.specDefs[sf.Name]; ok {
		return d, w.specDeps[sf.Name]
	}
	pkg := w.specPkg[sf.Name]
	env := &Env{w: w, pkg: pkg, vars: map[string]Val{}, bound: map[string]bool{}}
	var ps []string
	var sorts []string
	if sf.Heap {
		env.st = &State{heap: map[string]string{}, snaps: map[string]*State{}, formal: true}
		env.x = w.pureExec(pkg)
		for _, c := range w.heapComps(sf) {
			srt := compArraySort(c, w.compSorts[c])
			ps = append(ps, "(hp_"+c+" "+srt+")")
			sorts = append(sorts, srt)
			env.bound["hp_"+c] = true
		}
	}
	for _, p := range sf.Params {
		t := w.resolveType(pkg, p.Type)
		s := w.sortOf(t)
		name := "a_" + p.Name
		env.vars[p.Name] = Val{S: name, Sort: s, T: t}
		env.bound[name] = true
		ps = append(ps, "("+name+" "+s+")")
		sorts = append(sorts, s)
	}
	rt := w.resolveType(pkg, sf.Result)
	rs := w.sortOf(rt)
	if sf.Body == nil {
		def = fmt.Sprintf("(declare-fun spec_%s (%s) %s)\n", sf.Name, strings.Join(sorts, " "), rs)
		for _, ax := range sf.Axioms {
			def += fmt.Sprintf("(assert (forall (%s) (! %s :pattern ((spec_%s %s)))))\n", strings.Join(ps, " "), env.trB(ax.E), sf.Name, strings.Join(paramNames(sf), " "))
		}
	} else {
		body := env.tr(sf.Body)
		if body.Sort != rs {
			cfail("spec function %s: body has sort %s, declared %s", sf.Name, body.Sort, rs)
		}
		kw := "define-fun"
		if mentionsCall(sf.Body, sf.Name) {
			kw = "define-fun-rec"
		}
		def = fmt.Sprintf("(%s spec_%s (%s) %s %s)\n", kw, sf.Name, strings.Join(ps, " "), rs, body.S)
	}
	for name := range w.specs {
		if name != sf.Name && containsToken(def, "spec_"+name) {
			deps = append(deps, name)
		}
	}
	sort.Strings(deps)
	w.specDefs[sf.Name] = def
	w.specDeps[sf.Name] = deps
	return
}

func paramNames(sf *SpecFunc) []string {
	var out []string
	for _, p := range sf.Params {
		out = append(out, "a_"+p.Name)
	}
	return out
}

// autoLemmaAxiom renders a proved auto lemma as a quantified hypothesis with its trigger.
func (w *World) autoLemmaAxiom(lm *Lemma) string {
	pkg := w.lemmaPkg[lm.Name]
	env := &Env{w: w, pkg: pkg, vars: map[string]Val{}, bound: map[string]bool{}}
	var ps []string
	if lm.Heap {
		env.st = &State{heap: map[string]string{}, snaps: map[string]*State{}, formal: true}
		env.x = w.pureExec(pkg)
	}
	for _, p := range lm.Params {
		t := w.resolveType(pkg, p.Type)
		s := w.sortOf(t)
		name := "l_" + p.Name
		env.vars[p.Name] = Val{S: name, Sort: s, T: t}
		env.bound[name] = true
		ps = append(ps, "("+name+" "+s+")")
	}
	var req, ens []string
	for _, r := range lm.Requires {
		req = append(req, env.trB(r.E))
	}
	for _, r := range lm.Ensures {
		ens = append(ens, env.trB(r.E))
	}
	var pats []string
	for _, t := range lm.Trigger {
		pats = append(pats, env.tr(t).S)
	}
	body := simplies(sand(req...), sand(ens...))
	if lm.Heap {
		var hs []string
		for c := range env.st.heap {
			hs = append(hs, c)
		}
		sort.Strings(hs)
		var hps []string
		for _, c := range hs {
			hps = append(hps, "(hp_"+c+" "+compArraySort(c, w.compSorts[c])+")")
		}
		ps = append(hps, ps...)
	}
	if len(pats) == 0 {
		return fmt.Sprintf("(assert (forall (%s) %s))\n", strings.Join(ps, " "), body)
	}
	return fmt.Sprintf("(assert (forall (%s) (! %s :pattern (%s))))\n", strings.Join(ps, " "), body, strings.Join(pats, " "))
}

func (w *World) tryHint(env *Env, s CStmt) (hyps []string, ok bool) {
	defer func() {
		if r := recover(); r != nil {
			if ce, isC := r.(cerr); isC && (strings.Contains(ce.msg, "no snapshot") || strings.Contains(ce.msg, "unknown identifier")) {
				// the hint talks about a snapshot or a local that does not exist on this path: not applicable here
				ok = false
				return
			}
			panic(r)
		}
	}()
	switch n := s.(type) {
	case *SCall:
		lm, found := w.lemmas[n.Fun]
		if !found {
			cfail("unknown lemma %q", n.Fun)
		}
		return []string{w.lemmaInstance(env, lm, n.Args)}, true
	case *SAssert:
		if env.hint == nil || env.x == nil || len(env.bound) > 0 {
			cfail("assert is not allowed in this by-hint")
		}
		var side []string
		e2 := *env
		e2.side = &side
		g := e2.trB(n.E)
		s2 := env.hint.st.clone()
		for _, f := range side {
			s2.assume(f)
		}
		for _, f := range env.hint.guards {
			s2.assume(f)
		}
		*env.hint.n++
		env.x.emit(s2, "ASSERT", fmt.Sprintf("%s.a%d", env.hint.site, *env.hint.n), g, n.Src)
		if env.side != nil {
			*env.side = append(*env.side, side...)
		}
		return []string{g}, true
	case *SIf:
		c := env.trB(n.Cond)
		var out []string
		te, ee := env, env
		if env.hint != nil {
			t2, f2 := *env, *env
			th, eh := *env.hint, *env.hint
			th.guards = append(append([]string(nil), env.hint.guards...), c)
			eh.guards = append(append([]string(nil), env.hint.guards...), snot(c))
			t2.hint, f2.hint = &th, &eh
			te, ee = &t2, &f2
		}
		th := w.ghostHyps(te, n.Then, nil, nil)
		el := w.ghostHyps(ee, n.Else, nil, nil)
		if len(th) > 0 {
			out = append(out, simplies(c, sand(th...)))
		}
		if len(el) > 0 {
			out = append(out, simplies(snot(c), sand(el...)))
		}
		return out, true
	case *SLet:
		cfail("let is not allowed in a by-hint")
	case *SForall:
		return w.forallHyps(env, n), true
	}
	return nil, true
}

// forallHyps: forall-introduction over the lemma instances of the body.
func (w *World) forallHyps(env *Env, n *SForall) []string {
	c := env.child()
	var binders, guards []string
	for _, v := range n.Vars {
		t := w.resolveType(env.pkg, v.Type)
		s := w.sortOf(t)
		name := "q_" + v.Name
		c.vars[v.Name] = Val{S: name, Sort: s, T: t}
		c.bound[name] = true
		binders = append(binders, "("+name+" "+s+")")
		if t != mathInt {
			guards = append(guards, w.boundFacts(name, t)...)
		}
	}
	body := w.ghostHyps(c, n.Body, nil, nil)
	if len(body) == 0 {
		return nil
	}
	return []string{"(forall (" + strings.Join(binders, " ") + ") " + simplies(sand(guards...), sand(body...)) + ")"}
}

// ptrFacts: every pointer (slice, map, interface payload) inside a value that exists at function entry refers to an
// object that exists at entry.
func (w *World) ptrFacts(v string, t types.Type) []string {
	var out []string
	switch u := t.Underlying().(type) {
	case *types.Pointer, *types.Map, *types.Chan:
		out = append(out, app("=>", snot(app("=", v, "anil")), sand(app("<", app("oid", v), "fresh0"), app(">=", app("oid", v), "0"))))
	case *types.Slice:
		out = append(out, app("=>", snot(app("=", app("sarr", v), "anil")), sand(app("<", app("oid", app("sarr", v)), "fresh0"), app(">=", app("oid", app("sarr", v)), "0"))))
	case *types.Interface:
		out = append(out, app("=>", sand(snot(app("=", v, "inil")), snot(app("=", app("iref", v), "anil"))), sand(app("<", app("oid", app("iref", v)), "fresh0"), app(">=", app("oid", app("iref", v)), "0"))))
	case *types.Struct:
		si := w.structInfo(t)
		for i := range si.Fields {
			out = append(out, w.ptrFacts(selApp(si, i, v), u.Field(i).Type())...)
		}
	}
	return out
}
