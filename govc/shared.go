package main

// Static SHARED obligations (C18, "no state shared between calls"): no function of a package - outside its
// initialiser - writes memory that is reachable from a package-level variable. One obligation per function, decided
// by a scan of its SSA: a store, map update, delete or copy whose target address derives from a global (directly,
// through field/index addressing, or through a pointer, map or slice that was loaded from such memory) fails it.
// Not covered (stated in the evidence): writes through a global-derived pointer that was first passed to another
// function as an argument, and state kept behind library calls (sync.Pool, caches of the standard library).

import (
	"fmt"
	"go/types"
	"sort"
	"strings"

	"golang.org/x/tools/go/ssa"
)

func pointerLike(t types.Type) bool {
	switch t.Underlying().(type) {
	case *types.Pointer, *types.Map, *types.Slice, *types.Chan, *types.Interface, *types.Signature:
		return true
	}
	return false
}

func globalDerived(v ssa.Value, seen map[ssa.Value]bool) (bool, string) {
	if seen[v] {
		return false, ""
	}
	seen[v] = true
	switch n := v.(type) {
	case *ssa.Global:
		return true, n.Name()
	case *ssa.FieldAddr:
		return globalDerived(n.X, seen)
	case *ssa.IndexAddr:
		return globalDerived(n.X, seen)
	case *ssa.Slice:
		return globalDerived(n.X, seen)
	case *ssa.ChangeType:
		return globalDerived(n.X, seen)
	case *ssa.Convert:
		return globalDerived(n.X, seen)
	case *ssa.MakeInterface:
		return globalDerived(n.X, seen)
	case *ssa.TypeAssert:
		return globalDerived(n.X, seen)
	case *ssa.UnOp:
		if n.Op.String() == "*" && pointerLike(n.Type()) {
			return globalDerived(n.X, seen)
		}
	case *ssa.Field:
		if pointerLike(n.Type()) {
			return globalDerived(n.X, seen)
		}
	case *ssa.Lookup:
		if pointerLike(n.Type()) || n.CommaOk {
			return globalDerived(n.X, seen)
		}
	case *ssa.Index:
		if pointerLike(n.Type()) {
			return globalDerived(n.X, seen)
		}
	case *ssa.Extract:
		if pointerLike(n.Type()) {
			return globalDerived(n.Tuple, seen)
		}
	case *ssa.Phi:
		for _, e := range n.Edges {
			if ok, g := globalDerived(e, seen); ok {
				return true, g
			}
		}
	}
	return false, ""
}

func (w *World) verifyNoSharedWrites(pi *PkgInfo) *FuncResult {
	res := &FuncResult{Func: "shared:" + pi.types.Name(), Gen: newGen(w)}
	var fns []*ssa.Function
	var add func(f *ssa.Function)
	seenF := map[*ssa.Function]bool{}
	add = func(f *ssa.Function) {
		if f == nil || seenF[f] || f.Blocks == nil || f.Synthetic != "" {
			return
		}
		seenF[f] = true
		fns = append(fns, f)
		for _, a := range f.AnonFuncs {
			add(a)
		}
	}
	for _, f := range pi.funcs {
		if f.Pkg == nil || f.Pkg.Pkg != pi.types {
			continue
		}
		if f.Name() == "init" || strings.HasPrefix(f.Name(), "init#") {
			continue
		}
		add(f)
	}
	sort.Slice(fns, func(i, j int) bool { return fns[i].String() < fns[j].String() })
	for _, f := range fns {
		var why []string
		for _, b := range f.Blocks {
			for _, in := range b.Instrs {
				var target ssa.Value
				what := ""
				switch n := in.(type) {
				case *ssa.Store:
					target, what = n.Addr, "store"
				case *ssa.MapUpdate:
					target, what = n.Map, "map update"
				case *ssa.Call:
					if bi, ok := n.Call.Value.(*ssa.Builtin); ok && len(n.Call.Args) > 0 {
						switch bi.Name() {
						case "delete", "copy", "clear":
							target, what = n.Call.Args[0], bi.Name()
						}
					}
				}
				if target == nil {
					continue
				}
				if ok, g := globalDerived(target, map[ssa.Value]bool{}); ok {
					why = append(why, fmt.Sprintf("%s into memory of the package-level variable %s", what, g))
				}
			}
		}
		o := &Obligation{Name: f.RelString(nil) + "#SHARED#globals", Kind: "SHARED", Func: f.RelString(nil),
			Src: "outside the package initialiser nothing writes memory reachable from a package-level variable", Solver: "static", pi: pi}
		o.Name = strings.ReplaceAll(o.Name, "pault.ag/go/debian/", "")
		if len(why) == 0 {
			o.Status = "discharged"
		} else {
			o.Status = "failed"
			o.Reason = strings.Join(why, "; ")
		}
		res.Obls = append(res.Obls, o)
	}
	res.Notes = append(res.Notes, "SHARED obligations are a per-function scan: a write through a global-derived pointer that was first handed to another function, and state behind library calls, are not seen")
	return res
}
