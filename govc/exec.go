package main

// Symbolic execution of SSA (NaiveForm) functions: generation of proof obligations.

import (
	"fmt"
	"go/token"
	"go/types"
	"sort"
	"strings"

	"golang.org/x/tools/go/ssa"
)

type Obligation struct {
	Name   string   `json:"name"`
	Kind   string   `json:"kind"`
	Func   string   `json:"func"`
	Label  string   `json:"label,omitempty"`
	Src    string   `json:"src,omitempty"`
	Path   string   `json:"path,omitempty"`
	Hyps   []string `json:"-"`
	Goal   string   `json:"-"`
	Decls  map[string]string `json:"-"`
	Status string   `json:"status,omitempty"` // discharged | failed | cover-ok | cover-vacuous
	Solver string   `json:"solver,omitempty"`
	Time   float64  `json:"time_s,omitempty"`
	Model  string   `json:"model,omitempty"`
	Reason string   `json:"reason,omitempty"`
	Cover  bool     `json:"cover,omitempty"`
	Retried bool    `json:"retried,omitempty"` // decided only in the second, unhurried pass
	Inputs map[string]string `json:"inputs,omitempty"` // term for each parameter, to extract models
	Query  string   `json:"-"`
	InputTypes map[string]types.Type `json:"-"`
	fn     *ssa.Function
	pi     *PkgInfo
}

type Exec struct {
	w        *World
	g        *Gen
	pkg      *PkgInfo
	fn       *ssa.Function
	fc       *FuncContract
	label    string
	obls     []*Obligation
	frameCtr int
	sites    map[ssa.Instruction]string
	localM   map[*ssa.Alloc]bool
	nodes    int
	maxNodes int
	used     map[string]bool // trusted contracts used
	inlined  map[string]bool
	havocked map[string]bool // uncontracted callees treated as havoc
	called   map[*ssa.Function]bool // callees whose (non-trusted) contract was applied
	curCall  ssa.CallInstruction   // the call a contract is being applied to (for modifies pointee(p))
	curSig   *types.Signature
	pureMode int             // >0 while evaluating a pure closure application: no obligations
	inputs   map[string]string
	inputTypes map[string]types.Type
	notes    []string
	plans    map[*ssa.Function]*lazyPlan
}

func (x *Exec) emit(st *State, kind, site, goal, src string) {
	if x.pureMode > 0 {
		return
	}
	if goal == "true" {
		return
	}
	fname := x.fn.RelString(x.fn.Pkg.Pkg)
	name := fmt.Sprintf("%s.%s#%s#%s", x.fn.Pkg.Pkg.Name(), fname, kind, site)
	o := &Obligation{Name: name, Kind: kind, Func: fname, Label: x.label, Src: src, Goal: goal,
		Hyps: append([]string(nil), st.pc...), Path: describePath(st.path), Inputs: x.inputs, InputTypes: x.inputTypes, fn: x.fn, pi: x.pkg}
	x.obls = append(x.obls, o)
}

func (x *Exec) emitCover(st *State, site string) {
	if x.pureMode > 0 {
		return
	}
	fname := x.fn.RelString(x.fn.Pkg.Pkg)
	name := fmt.Sprintf("%s.%s#COVER#%s", x.fn.Pkg.Pkg.Name(), fname, site)
	o := &Obligation{Name: name, Kind: "COVER", Func: fname, Label: x.label, Goal: "false", Cover: true,
		Hyps: append([]string(nil), st.pc...), Path: describePath(st.path), Inputs: x.inputs}
	x.obls = append(x.obls, o)
}

func (x *Exec) siteOf(in ssa.Instruction, kind string) string {
	// ordinal of this instruction among instructions of the enclosing function, in block order
	fn := in.Parent()
	key := fn.Name()
	n := 0
	for _, b := range fn.Blocks {
		for _, i := range b.Instrs {
			if i == in {
				if fn == x.fn {
					return fmt.Sprintf("%d", n)
				}
				return fmt.Sprintf("%s/%d", key, n)
			}
			if sameKind(i, in) {
				n++
			}
		}
	}
	return "?"
}

func sameKind(a, b ssa.Instruction) bool {
	return fmt.Sprintf("%T", a) == fmt.Sprintf("%T", b)
}

// ---------- frames, values ----------

func (x *Exec) newFrame(fn *ssa.Function, parent *Frame) *Frame {
	x.frameCtr++
	f := &Frame{fn: fn, vals: map[ssa.Value]Val{}, cells: map[*ssa.Alloc]Val{}, parent: parent, id: x.frameCtr,
		params: map[string]Val{}, loopVar: map[int][]string{}}
	f.li = analyzeLoops(fn)
	if parent != nil {
		f.depth = parent.depth + 1
	}
	return f
}

func (x *Exec) frameByID(st *State, id int) *Frame {
	for f := st.top; f != nil; f = f.parent {
		if f.id == id {
			return f
		}
	}
	return nil
}

func (x *Exec) val(st *State, v ssa.Value) Val {
	fr := st.top
	switch c := v.(type) {
	case *ssa.Const:
		return constVal(x.w, c)
	case *ssa.Global:
		return x.globalAddr(c)
	case *ssa.Function:
		return Val{S: fmt.Sprint(x.w.typeID(types.NewPointer(c.Signature)) + funcID(c)), Sort: "Int", T: c.Type(), Fn: c}
	case *ssa.Builtin:
		return Val{S: "0", Sort: "Int", T: c.Type()}
	}
	if val, ok := fr.vals[v]; ok {
		return val
	}
	if fv, ok := v.(*ssa.FreeVar); ok {
		unsup("free variable %s outside closure application", fv.Name())
	}
	unsup("value %s (%T) not computed on this path", v.Name(), v)
	return Val{}
}

var funcIDs = map[*ssa.Function]int{}

func funcID(f *ssa.Function) int {
	if id, ok := funcIDs[f]; ok {
		return id
	}
	id := 1000 + len(funcIDs)
	funcIDs[f] = id
	return id
}

func (x *Exec) globalAddr(g *ssa.Global) Val {
	name := "glob_" + sanitize(g.Pkg.Pkg.Path()+"."+g.Name())
	sym := x.g.named(name, "Int")
	return Val{S: app("loc", app("-", "0", "1", sym), "pnil"), Sort: "Addr", T: g.Type()}
}

// globalValue gives the value of a package-level variable that is treated as immutable (sentinel errors).
func (x *Exec) globalValue(st *State, full string, t types.Type) Val {
	name := "gval_" + sanitize(full)
	s := x.w.sortOf(t)
	x.g.named(name, s)
	return Val{S: name, Sort: s, T: t}
}

func (x *Exec) isLocalMode(a *ssa.Alloc) bool {
	if v, ok := x.localM[a]; ok {
		return v
	}
	ok := !a.Heap && localUses(a)
	x.localM[a] = ok
	return ok
}

func localUses(v ssa.Value) bool {
	refs := v.Referrers()
	if refs == nil {
		return true
	}
	for _, r := range *refs {
		switch u := r.(type) {
		case *ssa.Store:
			if u.Val == v {
				return false
			}
		case *ssa.UnOp:
			if u.Op != token.MUL {
				return false
			}
		case *ssa.FieldAddr:
			if !localUses(u) {
				return false
			}
		case *ssa.IndexAddr:
			if u.X != v || !localUses(u) {
				return false
			}
		case *ssa.DebugRef:
		default:
			return false
		}
	}
	return true
}

func (x *Exec) allocObj(st *State) string {
	a := app("loc", app("+", "fresh0", fmt.Sprint(st.nobj)), "pnil")
	if st.nobjBase != "" {
		a = app("loc", app("+", st.nobjBase, fmt.Sprint(st.nobj)), "pnil")
	}
	st.nobj++
	return a
}

// load through a pointer value
func (x *Exec) load(st *State, p Val, t types.Type) Val {
	if p.Place != nil {
		fr := x.frameByID(st, p.Place.FrameID)
		if fr == nil {
			unsup("place in dead frame")
		}
		cell, ok := fr.cells[p.Place.Alloc]
		if !ok {
			unsup("read of unallocated local %s", p.Place.Alloc.Comment)
		}
		cur := cell.S
		ct := cell.T
		for _, pe := range p.Place.Path {
			if pe.Field >= 0 {
				si := x.w.structInfo(ct)
				cur = selApp(si, pe.Field, cur)
				ct = ct.Underlying().(*types.Struct).Field(pe.Field).Type()
			} else {
				cur = app("select", cur, pe.Index)
				ct = ct.Underlying().(*types.Array).Elem()
			}
		}
		return Val{S: cur, Sort: x.w.sortOf(ct), T: ct, Fn: cell.Fn, Bind: cell.Bind, Place: cellPlace(cell, p)}
	}
	term := x.w.heapLoad(st, p.S, t)
	// the heap is well typed: a loaded value satisfies the invariants of its type
	for _, f := range x.w.typeFacts(term, t) {
		st.assume(f)
	}
	return Val{S: term, Sort: x.w.sortOf(t), T: t}
}

func cellPlace(cell Val, p Val) *Place {
	if len(p.Place.Path) == 0 {
		return cell.Place
	}
	return nil
}

func (x *Exec) store(st *State, p Val, t types.Type, v Val) {
	if p.Place != nil {
		fr := x.frameByID(st, p.Place.FrameID)
		if fr == nil {
			unsup("place in dead frame")
		}
		cell := fr.cells[p.Place.Alloc]
		if len(p.Place.Path) == 0 {
			nv := v
			nv.T = cell.T
			if nv.T == nil {
				nv.T = t
			}
			nv.Sort = x.w.sortOf(nv.T)
			fr.cells[p.Place.Alloc] = nv
			return
		}
		cell.S = x.updatePath(cell.S, cell.T, p.Place.Path, v.S)
		cell.Fn = nil
		cell.Place = nil
		fr.cells[p.Place.Alloc] = cell
		return
	}
	x.w.heapStore(st, p.S, t, v.S)
}

func (x *Exec) updatePath(cur string, ct types.Type, path []PathElem, v string) string {
	if len(path) == 0 {
		return v
	}
	pe := path[0]
	if pe.Field >= 0 {
		si := x.w.structInfo(ct)
		ft := ct.Underlying().(*types.Struct).Field(pe.Field).Type()
		inner := x.updatePath(selApp(si, pe.Field, cur), ft, path[1:], v)
		return x.w.structUpdate(si, cur, pe.Field, inner)
	}
	et := ct.Underlying().(*types.Array).Elem()
	inner := x.updatePath(app("select", cur, pe.Index), et, path[1:], v)
	return app("store", cur, pe.Index, inner)
}

func (x *Exec) localByName(st *State, fr *Frame, name string) (Val, bool) {
	want := name
	ord := 0
	if i := strings.Index(name, "#"); i >= 0 {
		want = name[:i]
		fmt.Sscanf(name[i+1:], "%d", &ord)
	}
	var cands []*ssa.Alloc
	for _, b := range fr.fn.Blocks {
		for _, in := range b.Instrs {
			if a, ok := in.(*ssa.Alloc); ok && a.Comment == want {
				cands = append(cands, a)
			}
		}
	}
	if len(cands) == 0 {
		// the name may have been renamed in the code since the contracts were accepted
		cands = x.w.lockedAllocs(fr.fn, want)
	}
	if len(cands) == 0 {
		return Val{}, false
	}
	if ord > 0 {
		if ord > len(cands) {
			return Val{}, false
		}
		cands = cands[ord-1 : ord]
	}
	var live []*ssa.Alloc
	for _, a := range cands {
		if _, ok := fr.cells[a]; ok {
			live = append(live, a)
		} else if _, ok := fr.vals[a]; ok {
			live = append(live, a)
		}
	}
	if len(live) == 0 {
		return Val{}, false
	}
	if len(live) > 1 {
		cfail("local name %q is ambiguous (%d live declarations): use %s#k", name, len(live), want)
	}
	a := live[0]
	et := a.Type().Underlying().(*types.Pointer).Elem()
	if x.isLocalMode(a) {
		return x.load(st, Val{Place: &Place{FrameID: fr.id, Alloc: a}}, et), true
	}
	return x.load(st, fr.vals[a], et), true
}

// localAddrByName: address and type of a heap-mode local variable.
func (x *Exec) localAddrByName(st *State, fr *Frame, name string) (string, types.Type, bool) {
	for f := st.top; f != nil; f = f.parent {
		if f.id == fr.id {
			fr = f
		}
	}
	found := false
	for _, b := range fr.fn.Blocks {
		for _, in := range b.Instrs {
			if a, ok := in.(*ssa.Alloc); ok && a.Comment == name {
				found = true
				if !x.isLocalMode(a) {
					if v, have := fr.vals[a]; have {
						return v.S, a.Type().Underlying().(*types.Pointer).Elem(), true
					}
				}
			}
		}
	}
	if !found {
		for _, a := range x.w.lockedAllocs(fr.fn, name) {
			if !x.isLocalMode(a) {
				if v, have := fr.vals[a]; have {
					return v.S, a.Type().Underlying().(*types.Pointer).Elem(), true
				}
			}
		}
	}
	return "", nil, false
}

// ---------- running ----------

type runCtx struct {
	b    *ssa.BasicBlock
	prev *ssa.BasicBlock
}

func (x *Exec) budget() {
	x.nodes++
	if x.nodes > x.maxNodes {
		unsup("execution tree exceeds %d nodes", x.maxNodes)
	}
}

type retState struct {
	st  *State
	res []Val
}

type arrival struct {
	st   *State
	from *ssa.BasicBlock
}

// funcRun holds the worklist of one activation: states waiting at block entries.
type funcRun struct {
	fr      *Frame
	pending map[*ssa.BasicBlock][]arrival
	rets    []retState
}

// execFunc runs one activation to completion and returns the states at its return instructions.
// Blocks are processed in topological order of the loop-cut CFG; states arriving at the same block with the same
// store are merged (their path conditions are joined by a disjunction), which keeps the number of paths linear in
// the number of sequential loops and guards.
func (x *Exec) execFunc(st *State, fr *Frame) []retState {
	fn := fr.fn
	run := &funcRun{fr: fr, pending: map[*ssa.BasicBlock][]arrival{}}
	run.pending[fn.Blocks[0]] = []arrival{{st, nil}}
	for _, b := range topoBlocks(fn, fr.li) {
		arr := run.pending[b]
		if len(arr) == 0 {
			continue
		}
		delete(run.pending, b)
		var sts []*State
		for _, a := range arr {
			sts = append(sts, a.st)
		}
		sts = mergeStates(sts)
		for _, s := range sts {
			if l := fr.li.ByHead[b]; l != nil {
				x.enterLoop(s, l)
			}
			x.execBlock(run, s, b, 0)
		}
	}
	return run.rets
}

func topoBlocks(fn *ssa.Function, li *LoopInfo) []*ssa.BasicBlock {
	// reverse postorder of the CFG without back edges
	seen := map[*ssa.BasicBlock]bool{}
	var post []*ssa.BasicBlock
	var dfs func(b *ssa.BasicBlock)
	dfs = func(b *ssa.BasicBlock) {
		seen[b] = true
		for _, s := range b.Succs {
			if s.Dominates(b) {
				continue // back edge
			}
			if !seen[s] {
				dfs(s)
			}
		}
		post = append(post, b)
	}
	dfs(fn.Blocks[0])
	for i, j := 0, len(post)-1; i < j; i, j = i+1, j-1 {
		post[i], post[j] = post[j], post[i]
	}
	return post
}

// mergeStates joins states with identical stores.
func mergeStates(sts []*State) []*State {
	var out []*State
	for _, s := range sts {
		merged := false
		for _, t := range out {
			if sameStore(s, t) {
				joinPC(t, s)
				merged = true
				break
			}
		}
		if !merged {
			out = append(out, s)
		}
	}
	return out
}

func sameStore(a, b *State) bool {
	if a.nobj != b.nobj || a.nobjBase != b.nobjBase || len(a.heap) != len(b.heap) {
		return false
	}
	for k, v := range a.heap {
		if b.heap[k] != v {
			return false
		}
	}
	fa, fb := a.top, b.top
	for fa != nil && fb != nil {
		if fa.id != fb.id || len(fa.cells) != len(fb.cells) || len(fa.defers) != len(fb.defers) {
			return false
		}
		for k, v := range fa.cells {
			w, ok := fb.cells[k]
			if !ok || w.S != v.S {
				return false
			}
		}
		for k, v := range fa.vals {
			if w, ok := fb.vals[k]; ok && !sameVal(v, w) {
				return false
			}
		}
		for k, v := range fa.loopVar {
			w := fb.loopVar[k]
			if strings.Join(v, ";") != strings.Join(w, ";") {
				return false
			}
		}
		fa, fb = fa.parent, fb.parent
	}
	if fa != nil || fb != nil {
		return false
	}
	if a.callsLost != b.callsLost || !sameLog(a.calls, b.calls) || !sameLog(a.recent, b.recent) {
		return false
	}
	if len(a.snaps) != len(b.snaps) {
		return false
	}
	for k, v := range a.snaps {
		if b.snaps[k] != v {
			return false
		}
	}
	return true
}

func sameLog(a, b map[string][]callRec) bool {
	if len(a) != len(b) {
		return false
	}
	for k, v := range a {
		w := b[k]
		if len(w) != len(v) {
			return false
		}
		for i := range v {
			if !sameVal(v[i].res, w[i].res) || len(v[i].args) != len(w[i].args) {
				return false
			}
			for j := range v[i].args {
				if !sameVal(v[i].args[j], w[i].args[j]) {
					return false
				}
			}
		}
	}
	return true
}

func sameVal(a, b Val) bool {
	if a.S != b.S || len(a.Tuple) != len(b.Tuple) || a.Fn != b.Fn {
		return false
	}
	if (a.Place == nil) != (b.Place == nil) {
		return false
	}
	if a.Place != nil && (a.Place.Alloc != b.Place.Alloc || a.Place.FrameID != b.Place.FrameID || len(a.Place.Path) != len(b.Place.Path)) {
		return false
	}
	for i := range a.Tuple {
		if !sameVal(a.Tuple[i], b.Tuple[i]) {
			return false
		}
	}
	return true
}

// joinPC replaces t's path condition by (common prefix) + (suffix_t or suffix_s); values computed on only one of
// the paths are kept.
func joinPC(t, s *State) {
	n := 0
	for n < len(t.pc) && n < len(s.pc) && t.pc[n] == s.pc[n] {
		n++
	}
	st := sand(t.pc[n:]...)
	ss := sand(s.pc[n:]...)
	t.pc = append(append([]string(nil), t.pc[:n]...), sor(st, ss))
	if len(t.pc) > 0 && t.pc[len(t.pc)-1] == "true" {
		t.pc = t.pc[:len(t.pc)-1]
	}
	// path description: keep the common prefix
	m := 0
	for m < len(t.path) && m < len(s.path) && t.path[m] == s.path[m] {
		m++
	}
	t.path = append(append([]string(nil), t.path[:m]...), "(merged)")
	fa, fb := t.top, s.top
	for fa != nil && fb != nil {
		for k, v := range fb.vals {
			if _, ok := fa.vals[k]; !ok {
				fa.vals[k] = v
			}
		}
		fa, fb = fa.parent, fb.parent
	}
}

func (x *Exec) execBlock(run *funcRun, st *State, b *ssa.BasicBlock, idx int) {
	x.budget()
	fr := st.top
	for i := idx; i < len(b.Instrs); i++ {
		in := b.Instrs[i]
		x.applyZeroReqs(st, in)
		switch n := in.(type) {
		case *ssa.If:
			c := x.val(st, n.Cond)
			switch c.S {
			case "true":
				x.jump(run, st, b, b.Succs[0])
			case "false":
				x.jump(run, st, b, b.Succs[1])
			default:
				s2 := st.clone()
				st.assume(c.S)
				st.path = append(st.path, fmt.Sprintf("b%d:T", b.Index))
				s2.assume(snot(c.S))
				s2.path = append(s2.path, fmt.Sprintf("b%d:F", b.Index))
				x.jump(run, st, b, b.Succs[0])
				x.jump(run, s2, b, b.Succs[1])
			}
			return
		case *ssa.Jump:
			x.jump(run, st, b, b.Succs[0])
			return
		case *ssa.Return:
			var res []Val
			for _, r := range n.Results {
				res = append(res, x.val(st, r))
			}
			run.rets = append(run.rets, retState{st, res})
			return
		case *ssa.Panic:
			x.emit(st, "UNREACHABLE", x.siteOf(in, "panic"), "false", "explicit panic")
			return
		case *ssa.Call:
			rets, inlined := x.call(st, n, &n.Call, n)
			if inlined {
				for _, r := range rets {
					x.execBlock(run, r.st, b, i+1)
				}
				return
			}
			if st.dead {
				return
			}
			x.nameResult(st, in)
			x.abbrevHeap(st)
		default:
			x.step(st, in)
			if st.dead {
				return
			}
			x.nameResult(st, in)
		}
	}
	_ = fr
}

const nameThreshold = 48

// nameResult abbreviates a long term by a fresh constant (v = term is added to the path condition); this keeps
// the queries small and lets the solvers share sub-terms.
func (x *Exec) nameResult(st *State, in ssa.Instruction) {
	v, ok := in.(ssa.Value)
	if !ok {
		return
	}
	val, ok := st.top.vals[v]
	if !ok {
		return
	}
	st.top.vals[v] = x.abbrev(st, val, v.Name())
}

func (x *Exec) abbrev(st *State, val Val, hint string) Val {
	if x.pureMode > 0 {
		return val // terms may mention bound variables of the enclosing contract
	}
	if len(val.Tuple) > 0 {
		for i := range val.Tuple {
			val.Tuple[i] = x.abbrev(st, val.Tuple[i], hint)
		}
		return val
	}
	if val.Place != nil || val.S == "" || len(val.S) < nameThreshold || val.Sort == "" || val.Sort == "Tuple" {
		return val
	}
	if mentionsBound(val.S, map[string]bool{"k!z": true, "p!z": true}) {
		return val
	}
	n := x.g.fresh("v_"+hint, val.Sort)
	st.assume(app("=", n, val.S))
	val.S = n
	return val
}

func (x *Exec) abbrevHeap(st *State) {
	if x.pureMode > 0 {
		return
	}
	for name, cur := range st.heap {
		if len(cur) > 160 {
			srt, ok := x.w.compSorts[name]
			if !ok {
				continue
			}
			n := x.g.fresh(name, compArraySort(name, srt))
			st.assume(app("=", n, cur))
			st.heap[name] = n
		}
	}
}

func (x *Exec) jump(run *funcRun, st *State, from, to *ssa.BasicBlock) {
	fr := st.top
	// phis are evaluated on arrival
	for _, in := range to.Instrs {
		phi, ok := in.(*ssa.Phi)
		if !ok {
			break
		}
		for k, p := range to.Preds {
			if p == from {
				fr.vals[phi] = x.val(st, phi.Edges[k])
			}
		}
	}
	if l := fr.li.ByHead[to]; l != nil && l.Blocks[from] {
		lc := x.loopContract(fr, l)
		st.path = append(st.path, fmt.Sprintf("L%d:back", l.Ordinal))
		x.checkInvariants(st, fr, l, lc, "INV-STEP")
		x.checkVariant(st, fr, l, lc)
		return
	}
	run.pending[to] = append(run.pending[to], arrival{st, from})
}

func (x *Exec) enterLoop(st *State, l *Loop) {
	fr := st.top
	lc := x.loopContract(fr, l)
	st.path = append(st.path, fmt.Sprintf("L%d:enter", l.Ordinal))
	st.snaps[fmt.Sprintf("%d:L%d.entry", fr.id, l.Ordinal)] = st.clone()
	x.checkInvariants(st, fr, l, lc, "INV-ENTRY")
	x.havocLoop(st, fr, l, lc)
	x.assumeInvariants(st, fr, l, lc)
	st.snaps[fmt.Sprintf("%d:L%d.head", fr.id, l.Ordinal)] = st.clone()
	x.recordVariant(st, fr, l, lc)
	x.emitCover(st, fmt.Sprintf("loop%d.head", l.Ordinal))
}

func (x *Exec) loopContract(fr *Frame, l *Loop) *LoopContract {
	if fr.fc != nil {
		if lc, ok := fr.fc.Loops[l.Ordinal]; ok {
			return lc
		}
	}
	return &LoopContract{Ordinal: l.Ordinal}
}

func (x *Exec) envFor(st *State, fr *Frame) *Env {
	top := fr
	e := &Env{x: x, w: x.w, pkg: x.w.pkgOf(fr.fn), vars: map[string]Val{}, st: st, fr: fr, bound: map[string]bool{}}
	if top.entry != nil {
		e.old = top.entry
	}
	return e
}

func (x *Exec) activeClause(c Clause) bool {
	return c.Label == "" || c.Label == x.label
}

// proveClause emits an obligation for a contract clause in state st. Conjunctions are split.
func (x *Exec) proveClause(st *State, env *Env, c Clause, kind, site string) {
	henv := *env
	henv.post = false
	var hside []string
	henv.side = &hside
	nassert := 0
	henv.hint = &hintCtx{st: st, site: site, n: &nassert}
	hy := x.byHints(&henv, c.By)
	parts := x.w.expandGoal(c.E, 0)
	if c.Split != nil {
		if q, ok := c.E.(*CQuant); ok && q.Forall {
			parts = []CExpr{
				&CQuant{Forall: true, Vars: q.Vars, Body: &CBinary{"==>", c.Split, q.Body}},
				&CQuant{Forall: true, Vars: q.Vars, Body: &CBinary{"==>", &CUnary{"!", c.Split}, q.Body}},
			}
		}
	}
	n := 0
	for _, part := range parts {
		var side []string
		env.side = &side
		goal := x.trClause(env, part, c.Src)
		s2 := st
		if len(side) > 0 || len(hy) > 0 || len(hside) > 0 {
			s2 = st.clone()
			for _, f := range hside {
				s2.assume(f)
			}
			for _, f := range side {
				s2.assume(f)
			}
			for _, f := range hy {
				s2.assume(f)
			}
		}
		for _, g := range splitConj(goal) {
			s := site
			if n > 0 {
				s = fmt.Sprintf("%s.%d", site, n+1)
			}
			n++
			x.emit(s2, kind, s, g, c.Src)
		}
	}
}

func splitConj(g string) []string {
	if !strings.HasPrefix(g, "(and ") {
		return []string{g}
	}
	return splitArgs(g[5 : len(g)-1])
}

// splitArgs splits a space-separated list of s-expressions.
func splitArgs(s string) []string {
	var out []string
	d := 0
	start := -1
	for i := 0; i < len(s); i++ {
		c := s[i]
		switch c {
		case '(':
			if d == 0 && start < 0 {
				start = i
			}
			d++
		case ')':
			d--
			if d == 0 {
				out = append(out, s[start:i+1])
				start = -1
			}
		case ' ', '\n', '\t':
			if d == 0 && start >= 0 {
				out = append(out, s[start:i])
				start = -1
			}
		default:
			if d == 0 && start < 0 {
				start = i
			}
		}
	}
	if start >= 0 {
		out = append(out, s[start:])
	}
	return out
}

func (x *Exec) trClause(env *Env, e CExpr, src string) (out string) {
	defer func() {
		if r := recover(); r != nil {
			if ce, ok := r.(cerr); ok {
				panic(cerr{fmt.Sprintf("in clause `%s`: %s", src, ce.msg)})
			}
			panic(r)
		}
	}()
	return env.trB(e)
}

func (x *Exec) assumeClause(st *State, env *Env, c Clause) {
	var side []string
	env.side = &side
	f := x.trClause(env, c.E, c.Src)
	for _, s := range side {
		st.assume(s)
	}
	st.assume(f)
}

func clauseSite(prefix string, i int, c Clause) string {
	if c.Name != "" {
		return prefix + c.Name
	}
	return fmt.Sprintf("%s%d", prefix, i+1)
}

func (x *Exec) checkInvariants(st *State, fr *Frame, l *Loop, lc *LoopContract, kind string) {
	if x.label == "" && x.pureMode == 0 {
		// implicit invariant: the loop respects the function's modifies clause
		for _, fg := range x.frameGoals(st, fr, func(name string) string { return x.g.fresh("framep", "Addr") }) {
			x.emit(st, "FRAME", fmt.Sprintf("loop%d.%s.%s", l.Ordinal, strings.ToLower(strings.TrimPrefix(kind, "INV-")), fg.comp), fg.formula, "memory outside the modifies clause is unchanged (implicit loop invariant)")
		}
	}
	env := x.envFor(st, fr)
	env.inLoop = l
	for i, c := range lc.Invariants {
		if !x.activeClause(c) {
			continue
		}
		if x.label != "" && c.Label == "" {
			continue // proved in the safety run
		}
		x.proveClause(st, env, c, kind, clauseSite(fmt.Sprintf("loop%d.inv", l.Ordinal), i, c))
	}
}

func (x *Exec) assumeInvariants(st *State, fr *Frame, l *Loop, lc *LoopContract) {
	if x.pureMode == 0 {
		for _, fg := range x.frameGoals(st, fr, func(name string) string { return "p!f" }) {
			st.assume(fmt.Sprintf("(forall ((p!f Addr)) (! %s :pattern ((select %s p!f))))", fg.formula, fg.cur))
		}
	}
	env := x.envFor(st, fr)
	env.inLoop = l
	for _, c := range lc.Invariants {
		if !x.activeClause(c) {
			continue
		}
		x.assumeClause(st, env, c)
	}
}

func (x *Exec) recordVariant(st *State, fr *Frame, l *Loop, lc *LoopContract) {
	env := x.envFor(st, fr)
	env.inLoop = l
	var vs []string
	for _, c := range lc.Decreases {
		if c.Label != "" {
			continue
		}
		vs = append(vs, x.trVariant(env, c))
	}
	fr.loopVar[l.Ordinal] = vs
}

func (x *Exec) trVariant(env *Env, c Clause) string {
	var side []string
	env.side = &side
	v := env.trI(c.E)
	return v
}

func (x *Exec) checkVariant(st *State, fr *Frame, l *Loop, lc *LoopContract) {
	if x.label != "" {
		return // termination is part of the safety behaviour
	}
	old := fr.loopVar[l.Ordinal]
	if rg := mapRangeOf(l); rg != nil && len(lc.Decreases) == 0 {
		// a range over a finite map visits each key once; the loop terminates if the map is not written in the body
		for b := range l.Blocks {
			for _, in := range b.Instrs {
				if mu, ok := in.(*ssa.MapUpdate); ok && mu.Map == rg.X {
					x.emit(st, "DECREASES", fmt.Sprintf("loop%d.mapwrite", l.Ordinal), "false", "the ranged-over map is written inside the loop")
				}
			}
		}
		return
	}
	if len(lc.Decreases) == 0 || len(old) == 0 {
		x.emit(st, "DECREASES", fmt.Sprintf("loop%d.missing", l.Ordinal), "false", "loop has no decreases clause")
		return
	}
	env := x.envFor(st, fr)
	env.inLoop = l
	k := 0
	for _, c := range lc.Decreases {
		if c.Label != "" {
			continue
		}
		nv := x.trVariant(env, c)
		ov := old[k]
		k++
		x.emit(st, "DECREASES", fmt.Sprintf("loop%d", l.Ordinal), sand(app("<", nv, ov), app("<=", "0", ov)), c.Src)
	}
}

// havocLoop forgets everything the loop body may modify.
func (x *Exec) havocLoop(st *State, fr *Frame, l *Loop, lc *LoopContract) {
	st.callsLost = true // from here on the log misses the calls of the iterations that were cut
	st.recent = nil
	cells := map[*ssa.Alloc]bool{}
	comps := map[string]bool{}
	// objRoots[comp]: the objects (allocated by this function before the loop) that stores into comp are confined
	// to; absent or unknown[comp] => the whole component is havocked
	objRoots := map[string][]string{}
	unknown := map[string]bool{}
	callTags := map[string][]int{} // cells written by callees, identified by field tag
	entryCounter := app("+", "fresh0", fmt.Sprint(st.nobj))
	if st.nobjBase != "" {
		entryCounter = app("+", st.nobjBase, fmt.Sprint(st.nobj))
	}
	allHeap := false
	allocates := false
	var visitAddr func(a ssa.Value, t types.Type)
	visitAddr = func(a ssa.Value, t types.Type) {
		root := a
		viaIndex := false
		_ = viaIndex
		for {
			switch r := root.(type) {
			case *ssa.FieldAddr:
				root = r.X
				continue
			case *ssa.IndexAddr:
				root = r.X
				viaIndex = true
				continue
			}
			break
		}
		if al, ok := root.(*ssa.Alloc); ok && x.isLocalMode(al) {
			cells[al] = true
			return
		}
		cs := map[string]bool{}
		x.compsOfType(t, cs)
		for c := range cs {
			comps[c] = true
			if al, ok := root.(*ssa.Alloc); ok {
				if l.Blocks[al.Block()] {
					continue // object allocated inside the loop: above the entry allocation counter
				}
				if v, have := fr.vals[al]; have && v.S != "" {
					objRoots[c] = append(objRoots[c], v.S)
					continue
				}
			}
			unknown[c] = true
		}
	}
	for b := range l.Blocks {
		for _, in := range b.Instrs {
			switch n := in.(type) {
			case *ssa.Store:
				if _, lazy := x.plan(fr.fn).store[n]; lazy {
					continue // initialising store into a fresh object: an assumption, not a heap write
				}
				visitAddr(n.Addr, n.Val.Type())
			case *ssa.MapUpdate:
				mt := n.Map.Type().Underlying().(*types.Map)
				d, v := mapCompNames(x.w, mt)
				comps[d] = true
				comps[v] = true
				unknown[d] = true
				unknown[v] = true
			case *ssa.Alloc:
				if !x.isLocalMode(n) {
					allocates = true
				}
			case *ssa.MakeSlice, *ssa.MakeMap, *ssa.MakeInterface, *ssa.MakeClosure:
				allocates = true
			case ssa.CallInstruction:
				allocates = true
				eff := x.calleeEffects(st, n.Common())
				if eff.all {
					allHeap = true
				}
				for c := range eff.comps {
					comps[c] = true
					if eff.untagged[c] || len(eff.tags[c]) == 0 {
						unknown[c] = true
					}
					callTags[c] = append(callTags[c], eff.tags[c]...)
				}
				// places passed to inlined callees
				for _, a := range n.Common().Args {
					if _, isPtr := a.Type().Underlying().(*types.Pointer); isPtr {
						root := a
						for {
							switch r := root.(type) {
							case *ssa.FieldAddr:
								root = r.X
								continue
							case *ssa.IndexAddr:
								root = r.X
								continue
							}
							break
						}
						if al, ok := root.(*ssa.Alloc); ok && x.isLocalMode(al) {
							cells[al] = true
						}
					}
				}
			}
		}
	}
	// map iterators advanced in the loop
	if rg := mapRangeOf(l); rg != nil && st.iters != nil && st.iters[rg] != "" {
		mt := rg.X.Type().Underlying().(*types.Map)
		st.iters[rg] = x.g.fresh("visited", fmt.Sprintf("(Array %s Bool)", x.w.sortOf(mt.Key())))
	}
	// local cells
	var as []*ssa.Alloc
	for a := range cells {
		as = append(as, a)
	}
	sort.Slice(as, func(i, j int) bool { return as[i].Pos() < as[j].Pos() })
	for _, a := range as {
		if l.Blocks[a.Block()] {
			continue // allocated (and zeroed) inside the loop body
		}
		cell, ok := fr.cells[a]
		if !ok {
			continue
		}
		nv := x.g.fresh(a.Comment+"_L"+fmt.Sprint(l.Ordinal), cell.Sort)
		for _, f := range x.w.typeFacts(nv, cell.T) {
			st.assume(f)
		}
		fr.cells[a] = Val{S: nv, Sort: cell.Sort, T: cell.T}
	}
	if allHeap {
		for name := range x.w.compSorts {
			comps[name] = true
		}
		for name := range st.heap {
			comps[name] = true
		}
	}
	var cs []string
	for c := range comps {
		cs = append(cs, c)
	}
	sort.Strings(cs)
	for _, c := range cs {
		old := st.heap[c]
		if old == "" {
			old = c + "_0"
		}
		x.havocComp(st, c)
		if !unknown[c] && !allHeap && !strings.HasPrefix(c, "MD_") && !strings.HasPrefix(c, "MV_") {
			// stores are confined to objects this function allocated before the loop (roots) or allocates inside
			// it (at or above the allocation counter at loop entry): everything else is framed
			ds := []string{app("<", app("oid", "p!z"), entryCounter)}
			for _, o := range objRoots[c] {
				ds = append(ds, snot(app("=", app("oid", "p!z"), app("oid", o))))
			}
			seenTag := map[int]bool{}
			for _, tg := range callTags[c] {
				if !seenTag[tg] {
					seenTag[tg] = true
					ds = append(ds, snot(sand("((_ is pfld) (path p!z))", app("=", app("pftag", app("path", "p!z")), fmt.Sprint(tg)))))
				}
			}
			nv := st.heap[c]
			st.assume(fmt.Sprintf("(forall ((p!z Addr)) (! (=> %s (= (select %s p!z) (select %s p!z))) :pattern ((select %s p!z))))", sand(ds...), nv, old, nv))
		}
	}
	if allocates {
		nb := x.g.fresh("nobj", "Int")
		base := "fresh0"
		if st.nobjBase != "" {
			base = st.nobjBase
		}
		st.assume(app(">=", nb, app("+", base, fmt.Sprint(st.nobj))))
		st.nobjBase = nb
		st.nobj = 0
	}
}

func (x *Exec) havocComp(st *State, name string) {
	srt, ok := x.w.compSorts[name]
	if !ok {
		return
	}
	nv := x.g.fresh(name, compArraySort(name, srt))
	st.heap[name] = nv
}

func compArraySort(name, valSort string) string {
	if strings.HasPrefix(name, "MD_") || strings.HasPrefix(name, "MV_") {
		return valSort
	}
	return "(Array Addr " + valSort + ")"
}

func (x *Exec) compsOfType(t types.Type, out map[string]bool) {
	switch u := t.Underlying().(type) {
	case *types.Struct:
		for i := 0; i < u.NumFields(); i++ {
			x.compsOfType(u.Field(i).Type(), out)
		}
	case *types.Array:
		x.compsOfType(u.Elem(), out)
	default:
		key := x.w.compKey(t)
		name := compName(key)
		if _, ok := x.w.compSorts[name]; !ok {
			x.w.compSorts[name] = compValueSort(key)
		}
		out[name] = true
	}
}

type effects struct {
	all       bool
	comps     map[string]bool
	tags      map[string][]int // component -> field tags of the cells a callee may write (x.f through a pointer)
	untagged  map[string]bool  // component is (also) written at cells not identified by a field tag
	freshOnly bool
}

// ---------- instruction semantics ----------

func (x *Exec) setv(st *State, v ssa.Value, val Val) {
	if val.T == nil {
		val.T = v.Type()
	}
	st.top.vals[v] = val
}

func (x *Exec) step(st *State, in ssa.Instruction) {
	fr := st.top
	w := x.w
	switch n := in.(type) {
	case *ssa.Alloc:
		et := n.Type().Underlying().(*types.Pointer).Elem()
		if x.isLocalMode(n) {
			fr.cells[n] = Val{S: w.zero(et), Sort: w.sortOf(et), T: et}
			fr.vals[n] = Val{Place: &Place{FrameID: fr.id, Alloc: n}, Sort: "Addr", T: n.Type()}
		} else {
			a := x.allocObj(st)
			if !x.plan(fr.fn).alloc[n] {
				x.zeroInit(st, a, et)
			}
			fr.vals[n] = Val{S: a, Sort: "Addr", T: n.Type()}
		}
	case *ssa.Store:
		p := x.val(st, n.Addr)
		v := x.val(st, n.Val)
		x.nilCheck(st, p, in)
		if path, lazy := x.plan(fr.fn).store[n]; lazy && x.lazyStore(st, n, path, x.plan(fr.fn).storeAlloc[n], v) {
			return
		}
		x.store(st, p, n.Val.Type(), v)
		x.abbrevHeap(st)
	case *ssa.UnOp:
		x.unop(st, n)
	case *ssa.BinOp:
		x.binop(st, n)
	case *ssa.Convert:
		x.convert(st, n)
	case *ssa.ChangeType:
		v := x.val(st, n.X)
		v.T = n.Type()
		fr.vals[n] = v
	case *ssa.ChangeInterface:
		v := x.val(st, n.X)
		v.T = n.Type()
		fr.vals[n] = v
	case *ssa.FieldAddr:
		p := x.val(st, n.X)
		stt := n.X.Type().Underlying().(*types.Pointer).Elem()
		if p.Place != nil {
			np := *p.Place
			np.Path = append(append([]PathElem(nil), np.Path...), PathElem{Field: n.Field})
			fr.vals[n] = Val{Place: &np, Sort: "Addr", T: n.Type()}
		} else {
			x.nilCheck(st, p, in)
			si := w.structInfo(stt)
			fr.vals[n] = Val{S: app("fld", p.S, fmt.Sprint(si.Tags[n.Field])), Sort: "Addr", T: n.Type()}
		}
	case *ssa.Field:
		v := x.val(st, n.X)
		si := w.structInfo(n.X.Type())
		ft := n.X.Type().Underlying().(*types.Struct).Field(n.Field).Type()
		fr.vals[n] = Val{S: selApp(si, n.Field, v.S), Sort: w.sortOf(ft), T: ft}
	case *ssa.IndexAddr:
		p := x.val(st, n.X)
		iv := x.val(st, n.Index)
		switch u := n.X.Type().Underlying().(type) {
		case *types.Slice:
			x.emit(st, "BOUNDS", x.siteOf(in, "idx"), sand(app("<=", "0", iv.S), app("<", iv.S, app("slen", p.S))), "slice index in range")
			fr.vals[n] = Val{S: app("selem", p.S, iv.S), Sort: "Addr", T: n.Type()}
		case *types.Pointer:
			at := u.Elem().Underlying().(*types.Array)
			x.emit(st, "BOUNDS", x.siteOf(in, "idx"), sand(app("<=", "0", iv.S), app("<", iv.S, fmt.Sprint(at.Len()))), "array index in range")
			if p.Place != nil {
				np := *p.Place
				np.Path = append(append([]PathElem(nil), np.Path...), PathElem{Field: -1, Index: iv.S})
				fr.vals[n] = Val{Place: &np, Sort: "Addr", T: n.Type()}
			} else {
				x.nilCheck(st, p, in)
				fr.vals[n] = Val{S: app("idx", p.S, iv.S), Sort: "Addr", T: n.Type()}
			}
		default:
			unsup("IndexAddr on %s", n.X.Type())
		}
	case *ssa.Index:
		v := x.val(st, n.X)
		iv := x.val(st, n.Index)
		switch u := n.X.Type().Underlying().(type) {
		case *types.Array:
			x.emit(st, "BOUNDS", x.siteOf(in, "idx"), sand(app("<=", "0", iv.S), app("<", iv.S, fmt.Sprint(u.Len()))), "array index in range")
			fr.vals[n] = Val{S: app("select", v.S, iv.S), Sort: w.sortOf(u.Elem()), T: u.Elem()}
		case *types.Basic:
			x.emit(st, "BOUNDS", x.siteOf(in, "idx"), sand(app("<=", "0", iv.S), app("<", iv.S, app("len", v.S))), "string index in range")
			t := app("at", v.S, iv.S)
			st.assume(sand(app("<=", "0", t), app("<=", t, "255")))
			fr.vals[n] = Val{S: t, Sort: "Int", T: n.Type()}
		default:
			unsup("Index on %s", n.X.Type())
		}
	case *ssa.Lookup:
		x.lookup(st, n)
	case *ssa.Slice:
		x.slice(st, n)
	case *ssa.Extract:
		t := x.val(st, n.Tuple)
		if n.Index >= len(t.Tuple) {
			unsup("extract out of range")
		}
		fr.vals[n] = t.Tuple[n.Index]
	case *ssa.MakeInterface:
		x.makeInterface(st, n)
	case *ssa.TypeAssert:
		x.typeAssert(st, n)
	case *ssa.MakeClosure:
		fn := n.Fn.(*ssa.Function)
		var binds []Val
		for _, b := range n.Bindings {
			binds = append(binds, x.val(st, b))
		}
		fr.vals[n] = Val{S: fmt.Sprint(funcID(fn)), Sort: "Int", T: n.Type(), Fn: fn, Bind: binds}
	case *ssa.MakeSlice:
		ln := x.val(st, n.Len)
		cp := x.val(st, n.Cap)
		x.emit(st, "BOUNDS", x.siteOf(in, "makeslice"), sand(app("<=", "0", ln.S), app("<=", ln.S, cp.S)), "makeslice: 0 <= len <= cap")
		a := x.allocObj(st)
		et := n.Type().Underlying().(*types.Slice).Elem()
		x.zeroRange(st, a, et)
		fr.vals[n] = Val{S: app("mk_slice", a, "0", ln.S, cp.S), Sort: "Slice", T: n.Type()}
	case *ssa.MakeMap:
		a := x.allocObj(st)
		mt := n.Type().Underlying().(*types.Map)
		dn, _ := mapCompNames(w, mt)
		dom, _ := x.mapComps(st, mt)
		ks := w.sortOf(mt.Key())
		st.heap[dn] = app("store", dom, a, fmt.Sprintf("((as const (Array %s Bool)) false)", ks))
		fr.vals[n] = Val{S: a, Sort: "Addr", T: n.Type()}
	case *ssa.MapUpdate:
		x.mapUpdate(st, n)
	case *ssa.Range:
		x.rangeInit(st, n)
	case *ssa.Next:
		x.rangeNext(st, n)
	case *ssa.RunDefers:
		x.runDefers(st)
	case *ssa.Defer:
		fr.defers = append(fr.defers, n)
	case *ssa.DebugRef:
	case *ssa.Phi:
		// evaluated on arrival (jump)
	case *ssa.Go, *ssa.Send, *ssa.Select, *ssa.MakeChan:
		unsup("concurrency instruction %T is outside the verified subset", in)
	default:
		unsup("instruction %T", in)
	}
}

// Allocation is modelled as an assumption: the cells of a fresh object were never read before (no pointer to the
// object existed), so instead of writing zero values - which would create a new version of every heap component
// and a frame axiom per allocation - the current heap is assumed to hold the zero values there already.
func (x *Exec) zeroInit(st *State, a string, t types.Type) {
	switch u := t.Underlying().(type) {
	case *types.Struct:
		si := x.w.structInfo(t)
		for i := range si.Fields {
			x.zeroInit(st, app("fld", a, fmt.Sprint(si.Tags[i])), u.Field(i).Type())
		}
	case *types.Array:
		x.zeroRange(st, a, u.Elem())
	default:
		_, cur := x.w.comp(st, x.w.compKey(t))
		st.assume(app("=", app("select", cur, a), x.w.zero(t)))
	}
}

// zeroRange: all element cells idx(a, k) of a fresh object hold the zero value.
func (x *Exec) zeroRange(st *State, a string, et types.Type) {
	var leaf func(addr string, t types.Type)
	k := "k!z"
	leaf = func(addr string, t types.Type) {
		switch u := t.Underlying().(type) {
		case *types.Struct:
			si := x.w.structInfo(t)
			for i := range si.Fields {
				leaf(app("fld", addr, fmt.Sprint(si.Tags[i])), u.Field(i).Type())
			}
		case *types.Array:
			unsup("nested arrays")
		default:
			_, cur := x.w.comp(st, x.w.compKey(t))
			st.assume(fmt.Sprintf("(forall ((%s Int)) (! (= (select %s %s) %s) :pattern ((select %s %s))))", k, cur, addr, x.w.zero(t), cur, addr))
		}
	}
	leaf(app("idx", a, k), et)
}

func (x *Exec) nilCheck(st *State, p Val, in ssa.Instruction) {
	if p.Place != nil {
		return
	}
	if strings.HasPrefix(p.S, "(loc ") || strings.HasPrefix(p.S, "(fld ") || strings.HasPrefix(p.S, "(idx ") || strings.HasPrefix(p.S, "(selem ") {
		return
	}
	x.emit(st, "NIL", x.siteOf(in, "nil"), snot(app("=", p.S, "anil")), "nil pointer dereference")
}

func (x *Exec) unop(st *State, n *ssa.UnOp) {
	fr := st.top
	v := x.val(st, n.X)
	switch n.Op {
	case token.MUL:
		if g, ok := n.X.(*ssa.Global); ok {
			// read of a package-level variable
			fr.vals[n] = x.readGlobal(st, g)
			return
		}
		x.nilCheck(st, v, n)
		fr.vals[n] = x.load(st, v, n.Type())
	case token.NOT:
		fr.vals[n] = Val{S: snot(v.S), Sort: "Bool", T: n.Type()}
	case token.SUB:
		r := app("-", v.S)
		x.overflow(st, n, r, n.Type())
		fr.vals[n] = Val{S: r, Sort: "Int", T: n.Type()}
	case token.XOR:
		// ^x == -x-1 for signed; for unsigned: max - x
		_, signed := intBits(n.Type())
		if signed {
			fr.vals[n] = Val{S: app("-", app("-", v.S), "1"), Sort: "Int", T: n.Type()}
		} else {
			_, hi, _ := intRange(n.Type())
			fr.vals[n] = Val{S: app("-", hi, v.S), Sort: "Int", T: n.Type()}
		}
	default:
		unsup("unop %s", n.Op)
	}
}

func (x *Exec) readGlobal(st *State, g *ssa.Global) Val {
	t := g.Type().Underlying().(*types.Pointer).Elem()
	full := g.Pkg.Pkg.Path() + "." + g.Name()
	// globals of the packages under verification are mutable state; sentinel values of other packages are constants
	if _, mine := x.w.pkgs[g.Pkg.Pkg.Path()]; mine {
		a := x.globalAddr(g)
		return x.load(st, a, t)
	}
	v := x.globalValue(st, full, t)
	if v.Sort == "Iface" {
		st.assume(snot(app("=", v.S, "inil")))
		st.assume(app("sentinel", v.S))
	}
	return v
}

func (x *Exec) overflow(st *State, in ssa.Instruction, r string, t types.Type) {
	lo, hi, ok := intRange(t)
	if !ok {
		return
	}
	x.emit(st, "OVERFLOW", x.siteOf(in, "ovf"), sand(app("<=", lo, r), app("<=", r, hi)), "integer arithmetic stays in range of "+t.String())
}

func (x *Exec) binop(st *State, n *ssa.BinOp) {
	fr := st.top
	a := x.val(st, n.X)
	b := x.val(st, n.Y)
	t := n.Type()
	set := func(s, sort string) { fr.vals[n] = Val{S: s, Sort: sort, T: t} }
	isStr := a.Sort == "Str"
	switch n.Op {
	case token.ADD:
		if isStr {
			set(x.strCat(st, a.S, b.S), "Str")
			return
		}
		r := app("+", a.S, b.S)
		x.overflow(st, n, r, t)
		set(r, "Int")
	case token.SUB:
		r := app("-", a.S, b.S)
		x.overflow(st, n, r, t)
		set(r, "Int")
	case token.MUL:
		r := app("*", a.S, b.S)
		x.overflow(st, n, r, t)
		set(r, "Int")
	case token.QUO:
		x.emit(st, "DIV0", x.siteOf(n, "div"), snot(app("=", b.S, "0")), "division by zero")
		r := goDiv(a.S, b.S)
		x.overflow(st, n, r, t)
		set(r, "Int")
	case token.REM:
		x.emit(st, "DIV0", x.siteOf(n, "div"), snot(app("=", b.S, "0")), "division by zero")
		set(goRem(a.S, b.S), "Int")
	case token.EQL, token.NEQ:
		var s string
		if a.Sort == "Slice" {
			// only comparison with nil is legal
			o := a
			if isNilSliceConst(n.X) {
				o = b
			}
			s = app("=", app("sarr", o.S), "anil")
		} else if a.Place != nil || b.Place != nil {
			unsup("comparison of local addresses")
		} else {
			s = app("=", a.S, b.S)
			if isStr {
				st.assume(strExt(a.S, b.S))
			}
		}
		if n.Op == token.NEQ {
			s = snot(s)
		}
		set(s, "Bool")
	case token.LSS, token.LEQ, token.GTR, token.GEQ:
		if isStr {
			unsup("string ordering comparison")
		}
		op := map[token.Token]string{token.LSS: "<", token.LEQ: "<=", token.GTR: ">", token.GEQ: ">="}[n.Op]
		set(app(op, a.S, b.S), "Bool")
	case token.AND, token.OR, token.XOR, token.SHL, token.SHR, token.AND_NOT:
		if a.Sort == "Bool" {
			switch n.Op {
			case token.AND:
				set(sand(a.S, b.S), "Bool")
			case token.OR:
				set(sor(a.S, b.S), "Bool")
			default:
				unsup("bool op %s", n.Op)
			}
			return
		}
		x.bitop(st, n, a, b)
	default:
		unsup("binop %s", n.Op)
	}
}

func isNilSliceConst(v ssa.Value) bool {
	c, ok := v.(*ssa.Const)
	return ok && c.Value == nil
}

// bitop: shifts and masks with constant right operand are expressed arithmetically; anything else is abstracted
// to a fresh value within the type's range (sound over-approximation).
func (x *Exec) bitop(st *State, n *ssa.BinOp, a, b Val) {
	fr := st.top
	t := n.Type()
	if c, ok := n.Y.(*ssa.Const); ok && c.Value != nil {
		k := c.Int64()
		switch n.Op {
		case token.SHL:
			if k >= 0 && k < 63 {
				r := app("*", a.S, pow2(int(k)))
				fr.vals[n] = Val{S: wrapInt(r, t), Sort: "Int", T: t}
				return
			}
		case token.SHR:
			if k >= 0 && k < 63 {
				fr.vals[n] = Val{S: app("div", a.S, pow2(int(k))), Sort: "Int", T: t}
				return
			}
		case token.AND:
			// x & (2^k - 1)
			for bits := 1; bits < 63; bits++ {
				if k == (int64(1)<<uint(bits))-1 {
					fr.vals[n] = Val{S: app("mod", a.S, pow2(bits)), Sort: "Int", T: t}
					return
				}
			}
		}
	}
	nv := x.g.fresh("bitop", "Int")
	for _, f := range x.w.typeFacts(nv, t) {
		st.assume(f)
	}
	x.notes = append(x.notes, fmt.Sprintf("bit operation %s abstracted to an arbitrary value of its type", n.Op))
	fr.vals[n] = Val{S: nv, Sort: "Int", T: t}
}

func (x *Exec) strCat(st *State, a, b string) string {
	return app("cat", a, b)
}

func (x *Exec) convert(st *State, n *ssa.Convert) {
	fr := st.top
	v := x.val(st, n.X)
	from := n.X.Type().Underlying()
	to := n.Type().Underlying()
	fb, fok := from.(*types.Basic)
	tb, tok := to.(*types.Basic)
	switch {
	case fok && tok && fb.Info()&types.IsInteger != 0 && tb.Info()&types.IsInteger != 0:
		// integer conversion: exact two's-complement wrap; identity when the source range fits
		flo, fhi, _ := intRange(from)
		tlo, thi, _ := intRange(to)
		if fits(flo, fhi, tlo, thi) {
			fr.vals[n] = Val{S: v.S, Sort: "Int", T: n.Type()}
		} else {
			fr.vals[n] = Val{S: site(sand(app("<=", tlo, v.S), app("<=", v.S, thi)), v.S, wrapInt(v.S, to)), Sort: "Int", T: n.Type()}
		}
	case fok && tok && fb.Info()&types.IsInteger != 0 && tb.Info()&types.IsString != 0:
		// string(rune): UTF-8 encoding; one byte below 0x80
		s := x.g.fresh("runestr", "Str")
		st.assume(app("=>", sand(app("<=", "0", v.S), app("<", v.S, "128")), sand(app("=", app("len", s), "1"), app("=", app("at", s, "0"), v.S))))
		st.assume(app("=>", snot(sand(app("<=", "0", v.S), app("<", v.S, "128"))), sand(app(">=", app("len", s), "2"), app("<=", app("len", s), "4"), app(">=", app("at", s, "0"), "128"))))
		st.assume(app("=", s, app("chr", v.S)))
		fr.vals[n] = Val{S: s, Sort: "Str", T: n.Type()}
	case tok && tb.Info()&types.IsString != 0:
		// string([]byte): a function of the byte cells (so that two conversions of the same bytes are equal)
		if sl, ok := from.(*types.Slice); ok && isByte(sl.Elem()) {
			_, cur := x.w.comp(st, "Int:uint8")
			fr.vals[n] = Val{S: app("bytes2str", cur, v.S), Sort: "Str", T: n.Type()}
			return
		}
		if sl, ok := from.(*types.Slice); ok {
			if eb, isB := sl.Elem().Underlying().(*types.Basic); isB && eb.Kind() == types.Int32 {
				// string([]rune): UTF-8 encoding; exact for ASCII runes
				s := x.g.fresh("rstr", "Str")
				_, cur := x.w.comp(st, "Int:int32")
				st.assume(app(">=", app("len", s), app("slen", v.S)))
				st.assume(app("<=", app("len", s), app("*", "4", app("slen", v.S))))
				ascii := fmt.Sprintf("(forall ((k!c Int)) (=> (and (<= 0 k!c) (< k!c (slen %s))) (and (<= 0 (select %s (selem %s k!c))) (< (select %s (selem %s k!c)) 128))))", v.S, cur, v.S, cur, v.S)
				st.assume(app("=>", ascii, sand(app("=", app("len", s), app("slen", v.S)),
					fmt.Sprintf("(forall ((k!c Int)) (! (=> (and (<= 0 k!c) (< k!c (slen %s))) (= (at %s k!c) (select %s (selem %s k!c)))) :pattern ((at %s k!c))))", v.S, s, cur, v.S, s))))
				fr.vals[n] = Val{S: s, Sort: "Str", T: n.Type()}
				return
			}
		}
		unsup("conversion %s -> string", n.X.Type())
	case fok && fb.Info()&types.IsString != 0:
		if sl, ok := to.(*types.Slice); ok && isByte(sl.Elem()) {
			a := x.allocObj(st)
			_, cur := x.w.comp(st, "Int:uint8")
			st.assume(fmt.Sprintf("(forall ((k!c Int)) (! (=> (and (<= 0 k!c) (< k!c (len %s))) (= (select %s (idx %s k!c)) (at %s k!c))) :pattern ((select %s (idx %s k!c)))))", v.S, cur, a, v.S, cur, a))
			sl := app("mk_slice", a, "0", app("len", v.S), app("len", v.S))
			// read back as a string, the new bytes are the string they were copied from (a consequence of the cell facts
			// above and extensionality; stated because the solvers find it only by luck - it went missing when an
			// unrelated datatype was declared in the same query)
			st.assume(app("=", app("bytes2str", cur, sl), v.S))
			fr.vals[n] = Val{S: sl, Sort: "Slice", T: n.Type()}
			return
		}
		unsup("conversion string -> %s", n.Type())
	default:
		if x.w.sortOf(n.X.Type()) == x.w.sortOf(n.Type()) && x.w.sortOf(n.Type()) != "Real" {
			v.T = n.Type()
			fr.vals[n] = v
			return
		}
		unsup("conversion %s -> %s", n.X.Type(), n.Type())
	}
}

func isByte(t types.Type) bool {
	b, ok := t.Underlying().(*types.Basic)
	return ok && b.Kind() == types.Uint8
}

func fits(flo, fhi, tlo, thi string) bool {
	return cmpLit(tlo, flo) <= 0 && cmpLit(fhi, thi) <= 0
}

func cmpLit(a, b string) int {
	pa := parseLit(a)
	pb := parseLit(b)
	return pa.Cmp(pb)
}

func (x *Exec) lookup(st *State, n *ssa.Lookup) {
	fr := st.top
	v := x.val(st, n.X)
	iv := x.val(st, n.Index)
	if v.Sort == "Str" {
		x.emit(st, "BOUNDS", x.siteOf(n, "idx"), sand(app("<=", "0", iv.S), app("<", iv.S, app("len", v.S))), "string index in range")
		t := app("at", v.S, iv.S)
		st.assume(sand(app("<=", "0", t), app("<=", t, "255")))
		fr.vals[n] = Val{S: t, Sort: "Int", T: n.Type()}
		return
	}
	mt := n.X.Type().Underlying().(*types.Map)
	dom, val := x.mapComps(st, mt)
	has := app("select", app("select", dom, v.S), iv.S)
	vt := mt.Elem()
	got := site(sand(snot(app("=", v.S, "anil")), has), app("select", app("select", val, v.S), iv.S), x.w.zero(vt))
	rv := Val{S: got, Sort: x.w.sortOf(vt), T: vt}
	if n.CommaOk {
		okv := Val{S: sand(snot(app("=", v.S, "anil")), has), Sort: "Bool", T: types.Typ[types.Bool]}
		fr.vals[n] = Val{Tuple: []Val{rv, okv}, Sort: "Tuple", T: n.Type()}
	} else {
		fr.vals[n] = rv
	}
}

func mapCompNames(w *World, mt *types.Map) (dom, val string) {
	ks := sanitize(w.sortOf(mt.Key()))
	vs := sanitize(w.sortOf(mt.Elem()))
	dom = "MD_" + ks
	val = "MV_" + ks + "_" + vs
	if _, ok := w.compSorts[dom]; !ok {
		w.compSorts[dom] = fmt.Sprintf("(Array Addr (Array %s Bool))", w.sortOf(mt.Key()))
	}
	if _, ok := w.compSorts[val]; !ok {
		w.compSorts[val] = fmt.Sprintf("(Array Addr (Array %s %s))", w.sortOf(mt.Key()), w.sortOf(mt.Elem()))
	}
	return
}

func (x *Exec) mapComps(st *State, mt *types.Map) (dom, val string) {
	dn, vn := mapCompNames(x.w, mt)
	return x.w.compByName(st, dn), x.w.compByName(st, vn)
}

func (x *Exec) mapUpdate(st *State, n *ssa.MapUpdate) {
	m := x.val(st, n.Map)
	k := x.val(st, n.Key)
	v := x.val(st, n.Value)
	mt := n.Map.Type().Underlying().(*types.Map)
	x.emit(st, "MAPWRITE", x.siteOf(n, "mapw"), snot(app("=", m.S, "anil")), "assignment to entry in nil map")
	dn, vn := mapCompNames(x.w, mt)
	dom, val := x.mapComps(st, mt)
	st.heap[dn] = app("store", dom, m.S, app("store", app("select", dom, m.S), k.S, "true"))
	st.heap[vn] = app("store", val, m.S, app("store", app("select", val, m.S), k.S, v.S))
}

func (x *Exec) slice(st *State, n *ssa.Slice) {
	fr := st.top
	v := x.val(st, n.X)
	lo := "0"
	if n.Low != nil {
		lo = x.val(st, n.Low).S
	}
	switch u := n.X.Type().Underlying().(type) {
	case *types.Basic: // string
		hi := app("len", v.S)
		if n.High != nil {
			hi = x.val(st, n.High).S
		}
		x.emit(st, "BOUNDS", x.siteOf(n, "slice"), sand(app("<=", "0", lo), app("<=", lo, hi), app("<=", hi, app("len", v.S))), "string slice bounds")
		fr.vals[n] = Val{S: app("substr", v.S, lo, hi), Sort: "Str", T: n.Type()}
	case *types.Slice:
		hi := app("slen", v.S)
		if n.High != nil {
			hi = x.val(st, n.High).S
		}
		mx := app("scap", v.S)
		if n.Max != nil {
			mx = x.val(st, n.Max).S
			x.emit(st, "BOUNDS", x.siteOf(n, "slice"), sand(app("<=", "0", lo), app("<=", lo, hi), app("<=", hi, mx), app("<=", mx, app("scap", v.S))), "slice bounds")
		} else {
			x.emit(st, "BOUNDS", x.siteOf(n, "slice"), sand(app("<=", "0", lo), app("<=", lo, hi), app("<=", hi, app("scap", v.S))), "slice bounds")
		}
		fr.vals[n] = Val{S: app("mk_slice", app("sarr", v.S), app("+", app("soff", v.S), lo), app("-", hi, lo), app("-", mx, lo)), Sort: "Slice", T: n.Type()}
	case *types.Pointer: // *array
		at := u.Elem().Underlying().(*types.Array)
		ln := fmt.Sprint(at.Len())
		hi := ln
		if n.High != nil {
			hi = x.val(st, n.High).S
		}
		if v.Place != nil {
			unsup("slicing a local array")
		}
		x.emit(st, "BOUNDS", x.siteOf(n, "slice"), sand(app("<=", "0", lo), app("<=", lo, hi), app("<=", hi, ln)), "array slice bounds")
		fr.vals[n] = Val{S: app("mk_slice", v.S, lo, app("-", hi, lo), app("-", ln, lo)), Sort: "Slice", T: n.Type()}
	default:
		unsup("slice of %s", n.X.Type())
	}
}

func (x *Exec) makeInterface(st *State, n *ssa.MakeInterface) {
	fr := st.top
	v := x.val(st, n.X)
	tid := fmt.Sprint(x.w.typeID(n.X.Type()))
	if v.Sort == "Addr" && v.Place == nil {
		fr.vals[n] = Val{S: app("iface", tid, "0", v.S), Sort: "Iface", T: n.Type()}
		return
	}
	if v.Sort == "Int" {
		fr.vals[n] = Val{S: app("iface", tid, v.S, "anil"), Sort: "Iface", T: n.Type(), Fn: v.Fn, Bind: v.Bind}
		return
	}
	// box the value in a fresh cell
	a := x.allocObj(st)
	if v.Place != nil {
		unsup("boxing a local address")
	}
	x.w.heapStore(st, a, n.X.Type(), v.S)
	fr.vals[n] = Val{S: app("iface", tid, "0", a), Sort: "Iface", T: n.Type()}
}

func (x *Exec) typeAssert(st *State, n *ssa.TypeAssert) {
	fr := st.top
	v := x.val(st, n.X)
	if _, isIface := n.AssertedType.Underlying().(*types.Interface); isIface {
		// interface-to-interface assertion: holds iff non-nil and the dynamic type implements it (unknown: fresh bool)
		ok := x.g.fresh("implements", "Bool")
		st.assume(app("=>", ok, snot(app("=", v.S, "inil"))))
		rv := Val{S: site(ok, v.S, "inil"), Sort: "Iface", T: n.AssertedType}
		if n.CommaOk {
			fr.vals[n] = Val{Tuple: []Val{rv, {S: ok, Sort: "Bool", T: types.Typ[types.Bool]}}, Sort: "Tuple", T: n.Type()}
		} else {
			x.emit(st, "TYPEASSERT", x.siteOf(n, "ta"), ok, "interface conversion")
			fr.vals[n] = rv
		}
		return
	}
	tid := fmt.Sprint(x.w.typeID(n.AssertedType))
	is := sand(snot(app("=", v.S, "inil")), app("=", app("tid", v.S), tid))
	var rv Val
	srt := x.w.sortOf(n.AssertedType)
	switch srt {
	case "Addr":
		rv = Val{S: site(is, app("iref", v.S), "anil"), Sort: srt, T: n.AssertedType}
	case "Int":
		rv = Val{S: site(is, app("ival", v.S), "0"), Sort: srt, T: n.AssertedType}
	default:
		rv = Val{S: site(is, x.w.heapLoad(st, app("iref", v.S), n.AssertedType), x.w.zero(n.AssertedType)), Sort: srt, T: n.AssertedType}
	}
	if n.CommaOk {
		fr.vals[n] = Val{Tuple: []Val{rv, {S: is, Sort: "Bool", T: types.Typ[types.Bool]}}, Sort: "Tuple", T: n.Type()}
	} else {
		x.emit(st, "TYPEASSERT", x.siteOf(n, "ta"), is, "type assertion")
		fr.vals[n] = rv
	}
}

func (x *Exec) runDefers(st *State) {
	fr := st.top
	for i := len(fr.defers) - 1; i >= 0; i-- {
		d := fr.defers[i]
		_, inl := x.call(st, nil, &d.Call, d)
		if inl {
			unsup("deferred call to an inlined function")
		}
	}
	fr.defers = nil
}

// map range: the iterator carries the set of visited keys; Next yields an arbitrary unvisited key (the iteration
// order of a Go map is unspecified, so code that depends on it cannot be proved)
func (x *Exec) rangeInit(st *State, n *ssa.Range) {
	fr := st.top
	v := x.val(st, n.X)
	mt, ok := n.X.Type().Underlying().(*types.Map)
	if !ok {
		unsup("range over %s", n.X.Type())
	}
	fr.vals[n] = Val{S: v.S, Sort: "Addr", T: n.X.Type()}
	if st.iters == nil {
		st.iters = map[ssa.Value]string{}
	}
	st.iters[n] = fmt.Sprintf("((as const (Array %s Bool)) false)", x.w.sortOf(mt.Key()))
}

func (x *Exec) rangeNext(st *State, n *ssa.Next) {
	fr := st.top
	if n.IsString {
		unsup("range over a string")
	}
	rg, ok := n.Iter.(*ssa.Range)
	if !ok {
		unsup("next on unknown iterator")
	}
	m := x.val(st, rg)
	mt := rg.X.Type().Underlying().(*types.Map)
	dom, val := x.mapComps(st, mt)
	vis := st.iters[rg]
	if vis == "" {
		unsup("map iterator state lost")
	}
	ks, vs := x.w.sortOf(mt.Key()), x.w.sortOf(mt.Elem())
	okc := x.g.fresh("rangeok", "Bool")
	k := x.g.fresh("rangekey", ks)
	v := x.g.fresh("rangeval", vs)
	mdom := site(app("=", m.S, "anil"), fmt.Sprintf("((as const (Array %s Bool)) false)", ks), app("select", dom, m.S))
	st.assume(app("=>", okc, sand(app("select", mdom, k), snot(app("select", vis, k)), app("=", v, app("select", app("select", val, m.S), k)))))
	st.assume(app("=>", snot(okc), fmt.Sprintf("(forall ((q!r %s)) (! (=> (select %s q!r) (select %s q!r)) :pattern ((select %s q!r))))", ks, mdom, vis, vis)))
	for _, f := range x.w.typeFacts(k, mt.Key()) {
		st.assume(f)
	}
	for _, f := range x.w.typeFacts(v, mt.Elem()) {
		st.assume(f)
	}
	st.iters[rg] = site(okc, app("store", vis, k, "true"), vis)
	fr.vals[n] = Val{Tuple: []Val{{S: okc, Sort: "Bool", T: types.Typ[types.Bool]}, {S: k, Sort: ks, T: mt.Key()}, {S: v, Sort: vs, T: mt.Elem()}}, Sort: "Tuple", T: n.Type()}
}

// mapRangeOf returns the map Range whose Next is the loop's exit test, if any.
func mapRangeOf(l *Loop) *ssa.Range {
	for b := range l.Blocks {
		for _, in := range b.Instrs {
			if nx, ok := in.(*ssa.Next); ok && !nx.IsString {
				if rg, ok2 := nx.Iter.(*ssa.Range); ok2 {
					return rg
				}
			}
		}
	}
	return nil
}
