package main

import (
	"golang.org/x/tools/go/ssa/ssautil"
	"regexp"
	"fmt"
	"go/constant"
	"go/types"
	"math/big"
	"strings"

	"golang.org/x/tools/go/ssa"
)

func parseLit(s string) *big.Int {
	neg := false
	if strings.HasPrefix(s, "(- ") {
		neg = true
		s = s[3 : len(s)-1]
	}
	b, ok := new(big.Int).SetString(s, 10)
	if !ok {
		return big.NewInt(0)
	}
	if neg {
		b.Neg(b)
	}
	return b
}

func (w *World) pkgOf(fn *ssa.Function) *PkgInfo {
	if fn.Pkg == nil {
		if fn.Parent() != nil {
			return w.pkgOf(fn.Parent())
		}
		return nil
	}
	return w.pkgs[fn.Pkg.Pkg.Path()]
}

func (w *World) contractFor(fn *ssa.Function) *FuncContract {
	if fc, ok := w.contracts[fn.String()]; ok {
		return fc
	}
	return nil
}

const maxInlineDepth = 6

func (x *Exec) canInline(st *State, fn *ssa.Function) bool {
	if fn.Blocks == nil {
		return false
	}
	if st.top.depth >= maxInlineDepth {
		return false
	}
	for f := st.top; f != nil; f = f.parent {
		if f.fn == fn {
			return false
		}
	}
	if _, mine := x.w.pkgs[pkgPath(fn)]; !mine {
		return false
	}
	li := analyzeLoops(fn)
	if len(li.Loops) > 0 {
		fc := x.w.contractFor(fn)
		if fc == nil {
			return false
		}
		for _, l := range li.Loops {
			if _, ok := fc.Loops[l.Ordinal]; !ok {
				return false
			}
		}
	}
	return true
}

func pkgPath(fn *ssa.Function) string {
	if fn.Pkg != nil {
		return fn.Pkg.Pkg.Path()
	}
	if fn.Parent() != nil {
		return pkgPath(fn.Parent())
	}
	return ""
}

// call handles a call instruction. It returns true when control was taken over (inlining): k is then invoked for
// every return path of the callee.
func (x *Exec) call(st *State, res *ssa.Call, c *ssa.CallCommon, in ssa.Instruction) ([]retState, bool) {
	fr := st.top
	setRes := func(s *State, v Val) {
		if res != nil {
			s.top.vals[res] = v
		}
	}
	if b, ok := c.Value.(*ssa.Builtin); ok {
		setRes(st, x.builtin(st, b, c, in))
		return nil, false
	}
	var args []Val
	var fn *ssa.Function
	var binds []Val
	if c.IsInvoke() {
		recv := x.val(st, c.Value)
		x.emit(st, "NIL", x.siteOf(in, "nil"), snot(app("=", recv.S, "inil")), "method call on nil interface")
		args = append(args, recv)
		for _, a := range c.Args {
			args = append(args, x.val(st, a))
		}
		key := fmt.Sprintf("(%s).%s", types.TypeString(c.Value.Type(), nil), c.Method.Name())
		if _, ok := x.w.contracts[key]; !ok {
			// the same method under the unaliased name of the interface, or under the interface that declares it
			alts := []string{fmt.Sprintf("(%s).%s", types.TypeString(types.Unalias(c.Value.Type()), nil), c.Method.Name())}
			if sg, isSig := c.Method.Type().(*types.Signature); isSig && sg.Recv() != nil {
				alts = append(alts, fmt.Sprintf("(%s).%s", types.TypeString(sg.Recv().Type(), nil), c.Method.Name()))
			}
			for _, k := range alts {
				if _, ok := x.w.contracts[k]; ok {
					key = k
					break
				}
			}
		}
		if fc, ok := x.w.contracts[key]; ok {
			sig := c.Method.Type().(*types.Signature)
			v := x.applyContract(st, key, fc, sig, recvParam(c.Value.Type()), args, in, nil)
			setRes(st, v)
			return nil, false
		}
		x.havocAll(st, key)
		setRes(st, x.freshResult(st, c.Signature().Results(), "invoke"))
		return nil, false
	}
	fn = c.StaticCallee()
	if fn == nil {
		fv := x.val(st, c.Value)
		if fv.Fn != nil {
			fn = fv.Fn
			binds = fv.Bind
		}
	} else if mc, ok := c.Value.(*ssa.MakeClosure); ok {
		binds = x.val(st, mc).Bind
	}
	for _, a := range c.Args {
		args = append(args, x.val(st, a))
	}
	if fn == nil {
		x.havocAll(st, "dynamic call")
		setRes(st, x.freshResult(st, c.Signature().Results(), "dyncall"))
		return nil, false
	}
	if fn.Name() == "ssa:deferstack" || strings.HasPrefix(fn.Name(), "ssa:") {
		setRes(st, Val{S: "anil", Sort: "Addr", T: nil})
		return nil, false
	}
	if fn.String() == "fmt.Sprintf" {
		if v, ok := x.sprintf(st, c, args); ok {
			setRes(st, v)
			return nil, false
		}
	}
	fc := x.w.contractFor(fn)
	if fc != nil && !fc.Inline && !(x.pureMode > 0 && fn.Blocks != nil && x.canInline(st, fn)) {
		var recv *types.Var
		if fn.Signature.Recv() != nil {
			recv = fn.Signature.Recv()
		}
		v := x.applyContract(st, fn.String(), fc, fn.Signature, recv, args, in, fn)
		setRes(st, v)
		return nil, false
	}
	if x.canInline(st, fn) {
		x.inlined[fn.String()] = true
		nf := x.newFrame(fn, fr)
		nf.fc = fc
		for i, p := range fn.Params {
			if i < len(args) {
				nf.vals[p] = args[i]
				nf.params[p.Name()] = args[i]
			}
		}
		for i, fv := range fn.FreeVars {
			if i < len(binds) {
				nf.vals[fv] = binds[i]
			}
		}
		st.top = nf
		st.path = append(st.path, "call:"+fn.Name())
		rets := x.execFunc(st, nf)
		for _, r := range rets {
			s := r.st
			s.top = s.top.parent
			var v Val
			if len(r.res) == 1 {
				v = r.res[0]
			} else if len(r.res) > 1 {
				v = Val{Tuple: r.res, Sort: "Tuple"}
			}
			if res != nil {
				s.top.vals[res] = v
			}
		}
		return rets, true
	}
	x.havocAll(st, fn.String())
	setRes(st, x.freshResult(st, fn.Signature.Results(), fn.Name()))
	return nil, false
}

func recvParam(t types.Type) *types.Var {
	return types.NewVar(0, nil, "recv", t)
}

func (x *Exec) havocAll(st *State, what string) {
	x.havocked[what] = true
	for name := range x.w.compSorts {
		x.havocComp(st, name)
	}
	nb := x.g.fresh("nobj", "Int")
	base := "fresh0"
	if st.nobjBase != "" {
		base = st.nobjBase
	}
	st.assume(app(">=", nb, app("+", base, fmt.Sprint(st.nobj))))
	st.nobjBase = nb
	st.nobj = 0
}

func (x *Exec) freshResult(st *State, rs *types.Tuple, prefix string) Val {
	if rs.Len() == 0 {
		return Val{}
	}
	var vs []Val
	for i := 0; i < rs.Len(); i++ {
		t := rs.At(i).Type()
		s := x.w.sortOf(t)
		n := x.g.fresh(prefix+"_r", s)
		for _, f := range x.w.typeFacts(n, t) {
			st.assume(f)
		}
		vs = append(vs, Val{S: n, Sort: s, T: t})
	}
	if len(vs) == 1 {
		return vs[0]
	}
	return Val{Tuple: vs, Sort: "Tuple"}
}

// calleeEnv builds the environment in which a callee's contract is interpreted at a call site.
func (x *Exec) calleeEnv(st *State, key string, sig *types.Signature, recv *types.Var, args []Val, fn *ssa.Function) *Env {
	env := &Env{x: x, w: x.w, vars: map[string]Val{}, st: st, bound: map[string]bool{}}
	if fn != nil {
		env.pkg = x.w.pkgOf(fn)
	}
	if env.pkg == nil {
		env.pkg = x.pkg
	}
	i := 0
	if recv != nil {
		name := recv.Name()
		if name == "" || name == "_" {
			name = "recv"
		}
		if i < len(args) {
			env.vars[name] = args[i]
			env.vars["recv"] = args[i]
		}
		i++
	}
	ps := sig.Params()
	for j := 0; j < ps.Len(); j++ {
		name := ps.At(j).Name()
		if name == "" || name == "_" {
			name = fmt.Sprintf("arg%d", j)
		}
		if i < len(args) {
			v := args[i]
			if v.T == nil {
				v.T = ps.At(j).Type()
			}
			env.vars[name] = v
			env.vars[fmt.Sprintf("arg%d", j)] = v
		}
		i++
	}
	// names the callee's contract may still use after a rename of its parameters (contracts.lock.json)
	if fn != nil && x.w.lock != nil {
		if lf := x.w.lock[fn.String()]; lf != nil && len(lf.Params) == len(fn.Params) {
			for k, old := range lf.Params {
				if _, have := env.vars[old]; !have && old != "" && old != fn.Params[k].Name() {
					if v, ok := env.vars[fn.Params[k].Name()]; ok {
						env.vars[old] = v
					}
				}
			}
		}
	}
	return env
}

func bindResults(env *Env, sig *types.Signature, rv Val) {
	rs := sig.Results()
	if rs.Len() == 0 {
		return
	}
	if rs.Len() == 1 {
		env.vars["result"] = rv
		env.vars["result0"] = rv
		if n := rs.At(0).Name(); n != "" && n != "_" {
			if _, clash := env.vars[n]; !clash {
				env.vars[n] = rv
			}
		}
		return
	}
	for i := 0; i < rs.Len(); i++ {
		env.vars[fmt.Sprintf("result%d", i)] = rv.Tuple[i]
		if n := rs.At(i).Name(); n != "" && n != "_" {
			if _, clash := env.vars[n]; !clash {
				env.vars[n] = rv.Tuple[i]
			}
		}
	}
}

func (x *Exec) applyContract(st *State, key string, fc *FuncContract, sig *types.Signature, recv *types.Var, args []Val, in ssa.Instruction, fn *ssa.Function) Val {
	if fc.Trusted {
		x.used[key] = true
	} else if fn != nil {
		x.called[fn] = true // verified contract of a callee: the property check must also verify that callee
	}
	for _, a := range args {
		if a.Place != nil {
			unsup("address of a local passed to contracted callee %s", key)
		}
	}
	env := x.calleeEnv(st, key, sig, recv, args, fn)
	callSite := x.siteOf(in, "call")
	short := key
	if i := strings.LastIndex(short, "/"); i >= 0 {
		short = short[i+1:]
	}
	// preconditions
	for i, c := range fc.Requires {
		if !x.activeClause(c) {
			continue
		}
		x.proveClause(st, env, c, "PRE", fmt.Sprintf("call%s:%s.%s", callSite, short, clauseSite("req", i, c)))
	}
	// recursion: the callee's measure must decrease
	if fn != nil && fn == x.fn && x.label == "" && !fc.Trusted {
		if len(fc.Decreases) == 0 {
			x.emit(st, "DECREASES", "rec"+callSite+".missing", "false", "recursive call without decreases clause")
		} else {
			top := st.top
			for top.parent != nil {
				top = top.parent
			}
			callerEnv := x.envFor(top.entry, top.entry.top)
			callerEnv.post = true
			for _, c := range fc.Decreases {
				nv := x.trVariant(env, c)
				ov := x.trVariant(callerEnv, c)
				x.emit(st, "DECREASES", "rec"+callSite, sand(app("<", nv, ov), app("<=", "0", ov)), c.Src)
			}
		}
	}
	if ci, isCall := in.(ssa.CallInstruction); isCall {
		x.curCall, x.curSig = ci, sig
	} else {
		x.curCall, x.curSig = nil, nil
	}
	pre := st.clone()
	freshBase := app("+", "fresh0", fmt.Sprint(st.nobj))
	if st.nobjBase != "" {
		freshBase = app("+", st.nobjBase, fmt.Sprint(st.nobj))
	}
	// frame
	x.havocModifies(st, env, fc, key)
	// results
	var rv Val
	rs := sig.Results()
	if fc.Pure && rs.Len() > 0 {
		var as []string
		var sorts []string
		for _, a := range args {
			if a.Fn != nil {
				as = append(as, fmt.Sprint(funcID(a.Fn)))
			} else {
				as = append(as, a.S)
			}
			sorts = append(sorts, a.Sort)
		}
		var vs []Val
		for i := 0; i < rs.Len(); i++ {
			t := rs.At(i).Type()
			s := x.w.sortOf(t)
			name := fmt.Sprintf("uf_%s_%d", sanitize(short), i)
			x.g.funcs[name] = fmt.Sprintf("(declare-fun %s (%s) %s)", name, strings.Join(sorts, " "), s)
			term := app(name, as...)
			for _, f := range x.w.typeFacts(term, t) {
				st.assume(f)
			}
			vs = append(vs, Val{S: term, Sort: s, T: t})
		}
		if len(vs) == 1 {
			rv = vs[0]
		} else {
			rv = Val{Tuple: vs, Sort: "Tuple"}
		}
	} else {
		rv = x.freshResult(st, rs, short)
	}
	env2 := x.calleeEnv(st, key, sig, recv, args, fn)
	env2.old = pre
	env2.freshBase = freshBase
	env2.freshTop = counterNow(st)
	bindResults(env2, sig, rv)
	for _, c := range fc.Ensures {
		if !x.activeClause(c) {
			continue
		}
		// a clause about the calls the callee made speaks about the callee's own activation: it is an obligation of the
		// callee and tells the caller nothing (evaluated here it would talk about the caller's calls)
		if mentionsCall(c.E, "ncalls") || mentionsCall(c.E, "callarg") || mentionsCall(c.E, "callres") {
			continue
		}
		x.assumeClause(st, env2, c)
	}
	lk := logKey(key)
	if !st.callsLost {
		if st.calls == nil {
			st.calls = map[string][]callRec{}
		}
		st.calls[lk] = append(st.calls[lk], callRec{args: args, res: rv})
	}
	if st.recent == nil {
		st.recent = map[string][]callRec{}
	}
	st.recent[lk] = append(st.recent[lk], callRec{args: args, res: rv})
	return rv
}

var pathPrefixRE = regexp.MustCompile(`[A-Za-z0-9_.\-]+/`)

// logKey: dependency.Parse, (*control.Paragraph).Set, (io.Reader).Read
func logKey(key string) string { return pathPrefixRE.ReplaceAllString(key, "") }

// lvalueAddr evaluates a modifies-clause entry to an address and the type stored there.
func (x *Exec) lvalueAddr(env *Env, e CExpr) (string, types.Type) {
	switch n := e.(type) {
	case *CUnary:
		if n.Op == "*" {
			p := env.tr(n.X)
			pt, ok := p.T.Underlying().(*types.Pointer)
			if !ok {
				cfail("modifies *x: x is not a pointer")
			}
			return p.S, pt.Elem()
		}
	case *CField:
		// a ghost field of an interface-typed value lives at the object the interface refers to
		if v, ok := tryTr(env, n.X); ok && v.T != nil && v.Sort == "Iface" {
			if gf := x.w.ghostField(v.T, n.Name); gf != nil {
				return app("fld", app("iref", v.S), fmt.Sprint(gf.Tag)), gf.T
			}
		}
		// pointer-typed base?
		base := func() (string, types.Type) {
			if isLvalueExpr(n.X) {
				// try as value first (pointer), else as nested lvalue
				v, ok := tryTr(env, n.X)
				if ok && v.T != nil {
					if pt, isPtr := v.T.Underlying().(*types.Pointer); isPtr {
						return v.S, pt.Elem()
					}
				}
				return x.lvalueAddr(env, n.X)
			}
			v := env.tr(n.X)
			pt, isPtr := v.T.Underlying().(*types.Pointer)
			if !isPtr {
				cfail("modifies x.f: x is not addressable")
			}
			return v.S, pt.Elem()
		}
		a, t := base()
		st, ok := t.Underlying().(*types.Struct)
		if !ok {
			cfail("modifies x.%s: not a struct", n.Name)
		}
		si := x.w.structInfo(t)
		for i := 0; i < st.NumFields(); i++ {
			if st.Field(i).Name() == n.Name {
				return app("fld", a, fmt.Sprint(si.Tags[i])), st.Field(i).Type()
			}
		}
		if gf := x.w.ghostField(t, n.Name); gf != nil {
			return app("fld", a, fmt.Sprint(gf.Tag)), gf.T
		}
		cfail("modifies: no field %s", n.Name)
	case *CIndex:
		v := env.tr(n.X)
		if sl, ok := v.T.Underlying().(*types.Slice); ok {
			return app("selem", v.S, env.trI(n.I)), sl.Elem()
		}
	case *CIdent:
		// a local variable that lives in the heap (its address is taken somewhere)
		if env.fr != nil && env.st != nil {
			lst := env.st
			if env.cur != nil {
				lst = env.cur
			}
			if a, t, ok := x.localAddrByName(lst, env.fr, n.Name); ok {
				return a, t
			}
		}
		if a, t, ok := x.w.ghostVar(n.Name); ok {
			if _, isMap := t.Underlying().(*types.Map); !isMap {
				return a, t
			}
		}
	}
	cfail("unsupported modifies entry")
	return "", nil
}

func isLvalueExpr(e CExpr) bool {
	switch e.(type) {
	case *CField, *CIndex, *CIdent:
		return true
	}
	return false
}

func tryTr(env *Env, e CExpr) (v Val, ok bool) {
	defer func() {
		if r := recover(); r != nil {
			if _, isC := r.(cerr); isC {
				ok = false
				return
			}
			panic(r)
		}
	}()
	return env.tr(e), true
}

func (x *Exec) havocModifies(st *State, env *Env, fc *FuncContract, key string) {
	if fc.ModAny {
		x.havocAll(st, key+" (modifies *)")
		delete(x.havocked, key+" (modifies *)")
		return
	}
	for _, m := range fc.Modifies {
		if c, ok := m.(*CCall); ok && c.Fun == "elems" {
			// all elements of a slice
			v := env.tr(c.Args[0])
			sl := v.T.Underlying().(*types.Slice)
			comps := map[string]bool{}
			x.compsOfType(sl.Elem(), comps)
			for name := range comps {
				cur := st.heap[name]
				if cur == "" {
					cur = x.w.compByName(st, name)
				}
				nv := x.g.fresh(name, "(Array Addr "+x.w.compSorts[name]+")")
				st.heap[name] = nv
				st.assume(fmt.Sprintf("(forall ((p!z Addr)) (! (=> (not (= (oid p!z) (oid (sarr %s)))) (= (select %s p!z) (select %s p!z))) :pattern ((select %s p!z))))", v.S, nv, cur, nv))
			}
			continue
		}
		if c, ok := m.(*CCall); ok && c.Fun == "pointee" {
			// pointee(p): p is an interface-typed parameter; the object it points to, when the call site passes a pointer
			// of a statically known type (anything else: everything may change)
			done := false
			if id, isId := c.Args[0].(*CIdent); isId && x.curCall != nil && x.curSig != nil {
				cc := x.curCall.Common()
				for i := 0; i < x.curSig.Params().Len(); i++ {
					if x.curSig.Params().At(i).Name() != id.Name {
						continue
					}
					j := i
					if cc.IsInvoke() || (x.curSig.Recv() != nil && len(cc.Args) == x.curSig.Params().Len()+1) {
						if !cc.IsInvoke() {
							j = i + 1
						}
					}
					if j < len(cc.Args) {
						if mi, isMI := cc.Args[j].(*ssa.MakeInterface); isMI {
							if pt, isPtr := mi.X.Type().Underlying().(*types.Pointer); isPtr {
								pv := x.val(st, mi.X)
								if pv.Place == nil {
									x.havocAt(st, pv.S, pt.Elem())
									done = true
								}
							}
						}
					}
				}
			}
			if !done {
				x.havocAll(st, key+" (pointee of an unknown dynamic type)")
			}
			continue
		}
		if c, ok := m.(*CCall); ok && c.Fun == "mapof" {
			v := env.tr(c.Args[0])
			mt := v.T.Underlying().(*types.Map)
			dn, vn := mapCompNames(x.w, mt)
			dom, val := x.mapComps(st, mt)
			st.heap[dn] = app("store", dom, v.S, x.g.fresh("mdom", fmt.Sprintf("(Array %s Bool)", x.w.sortOf(mt.Key()))))
			st.heap[vn] = app("store", val, v.S, x.g.fresh("mval", fmt.Sprintf("(Array %s %s)", x.w.sortOf(mt.Key()), x.w.sortOf(mt.Elem()))))
			continue
		}
		a, t := x.lvalueAddr(env, m)
		x.havocAt(st, a, t)
	}
	if fc.allocates() {
		nb := x.g.fresh("nobj", "Int")
		base := "fresh0"
		if st.nobjBase != "" {
			base = st.nobjBase
		}
		st.assume(app(">=", nb, app("+", base, fmt.Sprint(st.nobj))))
		st.nobjBase = nb
		st.nobj = 0
	}
}

func (fc *FuncContract) allocates() bool { return !fc.Pure }

func (x *Exec) havocAt(st *State, a string, t types.Type) {
	switch u := t.Underlying().(type) {
	case *types.Struct:
		si := x.w.structInfo(t)
		for i := range si.Fields {
			x.havocAt(st, app("fld", a, fmt.Sprint(si.Tags[i])), u.Field(i).Type())
		}
		return
	case *types.Array:
		unsup("modifies of array value")
	}
	s := x.w.sortOf(t)
	nv := x.g.fresh("mod", s)
	for _, f := range x.w.typeFacts(nv, t) {
		st.assume(f)
	}
	x.w.heapStore(st, a, t, nv)
}

// calleeEffects: which heap components a call may write (for loop havoc).
func (x *Exec) calleeEffects(st *State, c *ssa.CallCommon) effects {
	eff := effects{comps: map[string]bool{}, tags: map[string][]int{}, untagged: map[string]bool{}}
	if _, ok := c.Value.(*ssa.Builtin); ok {
		b := c.Value.(*ssa.Builtin)
		switch b.Name() {
		case "copy":
			if len(c.Args) > 0 {
				if sl, ok := c.Args[0].Type().Underlying().(*types.Slice); ok {
					x.compsOfType(sl.Elem(), eff.comps)
					for cn := range eff.comps {
						eff.untagged[cn] = true
					}
				}
			}
		case "append":
			// writes nothing visible: the result is a fresh backing array (allocation as assumption)
		case "delete":
			if mt, ok := c.Args[0].Type().Underlying().(*types.Map); ok {
				d, v := mapCompNames(x.w, mt)
				eff.comps[d] = true
				eff.comps[v] = true
				eff.untagged[d] = true
				eff.untagged[v] = true
			}
		}
		return eff
	}
	var fc *FuncContract
	var fn *ssa.Function
	var sig *types.Signature
	if c.IsInvoke() {
		key := fmt.Sprintf("(%s).%s", types.TypeString(c.Value.Type(), nil), c.Method.Name())
		fc = x.w.contracts[key]
		sig = c.Method.Type().(*types.Signature)
	} else {
		fn = c.StaticCallee()
		if fn != nil {
			fc = x.w.contractFor(fn)
			sig = fn.Signature
		}
	}
	if fc != nil && !fc.Inline {
		if fc.ModAny {
			eff.all = true
			return eff
		}
		for _, m := range fc.Modifies {
			t := x.lvalueType(fn, sig, c, m)
			if t == nil {
				eff.all = true
				return eff
			}
			if mt, ok := t.Underlying().(*types.Map); ok {
				d, v := mapCompNames(x.w, mt)
				eff.comps[d] = true
				eff.comps[v] = true
				eff.untagged[d] = true
				eff.untagged[v] = true
				continue
			}
			cs := map[string]bool{}
			x.compsOfType(t, cs)
			// a write to x.f through a pointer only touches cells whose last path step is field f: remember the tag
			tag := -1
			if cf, ok := m.(*CField); ok {
				if bt := x.lvalueType(fn, sig, c, cf.X); bt != nil {
					if pt, isPtr := bt.Underlying().(*types.Pointer); isPtr {
						bt = pt.Elem()
					}
					if st, isStruct := bt.Underlying().(*types.Struct); isStruct && !isStructT(t) {
						si := x.w.structInfo(bt)
						for i := 0; i < st.NumFields(); i++ {
							if st.Field(i).Name() == cf.Name {
								tag = si.Tags[i]
							}
						}
						if gf := x.w.ghostField(bt, cf.Name); gf != nil {
							tag = gf.Tag
						}
					}
				}
			}
			for cn := range cs {
				eff.comps[cn] = true
				if tag >= 0 {
					eff.tags[cn] = append(eff.tags[cn], tag)
				} else {
					eff.untagged[cn] = true
				}
			}
		}
		return eff
	}
	if fn != nil && fn.Blocks != nil {
		if _, mine := x.w.pkgs[pkgPath(fn)]; mine {
			x.scanEffects(fn, &eff, map[*ssa.Function]bool{})
			return eff
		}
	}
	if fn != nil && strings.HasPrefix(fn.Name(), "ssa:") {
		return eff
	}
	eff.all = true
	return eff
}

func (x *Exec) scanEffects(fn *ssa.Function, eff *effects, seen map[*ssa.Function]bool) {
	if seen[fn] {
		return
	}
	seen[fn] = true
	for _, b := range fn.Blocks {
		for _, in := range b.Instrs {
			switch n := in.(type) {
			case *ssa.Store:
				if _, lazy := x.plan(fn).store[n]; lazy {
					continue
				}
				root := n.Addr
				for {
					switch r := root.(type) {
					case *ssa.FieldAddr:
						root = r.X
						continue
					case *ssa.IndexAddr:
						root = r.X
						continue
					}
					break
				}
				if al, ok := root.(*ssa.Alloc); ok && !al.Heap && localUses(al) {
					continue
				}
				cs := map[string]bool{}
				x.compsOfType(n.Val.Type(), cs)
				for cn := range cs {
					eff.comps[cn] = true
					eff.untagged[cn] = true
				}
			case *ssa.MapUpdate:
				mt := n.Map.Type().Underlying().(*types.Map)
				d, v := mapCompNames(x.w, mt)
				eff.comps[d] = true
				eff.comps[v] = true
				eff.untagged[d] = true
				eff.untagged[v] = true
			case ssa.CallInstruction:
				sub := x.calleeEffects(nil, n.Common())
				if sub.all {
					eff.all = true
				}
				for c := range sub.comps {
					eff.comps[c] = true
					if sub.untagged[c] {
						eff.untagged[c] = true
					}
					eff.tags[c] = append(eff.tags[c], sub.tags[c]...)
				}
			}
		}
	}
}

// lvalueType computes the static type of a modifies entry from the callee's signature.
func (x *Exec) lvalueType(fn *ssa.Function, sig *types.Signature, c *ssa.CallCommon, e CExpr) types.Type {
	var typeOf func(e CExpr) types.Type
	typeOf = func(e CExpr) types.Type {
		switch n := e.(type) {
		case *CIdent:
			if sig.Recv() != nil && (sig.Recv().Name() == n.Name || n.Name == "recv") {
				return sig.Recv().Type()
			}
			if n.Name == "recv" && c != nil && c.IsInvoke() {
				return c.Value.Type()
			}
			for i := 0; i < sig.Params().Len(); i++ {
				if sig.Params().At(i).Name() == n.Name {
					return sig.Params().At(i).Type()
				}
			}
			if _, t, ok := x.w.ghostVar(n.Name); ok {
				return t
			}
		case *CField:
			t := typeOf(n.X)
			if t == nil {
				return nil
			}
			if _, isIface := t.Underlying().(*types.Interface); isIface {
				if gf := x.w.ghostField(t, n.Name); gf != nil {
					return gf.T
				}
			}
			if pt, ok := t.Underlying().(*types.Pointer); ok {
				t = pt.Elem()
			}
			if st, ok := t.Underlying().(*types.Struct); ok {
				for i := 0; i < st.NumFields(); i++ {
					if st.Field(i).Name() == n.Name {
						return st.Field(i).Type()
					}
				}
				if gf := x.w.ghostField(t, n.Name); gf != nil {
					return gf.T
				}
			}
		case *CUnary:
			t := typeOf(n.X)
			if t == nil {
				return nil
			}
			if pt, ok := t.Underlying().(*types.Pointer); ok {
				return pt.Elem()
			}
		case *CIndex:
			t := typeOf(n.X)
			if t == nil {
				return nil
			}
			if sl, ok := t.Underlying().(*types.Slice); ok {
				return sl.Elem()
			}
		case *CCall:
			if (n.Fun == "elems" || n.Fun == "mapof") && len(n.Args) == 1 {
				t := typeOf(n.Args[0])
				if t == nil {
					return nil
				}
				if sl, ok := t.Underlying().(*types.Slice); ok {
					return sl.Elem()
				}
				return t
			}
		}
		return nil
	}
	return typeOf(e)
}

// ---------- builtins ----------

func (x *Exec) builtin(st *State, b *ssa.Builtin, c *ssa.CallCommon, in ssa.Instruction) Val {
	var args []Val
	for _, a := range c.Args {
		args = append(args, x.val(st, a))
	}
	switch b.Name() {
	case "len":
		switch args[0].Sort {
		case "Str":
			return Val{S: app("len", args[0].S), Sort: "Int", T: types.Typ[types.Int]}
		case "Slice":
			return Val{S: app("slen", args[0].S), Sort: "Int", T: types.Typ[types.Int]}
		case "Addr":
			if _, ok := c.Args[0].Type().Underlying().(*types.Map); ok {
				n := x.g.fresh("maplen", "Int")
				st.assume(app(">=", n, "0"))
				return Val{S: n, Sort: "Int", T: types.Typ[types.Int]}
			}
		}
		if at, ok := c.Args[0].Type().Underlying().(*types.Array); ok {
			return Val{S: fmt.Sprint(at.Len()), Sort: "Int", T: types.Typ[types.Int]}
		}
		unsup("len of %s", c.Args[0].Type())
	case "cap":
		if args[0].Sort == "Slice" {
			return Val{S: app("scap", args[0].S), Sort: "Int", T: types.Typ[types.Int]}
		}
		unsup("cap of %s", c.Args[0].Type())
	case "append":
		return x.appendBuiltin(st, c, args)
	case "copy":
		return x.copyBuiltin(st, c, args)
	case "delete":
		mt := c.Args[0].Type().Underlying().(*types.Map)
		dn, _ := mapCompNames(x.w, mt)
		dom, _ := x.mapComps(st, mt)
		st.heap[dn] = site(app("=", args[0].S, "anil"), dom, app("store", dom, args[0].S, app("store", app("select", dom, args[0].S), args[1].S, "false")))
		return Val{}
	case "ssa:wrapnilchk":
		return args[0]
	case "ssa:deferstack":
		return Val{S: "anil", Sort: "Addr"}
	case "panic":
		x.emit(st, "UNREACHABLE", x.siteOf(in, "panic"), "false", "explicit panic")
		st.dead = true
		return Val{}
	}
	unsup("builtin %s", b.Name())
	return Val{}
}

// appendBuiltin: append(s, t...) returns a slice over a fresh array holding s followed by t.
// The result never aliases s (sound only if s is dead after the append: checked by the caller pattern s = append(s, ...)
// or recorded as an assumption).
func (x *Exec) appendBuiltin(st *State, c *ssa.CallCommon, args []Val) Val {
	s := args[0]
	t := args[1]
	sl := c.Args[0].Type().Underlying().(*types.Slice)
	et := sl.Elem()
	a := x.allocObj(st)
	r := x.g.fresh("app", "Slice")
	var tlen string
	tIsStr := t.Sort == "Str"
	if tIsStr {
		tlen = app("len", t.S)
	} else {
		tlen = app("slen", t.S)
	}
	st.assume(app("=", app("sarr", r), a))
	st.assume(app("=", app("soff", r), "0"))
	st.assume(app("=", app("slen", r), app("+", app("slen", s.S), tlen)))
	st.assume(app(">=", app("scap", r), app("slen", r)))
	var leaf func(mk func(base string) string, t2 types.Type)
	leaf = func(mk func(base string) string, t2 types.Type) {
		switch u := t2.Underlying().(type) {
		case *types.Struct:
			si := x.w.structInfo(t2)
			for i := range si.Fields {
				tag := fmt.Sprint(si.Tags[i])
				leaf(func(base string) string { return app("fld", mk(base), tag) }, u.Field(i).Type())
			}
		case *types.Array:
			unsup("append of arrays")
		default:
			// the fresh backing array is assumed to hold the contents already (allocation as assumption); the
			// facts are phrased over selem(result, j) so that their patterns match element reads of the result
			_, cur := x.w.comp(st, x.w.compKey(t2))
			dst := mk(app("selem", r, "k!a"))
			st.assume(fmt.Sprintf("(forall ((k!a Int)) (! (=> (and (<= 0 k!a) (< k!a (slen %s))) (= (select %s %s) (select %s %s))) :pattern ((select %s %s))))",
				s.S, cur, dst, cur, mk(app("selem", s.S, "k!a")), cur, dst))
			if tIsStr {
				st.assume(fmt.Sprintf("(forall ((k!a Int)) (! (=> (and (<= (slen %s) k!a) (< k!a (slen %s))) (= (select %s %s) (at %s (- k!a (slen %s))))) :pattern ((select %s %s))))",
					s.S, r, cur, dst, t.S, s.S, cur, dst))
			} else {
				st.assume(fmt.Sprintf("(forall ((k!a Int)) (! (=> (and (<= (slen %s) k!a) (< k!a (slen %s))) (= (select %s %s) (select %s %s))) :pattern ((select %s %s))))",
					s.S, r, cur, dst, cur, mk(app("selem", t.S, app("-", "k!a", app("slen", s.S)))), cur, dst))
			}
		}
	}
	leaf(func(base string) string { return base }, et)
	return Val{S: r, Sort: "Slice", T: c.Args[0].Type()}
}

func (x *Exec) copyBuiltin(st *State, c *ssa.CallCommon, args []Val) Val {
	dst := args[0]
	src := args[1]
	sl := c.Args[0].Type().Underlying().(*types.Slice)
	n := x.g.fresh("copied", "Int")
	var srclen string
	if src.Sort == "Str" {
		srclen = app("len", src.S)
	} else {
		srclen = app("slen", src.S)
	}
	st.assume(app("=", n, app("min_", app("slen", dst.S), srclen)))
	comps := map[string]bool{}
	x.compsOfType(sl.Elem(), comps)
	if len(comps) != 1 {
		unsup("copy of struct elements")
	}
	for name := range comps {
		cur := x.w.compByName(st, name)
		nv := x.g.fresh(name, "(Array Addr "+x.w.compSorts[name]+")")
		st.heap[name] = nv
		st.assume(fmt.Sprintf("(forall ((p!z Addr)) (! (=> (not (= (oid p!z) (oid (sarr %s)))) (= (select %s p!z) (select %s p!z))) :pattern ((select %s p!z))))", dst.S, nv, cur, nv))
		if src.Sort == "Str" {
			st.assume(fmt.Sprintf("(forall ((k!a Int)) (! (=> (and (<= 0 k!a) (< k!a %s)) (= (select %s (selem %s k!a)) (at %s k!a))) :pattern ((select %s (selem %s k!a)))))", n, nv, dst.S, src.S, nv, dst.S))
		} else {
			st.assume(fmt.Sprintf("(forall ((k!a Int)) (! (=> (and (<= 0 k!a) (< k!a %s)) (= (select %s (selem %s k!a)) (select %s (selem %s k!a)))) :pattern ((select %s (selem %s k!a)))))", n, nv, dst.S, cur, src.S, nv, dst.S))
		}
		// elements of dst beyond n keep their value (same object): stated pointwise
		st.assume(fmt.Sprintf("(forall ((k!a Int)) (! (=> (>= k!a %s) (= (select %s (selem %s k!a)) (select %s (selem %s k!a)))) :pattern ((select %s (selem %s k!a)))))", n, nv, dst.S, cur, dst.S, nv, dst.S))
	}
	return Val{S: n, Sort: "Int", T: types.Typ[types.Int]}
}

// applyPure gives the value of a function value applied to symbolic arguments inside a contract (used by trusted
// contracts that talk about a predicate parameter, e.g. strings.IndexFunc). Repository closures are executed
// symbolically (they must be loop-free and side-effect free: obligations are not generated inside); external
// functions must have a trusted pure contract and become an uninterpreted function with that contract as axiom.
func (x *Exec) applyPure(env *Env, f Val, args []Val) Val {
	fn := f.Fn
	sig := fn.Signature
	if sig.Results().Len() != 1 {
		cfail("application of %s in a contract: exactly one result expected", fn.Name())
	}
	rt := sig.Results().At(0).Type()
	rs := x.w.sortOf(rt)
	if fn.Blocks == nil {
		key := fn.String()
		fc, ok := x.w.contracts[key]
		if !ok || !fc.Trusted || !fc.Pure {
			cfail("function value %s applied in a contract has neither a body nor a trusted pure contract", key)
		}
		x.used[key] = true
		name := fmt.Sprintf("uf_%s_0", sanitize(key))
		var sorts, as []string
		for _, a := range args {
			sorts = append(sorts, a.Sort)
			as = append(as, a.S)
		}
		x.g.funcs[name] = fmt.Sprintf("(declare-fun %s (%s) %s)", name, strings.Join(sorts, " "), rs)
		if _, done := x.g.axioms[name]; !done {
			// quantified form of the trusted contract
			qenv := &Env{x: x, w: x.w, pkg: x.pkg, vars: map[string]Val{}, bound: map[string]bool{}}
			var binders, bs []string
			for i := 0; i < sig.Params().Len(); i++ {
				p := sig.Params().At(i)
				bn := fmt.Sprintf("u_%s", sanitize(p.Name()))
				srt := x.w.sortOf(p.Type())
				qenv.vars[p.Name()] = Val{S: bn, Sort: srt, T: p.Type()}
				qenv.bound[bn] = true
				binders = append(binders, "("+bn+" "+srt+")")
				bs = append(bs, bn)
			}
			res := Val{S: app(name, bs...), Sort: rs, T: rt}
			qenv.vars["result"] = res
			if n := sig.Results().At(0).Name(); n != "" {
				qenv.vars[n] = res
			}
			var ens []string
			for _, c := range fc.Ensures {
				ens = append(ens, qenv.trB(c.E))
			}
			x.g.axioms[name] = fmt.Sprintf("(assert (forall (%s) (! %s :pattern (%s))))", strings.Join(binders, " "), sand(ens...), app(name, bs...))
		}
		return Val{S: app(name, as...), Sort: rs, T: rt}
	}
	if _, mine := x.w.pkgs[pkgPath(fn)]; !mine {
		cfail("function value %s is outside the verified packages", fn.String())
	}
	if len(analyzeLoops(fn).Loops) > 0 {
		cfail("function value %s applied in a contract contains loops", fn.String())
	}
	st := env.st
	if st == nil {
		cfail("function application in a pure context")
	}
	s2 := st.clone()
	s2.pc = nil
	nf := x.newFrame(fn, s2.top)
	for i, p := range fn.Params {
		if i < len(args) {
			a := args[i]
			a.T = p.Type()
			nf.vals[p] = a
			nf.params[p.Name()] = a
		}
	}
	for i, fv := range fn.FreeVars {
		if i < len(f.Bind) {
			nf.vals[fv] = f.Bind[i]
		}
	}
	s2.top = nf
	x.pureMode++
	rets := x.execFunc(s2, nf)
	x.pureMode--
	if len(rets) == 0 {
		cfail("function value %s has no return path", fn.String())
	}
	// ite chain over the return paths; the last one is the default
	out := rets[len(rets)-1].res[0].S
	for i := len(rets) - 2; i >= 0; i-- {
		out = site(sand(rets[i].st.pc...), rets[i].res[0].S, out)
	}
	return Val{S: out, Sort: rs, T: rt}
}

// sprintf models fmt.Sprintf for a constant format made of literal text, %d (integers), %s / %v (strings) and %%.
// Anything else yields an arbitrary string (sound over-approximation).
func (x *Exec) sprintf(st *State, c *ssa.CallCommon, args []Val) (Val, bool) {
	fc, ok := c.Args[0].(*ssa.Const)
	if !ok || fc.Value == nil {
		return Val{}, false
	}
	format := constantString(fc)
	var pieces []string
	lit := ""
	argi := 0
	flush := func() {
		if lit != "" {
			pieces = append(pieces, x.w.strLit(lit))
			lit = ""
		}
	}
	_, ifcur := x.w.comp(st, "Iface")
	for i := 0; i < len(format); i++ {
		ch := format[i]
		if ch != '%' {
			lit += string(ch)
			continue
		}
		if i+1 >= len(format) {
			return Val{}, false
		}
		i++
		verb := format[i]
		if verb == '%' {
			lit += "%"
			continue
		}
		flush()
		elem := app("select", ifcur, app("selem", args[1].S, fmt.Sprint(argi)))
		argi++
		switch verb {
		case 'd':
			pieces = append(pieces, app("itoa", app("ival", elem)))
		case 's', 'v':
			_, scur := x.w.comp(st, "Str")
			// a string argument is boxed in a fresh cell; other dynamic types render to an unknown string
			str := x.g.fresh("fmtarg", "Str")
			st.assume(app(">=", app("len", str), "0"))
			st.assume(app("=>", app("=", app("tid", elem), fmt.Sprint(x.w.typeID(types.Typ[types.String]))), app("=", str, app("select", scur, app("iref", elem)))))
			pieces = append(pieces, str)
		case 'x', 'X', 'q', 'c', 'o', 'b', 't', 'T', 'p':
			// rendered to some string that is not modelled further (formatting has no effect on the heap)
			str := x.g.fresh("fmtarg", "Str")
			st.assume(app(">=", app("len", str), "0"))
			pieces = append(pieces, str)
		default:
			return Val{}, false
		}
	}
	flush()
	if len(pieces) == 0 {
		return Val{S: x.w.strLit(""), Sort: "Str", T: types.Typ[types.String]}, true
	}
	out := pieces[0]
	for _, p := range pieces[1:] {
		out = app("cat", out, p)
	}
	return Val{S: out, Sort: "Str", T: types.Typ[types.String]}, true
}

func constantString(c *ssa.Const) string {
	return constant.StringVal(c.Value)
}

// sigByLogKey: the signature of the function a call-log name refers to (any function of the program, also library ones)
func (w *World) sigByLogKey(name string) *types.Signature {
	if w.logSigs == nil {
		w.logSigs = map[string]*types.Signature{}
		for f := range ssautil.AllFunctions(w.prog) {
			if f.Signature != nil {
				w.logSigs[logKey(f.String())] = f.Signature
			}
		}
	}
	return w.logSigs[name]
}
