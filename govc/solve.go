package main

import (
	"bytes"
	"context"
	"fmt"
	"os"
	"os/exec"
	"path/filepath"
	"regexp"
	"sort"
	"strings"
	"sync"
	"time"
)

const stringAxioms = `
(assert (forall ((s Str) (lo Int) (hi Int)) (! (=> (and (<= 0 lo) (<= lo hi) (<= hi (len s))) (= (len (substr s lo hi)) (- hi lo))) :pattern ((substr s lo hi)))))
(assert (forall ((s Str) (lo Int) (hi Int) (k Int)) (! (=> (and (<= 0 lo) (<= lo hi) (<= hi (len s)) (<= 0 k) (< k (- hi lo))) (= (at (substr s lo hi) k) (at s (+ lo k)))) :pattern ((at (substr s lo hi) k)))))
(assert (forall ((a Str) (b Str)) (! (= (len (cat a b)) (+ (len a) (len b))) :pattern ((cat a b)))))
(assert (forall ((a Str) (b Str) (k Int)) (! (=> (and (<= 0 k) (< k (len a))) (= (at (cat a b) k) (at a k))) :pattern ((at (cat a b) k)))))
(assert (forall ((a Str) (b Str) (k Int)) (! (=> (and (<= (len a) k) (< k (+ (len a) (len b)))) (= (at (cat a b) k) (at b (- k (len a))))) :pattern ((at (cat a b) k)))))
(assert (forall ((c Int)) (! (=> (and (<= 0 c) (< c 128)) (and (= (len (chr c)) 1) (= (at (chr c) 0) c))) :pattern ((chr c)))))
(assert (forall ((c Int)) (! (=> (not (and (<= 0 c) (< c 128))) (and (>= (len (chr c)) 2) (<= (len (chr c)) 4) (>= (at (chr c) 0) 128))) :pattern ((chr c)))))
(assert (forall ((h (Array Addr Int)) (b Slice)) (! (=> (>= (slen b) 0) (= (len (bytes2str h b)) (slen b))) :pattern ((bytes2str h b)))))
; NOTE the guard on the cell value: without it this axiom contradicts the range axiom for at below (take any array
; holding a value outside 0..255) - the background theory was inconsistent until this was found (DESIGN.md 7.6)
(assert (forall ((h (Array Addr Int)) (b Slice) (k Int)) (! (=> (and (<= 0 k) (< k (slen b)) (<= 0 (select h (selem b k))) (<= (select h (selem b k)) 255)) (= (at (bytes2str h b) k) (select h (selem b k)))) :pattern ((at (bytes2str h b) k)))))
(assert (forall ((h1 (Array Addr Int)) (h2 (Array Addr Int)) (b Slice)) (! (=> (forall ((k Int)) (=> (and (<= 0 k) (< k (slen b))) (= (select h1 (selem b k)) (select h2 (selem b k))))) (= (bytes2str h1 b) (bytes2str h2 b))) :pattern ((bytes2str h1 b) (bytes2str h2 b)))))
(assert (forall ((s Str)) (! (>= (len s) 0) :pattern ((len s)))))
(assert (forall ((s Str) (k Int)) (! (and (<= 0 (at s k)) (<= (at s k) 255)) :pattern ((at s k)))))
`

var tokenRe = regexp.MustCompile(`[^\s()]+`)

func tokensOf(texts ...string) map[string]bool {
	set := map[string]bool{}
	for _, t := range texts {
		for _, m := range tokenRe.FindAllString(t, -1) {
			set[m] = true
		}
	}
	return set
}

// buildQuery assembles a self-contained SMT-LIB script for one obligation.
func (w *World) buildQuery(o *Obligation, g *Gen, uses []string) string {
	var body strings.Builder
	for _, h := range o.Hyps {
		body.WriteString("(assert " + h + ")\n")
	}
	if o.Cover {
		// satisfiability of the hypotheses
	} else {
		body.WriteString("(assert (not " + o.Goal + "))\n")
	}
	text := body.String()
	toks := tokensOf(text)

	// spec functions (transitively) and auto lemmas
	included := map[string]bool{}
	var defs []string
	var addSpec func(name string)
	addSpec = func(name string) {
		if included[name] {
			return
		}
		included[name] = true
		sf := w.specs[name]
		_, deps := w.specDefinition(sf)
		for _, d := range deps {
			addSpec(d)
		}
	}
	scan := func(t map[string]bool) bool {
		changed := false
		for name := range w.specs {
			if !included[name] && t["spec_"+name] {
				addSpec(name)
				changed = true
			}
		}
		return changed
	}
	scan(toks)
	axText := ""
	{
		var an []string
		for n := range g.axioms {
			if toks[n] {
				an = append(an, n)
			}
		}
		sort.Strings(an)
		for _, n := range an {
			axText += g.axioms[n] + "\n"
		}
		scan(tokensOf(axText))
	}
	autoText := ""
	usedAuto := map[string]bool{}
	var lnames []string
	for n := range w.lemmas {
		lnames = append(lnames, n)
	}
	sort.Strings(lnames)
	for iter := 0; iter < 6; iter++ {
		changed := false
		for _, n := range lnames {
			lm := w.lemmas[n]
			if !lm.Auto || usedAuto[n] {
				continue
			}
			if strings.HasPrefix(o.Func, "spec:") {
				sf := w.specs[strings.TrimPrefix(o.Func, "spec:")]
				if sf == nil || w.specPkg[sf.Name] != w.lemmaPkg[lm.Name] || lm.Line > sf.Line {
					continue
				}
			}
			if strings.HasPrefix(o.Func, "lemma:") {
				self := strings.TrimPrefix(o.Func, "lemma:")
				if self == lm.Name || !w.lemmaBefore(lm, self) {
					continue
				}
			}
			want := false
			for _, u := range uses {
				if u == n {
					want = true
				}
			}
			for name := range included {
				if triggerMentions(w, lm, name) {
					want = true
				}
			}
			if !want {
				continue
			}
			ax := w.autoLemmaAxiom(lm)
			autoText += ax
			usedAuto[n] = true
			changed = true
			scan(tokensOf(ax))
		}
		if !changed {
			break
		}
	}
	for _, name := range w.specOrder {
		if included[name] {
			d, _ := w.specDefinition(w.specs[name])
			defs = append(defs, d)
		}
	}
	specText := strings.Join(defs, "")
	all := tokensOf(text, specText, autoText, axText)

	var sb strings.Builder
	sb.WriteString("(set-option :produce-models true)\n(set-logic ALL)\n")
	sb.WriteString(basePrelude)
	sb.WriteString("\x00STRUCTS\x00") // filled in at the end: only the struct sorts the finished query mentions
	sb.WriteString(w.strlitDecls(func(n string) bool { return all[n] }))
	if all["substr"] || all["cat"] || all["chr"] || all["bytes2str"] {
		sb.WriteString(stringAxioms)
	}
	// uninterpreted functions for trusted pure callees
	var fnames []string
	for n := range g.funcs {
		if all[n] {
			fnames = append(fnames, n)
		}
	}
	sort.Strings(fnames)
	for _, n := range fnames {
		sb.WriteString(g.funcs[n] + "\n")
	}

	// heap components (initial)
	var comps []string
	for name := range w.compSorts {
		comps = append(comps, name)
	}
	sort.Strings(comps)
	for _, name := range comps {
		if all[name+"_0"] {
			sb.WriteString(fmt.Sprintf("(declare-const %s_0 %s)\n", name, compArraySort(name, w.compSorts[name])))
		}
	}
	for _, name := range g.order {
		if all[name] {
			sb.WriteString(fmt.Sprintf("(declare-const %s %s)\n", name, g.decls[name]))
		}
	}
	// pointers stored in the entry heap refer to objects that existed at entry
	if all["H_Addr_0"] && all["fresh0"] {
		sb.WriteString("(assert (forall ((a!h Addr)) (! (=> (and (< (oid a!h) fresh0) (not (= (select H_Addr_0 a!h) anil))) (and (<= 0 (oid (select H_Addr_0 a!h))) (< (oid (select H_Addr_0 a!h)) fresh0))) :pattern ((select H_Addr_0 a!h)))))\n")
	}
	if all["H_Slice_0"] && all["fresh0"] {
		sb.WriteString("(assert (forall ((a!h Addr)) (! (=> (and (< (oid a!h) fresh0) (not (= (sarr (select H_Slice_0 a!h)) anil))) (and (<= 0 (oid (sarr (select H_Slice_0 a!h)))) (< (oid (sarr (select H_Slice_0 a!h))) fresh0))) :pattern ((select H_Slice_0 a!h)))))\n")
	}
	if all["H_Iface_0"] && all["fresh0"] {
		sb.WriteString("(assert (forall ((a!h Addr)) (! (=> (and (< (oid a!h) fresh0) (not (= (select H_Iface_0 a!h) inil)) (not (= (iref (select H_Iface_0 a!h)) anil))) (and (<= 0 (oid (iref (select H_Iface_0 a!h)))) (< (oid (iref (select H_Iface_0 a!h))) fresh0))) :pattern ((select H_Iface_0 a!h)))))\n")
	}
	// package-level error values of other packages (io.EOF, io.ErrUnexpectedEOF, ...) are pairwise distinct
	var gvals []string
	for _, name := range g.order {
		if all[name] && strings.HasPrefix(name, "gval_") && g.decls[name] == "Iface" {
			gvals = append(gvals, name)
		}
	}
	if len(gvals) > 1 {
		sb.WriteString("(assert (distinct " + strings.Join(gvals, " ") + "))\n")
	}
	sb.WriteString(specText)
	sb.WriteString(autoText)
	sb.WriteString(axText)
	sb.WriteString(text)
	sb.WriteString("(check-sat)\n")
	if !o.Cover && len(o.Inputs) > 0 {
		var gv []string
		var names []string
		for n := range o.Inputs {
			names = append(names, n)
		}
		sort.Strings(names)
		for _, n := range names {
			if t, ok := o.InputTypes[n]; ok {
				w.getValueTerms(o.Inputs[n], t, &gv)
			}
		}
		// only terms over declared symbols can be asked for (an entry-heap component the query never reads is not declared)
		declared := sb.String()
		var ask []string
		for _, t := range gv {
			ok := true
			for _, tok := range tokenRe.FindAllString(t, -1) {
				if strings.HasSuffix(tok, "_0") && (strings.HasPrefix(tok, "H_") || strings.HasPrefix(tok, "G_") || strings.HasPrefix(tok, "M")) && !strings.Contains(declared, "(declare-const "+tok+" ") {
					ok = false
				}
			}
			if ok {
				ask = append(ask, t)
			}
		}
		if len(ask) > 0 {
			sb.WriteString("(get-value (" + strings.Join(ask, " ") + "))\n")
		}
	}
	q := sb.String()
	return strings.Replace(q, "\x00STRUCTS\x00", w.structDecls(func(n string) bool { return strings.Contains(q, n) }), 1)
}

func triggerMentions(w *World, lm *Lemma, spec string) bool {
	for _, t := range lm.Trigger {
		if mentionsCall(t, spec) {
			return true
		}
	}
	return false
}

func (w *World) lemmaBefore(lm *Lemma, other string) bool {
	o, ok := w.lemmas[other]
	if !ok {
		return true
	}
	if w.lemmaPkg[lm.Name] != w.lemmaPkg[o.Name] {
		return true
	}
	return lm.Line < o.Line
}

type solverSpec struct {
	name string
	args func(file string, timeoutS int) []string
}

// Solver portfolio: z3 5.1.0 (z3-new) and cvc5 race per obligation; z3 4.8.12 joins in the thorough tier and in the
// second-chance pass. (For a while all three z3 configurations were suspected of wrong "unsat" answers; the cause
// was an inconsistency in the background axioms - see stringAxioms above and DESIGN.md 7.6 - and the solvers were right.)
var solvers = []solverSpec{
	{"z3-new", func(f string, t int) []string { return []string{"z3-new", fmt.Sprintf("-T:%d", t), f} }},
	{"cvc5", func(f string, t int) []string {
		return []string{"cvc5", fmt.Sprintf("--tlimit=%d", t*1000), "-q", f}
	}},
	{"z3", func(f string, t int) []string { return []string{"z3", fmt.Sprintf("-T:%d", t), f} }},
}

type solveResult struct {
	status string // unsat | sat | unknown
	solver string
	out    string
	time   float64
}

func runSolver(ctx context.Context, sp solverSpec, file string, timeoutS int) solveResult {
	args := sp.args(file, timeoutS)
	start := time.Now()
	cctx, cancel := context.WithTimeout(ctx, time.Duration(timeoutS+2)*time.Second)
	defer cancel()
	cmd := exec.CommandContext(cctx, args[0], args[1:]...)
	var out bytes.Buffer
	cmd.Stdout = &out
	cmd.Stderr = &out
	_ = cmd.Run()
	el := time.Since(start).Seconds()
	text := out.String()
	first := strings.TrimSpace(text)
	if i := strings.Index(first, "\n"); i >= 0 {
		first = strings.TrimSpace(first[:i])
	}
	st := "unknown"
	switch first {
	case "unsat":
		st = "unsat"
	case "sat":
		st = "sat"
	}
	return solveResult{status: st, solver: sp.name, out: text, time: el}
}

// solveOne races the portfolio on one query.
func solveOne(dir string, idx int, query string, timeoutS int, nsolvers int) solveResult {
	file := filepath.Join(dir, fmt.Sprintf("q%d.smt2", idx))
	if err := os.WriteFile(file, []byte(query), 0o644); err != nil {
		return solveResult{status: "unknown", out: err.Error()}
	}
	defer os.Remove(file)
	ctx, cancel := context.WithCancel(context.Background())
	defer cancel()
	ch := make(chan solveResult, len(solvers))
	n := nsolvers
	if n > len(solvers) {
		n = len(solvers)
	}
	for i := 0; i < n; i++ {
		go func(sp solverSpec) { ch <- runSolver(ctx, sp, file, timeoutS) }(solvers[i])
	}
	var last solveResult
	var total float64
	var outs []string
	nerr := 0
	for i := 0; i < n; i++ {
		r := <-ch
		total += r.time
		if strings.HasPrefix(strings.TrimSpace(r.out), "(error") {
			nerr++
		}
		outs = append(outs, fmt.Sprintf("[%s %.2fs] %s", r.solver, r.time, firstLines(r.out, 3)))
		if r.status == "unsat" || r.status == "sat" {
			cancel()
			return r
		}
		last = r
	}
	last.status = "unknown"
	if nerr == n {
		last.status = "error" // every back end rejected the query text: a defect of the generator, not a timeout
	}
	last.out = strings.Join(outs, "\n")
	last.solver = "none"
	return last
}

func firstLines(s string, n int) string {
	lines := strings.Split(strings.TrimSpace(s), "\n")
	if len(lines) > n {
		lines = lines[:n]
	}
	return strings.Join(lines, " | ")
}

type job struct {
	o     *Obligation
	g     *Gen
	uses  []string
	query string
	light string // same goal with only the quantifier-free, spec-function-free hypotheses
	fixed string // a ready-made query (vacuity guard on the background theory)
	preset bool  // decided statically (TAG obligations): no solver run
}

// lightHyps keeps the quantifier-free hypotheses that mention no defined (possibly recursive) spec function;
// uninterpreted spec functions (ghost fields) are harmless and stay.
func (w *World) lightHyps(hyps []string) []string {
	var out []string
	for _, h := range hyps {
		if strings.Contains(h, "(forall ") || strings.Contains(h, "(exists ") {
			continue
		}
		bad := false
		if strings.Contains(h, "spec_") {
			for t := range tokensOf(h) {
				if strings.HasPrefix(t, "spec_") {
					if sf, ok := w.specs[t[5:]]; !ok || sf.Body != nil {
						bad = true
						break
					}
				}
			}
		}
		if !bad {
			out = append(out, h)
		}
	}
	return out
}

// discharge runs all obligations with a worker pool; identical queries are solved once.
func (w *World) discharge(jobs []*job, timeoutS, workers, nsolvers int, keepDir string) {
	dir, err := os.MkdirTemp("", "govc-")
	if err != nil {
		panic(err)
	}
	defer os.RemoveAll(dir)
	{
		var js []*job
		for _, j := range jobs {
			if !j.preset {
				js = append(js, j)
			}
		}
		jobs = js
	}
	for _, j := range jobs {
		if j.fixed != "" {
			j.query = j.fixed
			j.o.Query = j.query
			continue
		}
		j.query = w.buildQuery(j.o, j.g, j.uses)
		j.o.Query = j.query
		if !j.o.Cover && !strings.Contains(j.o.Goal, "spec_") && !strings.Contains(j.o.Goal, "(forall ") {
			lh := w.lightHyps(j.o.Hyps)
			if len(lh) < len(j.o.Hyps) {
				saved := j.o.Hyps
				j.o.Hyps = lh
				j.light = w.buildQuery(j.o, j.g, nil)
				j.o.Hyps = saved
			}
		}
	}
	cache := map[string]*solveResult{}
	var mu sync.Mutex
	type work struct {
		idx   int
		q     string
		light string
		js    []*job
	}
	byQ := map[string]*work{}
	var ws []*work
	for _, j := range jobs {
		if wk, ok := byQ[j.query]; ok {
			wk.js = append(wk.js, j)
			continue
		}
		wk := &work{idx: len(ws), q: j.query, light: j.light, js: []*job{j}}
		byQ[j.query] = wk
		ws = append(ws, wk)
	}
	_ = cache
	chw := make(chan *work)
	var wg sync.WaitGroup
	for i := 0; i < workers; i++ {
		wg.Add(1)
		go func() {
			defer wg.Done()
			for wk := range chw {
				t := timeoutS
				if wk.js[0].o.Cover {
					t = 3
					if wk.js[0].fixed != "" {
						t = 10
					}
				}
				var r solveResult
				if wk.light != "" {
					r = solveOne(dir, wk.idx, wk.light, 2, 1)
					if r.status != "unsat" {
						r2 := solveOne(dir, wk.idx, wk.q, t, nsolvers)
						r2.time += r.time
						r = r2
					}
				} else {
					r = solveOne(dir, wk.idx, wk.q, t, nsolvers)
				}
				mu.Lock()
				for _, j := range wk.js {
					o := j.o
					o.Solver = r.solver
					o.Time = r.time
					if o.Cover {
						if r.status == "unsat" {
							o.Status = "cover-vacuous"
							o.Reason = "hypotheses are contradictory: everything after this point is vacuously true"
						} else {
							o.Status = "cover-ok"
						}
						continue
					}
					switch r.status {
					case "unsat":
						o.Status = "discharged"
					case "sat":
						o.Status = "failed"
						o.Reason = "sat"
						o.Model = r.out
					default:
						o.Status = "failed"
						o.Reason = "no solver decided the goal within " + fmt.Sprint(t) + "s"
						o.Model = r.out
					}
				}
				mu.Unlock()
			}
		}()
	}
	for _, wk := range ws {
		chw <- wk
	}
	close(chw)
	wg.Wait()
	// Second chance for undecided goals: an obligation no solver decided (no model, no error) is asked again, alone
	// on the machine, with three times the time and the whole portfolio. A loaded machine must not turn a proof that
	// normally takes a few seconds into an alarm; a goal that is really false stays undecided or sat.
	{
		var again []*work
		for _, wk := range ws {
			o := wk.js[0].o
			if !o.Cover && o.Status == "failed" && o.Reason != "sat" && !strings.HasPrefix(o.Reason, "every solver rejected") {
				again = append(again, wk)
			}
		}
		if len(again) > 0 && len(again) <= 48 && os.Getenv("GOVC_NORETRY") == "" {
			// up to 16 undecided goals: one at a time; more (a badly overloaded machine, or a change that breaks many
			// obligations at once): three at a time, so that the pass stays within a few minutes
			par := 1
			if len(again) > 16 {
				par = 3
			}
			sem := make(chan struct{}, par)
			var wg2 sync.WaitGroup
			for _, wk := range again {
				wk := wk
				sem <- struct{}{}
				wg2.Add(1)
				go func() {
					defer func() { <-sem; wg2.Done() }()
					t := timeoutS * 3
					r := solveOne(dir, wk.idx, wk.q, t, len(solvers))
					if r.status != "unsat" {
						return
					}
					for _, j := range wk.js {
						j.o.Status = "discharged"
						j.o.Solver = r.solver
						j.o.Time += r.time
						j.o.Reason = ""
						j.o.Model = ""
						j.o.Retried = true
					}
				}()
			}
			wg2.Wait()
		}
	}
	if keepDir != "" {
		os.MkdirAll(keepDir, 0o755)
		nfail := map[string]int{}
		nall := map[string]int{}
		for _, j := range jobs {
			if j.o.Status == "failed" || j.o.Status == "cover-vacuous" {
				// one file per failed instance (an obligation site reached along several paths has several)
				nfail[j.o.Name]++
				os.WriteFile(filepath.Join(keepDir, fmt.Sprintf("%s.fail%d.smt2", sanitize(j.o.Name), nfail[j.o.Name])), []byte(j.query), 0o644)
			}
			if os.Getenv("GOVC_KEEPALL") != "" {
				nall[j.o.Name]++
				os.WriteFile(filepath.Join(keepDir, fmt.Sprintf("%s.inst%d.%s.smt2", sanitize(j.o.Name), nall[j.o.Name], sanitize(j.o.Solver))), []byte(j.query), 0o644)
				os.WriteFile(filepath.Join(keepDir, sanitize(j.o.Name)+".smt2"), []byte(j.query), 0o644)
				if j.light != "" && os.Getenv("GOVC_KEEPALL") != "" {
					os.WriteFile(filepath.Join(keepDir, sanitize(j.o.Name)+".light.smt2"), []byte(j.light), 0o644)
				}
			}
		}
	}
}

// buildAxiomQueries: vacuity guards on the background theory. Everything that is asserted without being a path
// hypothesis - the string axioms, the axioms of uninterpreted spec functions, trusted `axiom` lemmas and trusted pure
// contracts in quantified form - is checked for satisfiability, each group together with the string axioms and the
// definitions it depends on (small queries, patterns stripped so that every axiom is looked at). An inconsistent
// background theory would discharge every obligation.
func (w *World) buildAxiomQueries(gens []*Gen) map[string]string {
	out := map[string]string{}
	mk := func(funcs, body string) string {
		// spec functions mentioned (transitively)
		included := map[string]bool{}
		var add func(name string)
		add = func(name string) {
			if included[name] {
				return
			}
			included[name] = true
			_, deps := w.specDefinition(w.specs[name])
			for _, d := range deps {
				add(d)
			}
		}
		toks := tokensOf(body)
		for name := range w.specs {
			if toks["spec_"+name] {
				add(name)
			}
		}
		var defs strings.Builder
		for _, name := range w.specOrder {
			if included[name] {
				d, _ := w.specDefinition(w.specs[name])
				defs.WriteString(d)
			}
		}
		var sb strings.Builder
		sb.WriteString("(set-logic ALL)\n")
		sb.WriteString(basePrelude)
		sb.WriteString(w.structDecls(nil))
		all := tokensOf(body, defs.String())
		sb.WriteString(w.strlitDecls(func(n string) bool { return all[n] }))
		sb.WriteString(stringAxioms)
		sb.WriteString(funcs)
		sb.WriteString(defs.String())
		sb.WriteString(body)
		sb.WriteString("(check-sat)\n")
		return stripPatterns(sb.String())
	}
	out["strings"] = mk("", "")
	// Intended-model probes: small ground situations that exist in every real execution and therefore must stay
	// satisfiable together with the background axioms. An axiom that is true of real strings but quantifies over too
	// much (e.g. over heap arrays with arbitrary cell values) shows up here as "unsat" even when the solvers cannot
	// refute the bare axiom set within the time limit - the way the bytes2str/at inconsistency stayed hidden.
	probes := map[string]string{
		"wide-cell-under-byte-slice": "(declare-const pr_h (Array Addr Int))\n(declare-const pr_b Slice)\n(assert (= (slen pr_b) 2))\n(assert (= (select pr_h (selem pr_b 0)) 1000))\n(assert (= (select pr_h (selem pr_b 1)) (- 5)))\n(assert (>= (at (bytes2str pr_h pr_b) 0) 0))\n(assert (>= (at (bytes2str pr_h pr_b) 1) 0))\n(assert (>= (len (bytes2str pr_h pr_b)) 0))\n",
		"long-concatenation":         "(declare-const pr_s Str)\n(declare-const pr_t Str)\n(assert (= (len pr_s) 4611686018427387904))\n(assert (= (len pr_t) 4611686018427387904))\n(assert (>= (len (cat pr_s pr_t)) 0))\n(assert (>= (at (cat pr_s pr_t) 0) 0))\n",
		"negative-slice-length":      "(declare-const pr_h (Array Addr Int))\n(declare-const pr_b Slice)\n(assert (= (slen pr_b) (- 1)))\n(assert (>= (len (bytes2str pr_h pr_b)) 0))\n",
		"odd-substring-bounds":       "(declare-const pr_s Str)\n(assert (= (len pr_s) 3))\n(assert (>= (len (substr pr_s 2 1)) 0))\n(assert (>= (len (substr pr_s (- 1) 7)) 0))\n(assert (>= (at (substr pr_s 0 3) 5) 0))\n",
		"non-ascii-chr":              "(assert (>= (len (chr 200)) 0))\n(assert (>= (len (chr (- 3))) 0))\n(assert (>= (at (chr 1114112) 0) 0))\n(assert (>= (len (chr 65)) 0))\n",
	}
	for n, body := range probes {
		// probes keep the patterns: the point is that ordinary E-matching finds the contradiction at once
		q := mk("", body)
		_ = q
		var sb strings.Builder
		sb.WriteString("(set-logic ALL)\n")
		sb.WriteString(basePrelude)
		sb.WriteString(stringAxioms)
		sb.WriteString(body)
		sb.WriteString("(check-sat)\n")
		out["probe."+n] = sb.String()
	}
	for _, name := range w.specOrder {
		sf := w.specs[name]
		if sf.Body == nil && len(sf.Axioms) > 0 {
			d, _ := w.specDefinition(sf)
			_ = d
			out["spec_"+name] = mk("", "(assert (= (spec_"+name+placeholderArgs(w, sf)+") (spec_"+name+placeholderArgs(w, sf)+")))\n")
		}
	}
	for n, lm := range w.lemmas {
		if lm.Axiom {
			out["axiom_"+n] = mk("", w.autoLemmaAxiom(lm))
		}
	}
	for _, g := range gens {
		for n, ax := range g.axioms {
			if _, done := out["contract_"+n]; !done {
				out["contract_"+n] = mk(g.funcs[n]+"\n", ax+"\n")
			}
		}
	}
	return out
}

// placeholderArgs: an application of the function to fresh-looking literal arguments is not needed; mentioning the
// symbol through a nullary-safe trick would require declarations, so the definition itself (with its axioms) is
// pulled in by naming the function in a tautology over declared constants of the right sorts.
func placeholderArgs(w *World, sf *SpecFunc) string {
	var sb strings.Builder
	for _, p := range sf.Params {
		t := w.resolveType(w.specPkg[sf.Name], p.Type)
		sb.WriteString(" " + w.zero(t))
	}
	return sb.String()
}

// stripPatterns rewrites (! body :pattern (...)) to body.
func stripPatterns(s string) string {
	var sb strings.Builder
	for i := 0; i < len(s); {
		if strings.HasPrefix(s[i:], "(! ") {
			// find the matching close and the top-level :pattern
			d := 0
			end := -1
			pat := -1
			for j := i; j < len(s); j++ {
				switch s[j] {
				case '(':
					d++
				case ')':
					d--
					if d == 0 {
						end = j
					}
				}
				if d == 1 && pat < 0 && strings.HasPrefix(s[j:], " :pattern ") {
					pat = j
				}
				if end >= 0 {
					break
				}
			}
			if end > 0 && pat > 0 {
				sb.WriteString(stripPatterns(s[i+3 : pat]))
				i = end + 1
				continue
			}
		}
		sb.WriteByte(s[i])
		i++
	}
	return sb.String()
}
