package main

// SMT term helpers, sorts, world-level declarations.

import (
	"fmt"
	"go/constant"
	"go/types"
	"math/big"
	"sort"
	"strings"

	"golang.org/x/tools/go/ssa"
)

// Val is a symbolic value.
type Val struct {
	S     string     // SMT term
	Sort  string     // SMT sort
	T     types.Type // Go type where known (nil for ghost/mathematical values)
	Place *Place     // pointer into a local-mode cell
	Tuple []Val      // multi-value
	Fn    *ssa.Function
	Bind  []Val // closure bindings when Fn != nil
}

type Place struct {
	FrameID int
	Alloc *ssa.Alloc
	Path  []PathElem
}

type PathElem struct {
	Field int    // field index, or -1 for array index
	Index string // SMT index term for array element
}

func app(op string, args ...string) string {
	if len(args) == 0 {
		return op
	}
	return "(" + op + " " + strings.Join(args, " ") + ")"
}

func sand(xs ...string) string {
	var ys []string
	for _, x := range xs {
		if x == "true" || x == "" {
			continue
		}
		if x == "false" {
			return "false"
		}
		if strings.HasPrefix(x, "(and ") && balancedOne(x) {
			ys = append(ys, splitArgs(x[5:len(x)-1])...)
			continue
		}
		ys = append(ys, x)
	}
	if len(ys) == 0 {
		return "true"
	}
	if len(ys) == 1 {
		return ys[0]
	}
	return app("and", ys...)
}

func sor(xs ...string) string {
	var ys []string
	for _, x := range xs {
		if x == "false" || x == "" {
			continue
		}
		if x == "true" {
			return "true"
		}
		ys = append(ys, x)
	}
	if len(ys) == 0 {
		return "false"
	}
	if len(ys) == 1 {
		return ys[0]
	}
	return app("or", ys...)
}

func snot(x string) string {
	if x == "true" {
		return "false"
	}
	if x == "false" {
		return "true"
	}
	if strings.HasPrefix(x, "(not ") && balancedOne(x[5:len(x)-1]) {
		return x[5 : len(x)-1]
	}
	return app("not", x)
}

// balancedOne reports whether s is a single s-expression.
func balancedOne(s string) bool {
	if len(s) == 0 {
		return false
	}
	if s[0] != '(' {
		return !strings.ContainsAny(s, " ()")
	}
	d := 0
	for i := 0; i < len(s); i++ {
		switch s[i] {
		case '(':
			d++
		case ')':
			d--
			if d == 0 && i != len(s)-1 {
				return false
			}
		}
	}
	return d == 0
}

func simplies(a, b string) string {
	if a == "true" {
		return b
	}
	if a == "false" || b == "true" {
		return "true"
	}
	return app("=>", a, b)
}

func site(c, a, b string) string {
	if c == "true" {
		return a
	}
	if c == "false" {
		return b
	}
	if a == b {
		return a
	}
	return app("ite", c, a, b)
}

func intLit(s string) string {
	if strings.HasPrefix(s, "-") {
		return "(- " + s[1:] + ")"
	}
	return s
}

func bigLit(b *big.Int) string { return intLit(b.String()) }

// ---------- sorts ----------

type StructInfo struct {
	Sort   string
	T      *types.Struct
	Named  string
	Fields []string // sorts
	Tags   []int    // global field tags
}

type World struct {
	prog        *ssa.Program
	logSigs     map[string]*types.Signature // call-log name -> signature (lazily built)
	pkgs        map[string]*PkgInfo
	structs     map[string]*StructInfo
	structByT   map[string]*StructInfo // by type string
	structOrder []string
	strlits     map[string]string
	strlitOrder []string
	specs       map[string]*SpecFunc
	specOrder   []string
	specPkg     map[string]*PkgInfo
	lemmas      map[string]*Lemma
	lemmaPkg    map[string]*PkgInfo
	contracts   map[string]*FuncContract // by full ssa function name (String())
	nextTag     int
	tagNames    map[int]string
	globals     map[string]string // global var full name -> const symbol
	globalSort  map[string]string
	typeIDs     map[string]int
	compSorts   map[string]string // heap component name -> value sort
	ghostFns    map[string]string // declared uninterpreted fns: name -> decl
	ghostOrder  []string
	specDefs    map[string]string // spec function name -> SMT definition text (filled lazily)
	specDeps    map[string][]string
	specHeap    map[string][]string
	ghostFields map[string]map[string]*ghostFieldInfo // owner type string -> field name -> info
	lock      nameLock
	lockNotes map[string]bool
	uncovered []string // exported functions of the involved packages outside every contract of this run
	closure   []string // callees pulled into the property check because a target relies on their contract
	pendingGhosts []*GhostField
	ghostVars     map[string]*ghostVarInfo
	specHeapBusy map[string]bool
	errs        []string
}

func newWorld() *World {
	return &World{
		lockNotes: map[string]bool{},
		pkgs: map[string]*PkgInfo{}, structs: map[string]*StructInfo{}, structByT: map[string]*StructInfo{},
		strlits: map[string]string{}, specs: map[string]*SpecFunc{}, specPkg: map[string]*PkgInfo{},
		lemmas: map[string]*Lemma{}, lemmaPkg: map[string]*PkgInfo{}, contracts: map[string]*FuncContract{},
		tagNames: map[int]string{}, globals: map[string]string{}, globalSort: map[string]string{},
		typeIDs: map[string]int{}, compSorts: map[string]string{}, ghostFns: map[string]string{},
		specDefs: map[string]string{}, specDeps: map[string][]string{}, specHeap: map[string][]string{}, specHeapBusy: map[string]bool{}, ghostFields: map[string]map[string]*ghostFieldInfo{},
	}
}

func sanitize(s string) string {
	var sb strings.Builder
	for _, r := range s {
		if (r >= 'a' && r <= 'z') || (r >= 'A' && r <= 'Z') || (r >= '0' && r <= '9') || r == '_' {
			sb.WriteRune(r)
		} else {
			sb.WriteByte('_')
		}
	}
	return sb.String()
}

type unsupported struct{ msg string }

func (u unsupported) Error() string { return u.msg }

func unsup(format string, a ...interface{}) {
	panic(unsupported{fmt.Sprintf(format, a...)})
}

// sortOf maps a Go type to an SMT sort name, declaring struct datatypes on demand.
func (w *World) sortOf(t types.Type) string {
	switch u := t.Underlying().(type) {
	case *types.Basic:
		switch {
		case u.Info()&types.IsInteger != 0:
			return "Int"
		case u.Info()&types.IsBoolean != 0:
			return "Bool"
		case u.Info()&types.IsString != 0:
			return "Str"
		case u.Kind() == types.UnsafePointer:
			return "Addr"
		case u.Kind() == types.UntypedNil:
			return "Addr"
		case u.Info()&types.IsFloat != 0:
			return "Real"
		}
		unsup("basic type %s", t)
	case *types.Pointer, *types.Map, *types.Chan:
		return "Addr"
	case *types.Slice:
		return "Slice"
	case *types.Interface:
		return "Iface"
	case *types.Signature:
		return "Int"
	case *types.Struct:
		return w.structInfo(t).Sort
	case *types.Array:
		return "(Array Int " + w.sortOf(u.Elem()) + ")"
	case *types.Tuple:
		return "Tuple"
	}
	unsup("type %s", t)
	return ""
}

func (w *World) structInfo(t types.Type) *StructInfo {
	key := types.TypeString(t, nil)
	if si, ok := w.structByT[key]; ok {
		return si
	}
	st := t.Underlying().(*types.Struct)
	name := "S_" + sanitize(key)
	if len(name) > 60 {
		name = fmt.Sprintf("%s_%d", name[:50], len(w.structs))
	}
	si := &StructInfo{Sort: name, T: st, Named: key}
	w.structByT[key] = si
	w.structs[name] = si
	for i := 0; i < st.NumFields(); i++ {
		si.Fields = append(si.Fields, w.sortOf(st.Field(i).Type()))
		w.nextTag++
		si.Tags = append(si.Tags, w.nextTag)
		w.tagNames[w.nextTag] = key + "." + st.Field(i).Name()
	}
	w.structOrder = append(w.structOrder, name)
	return si
}

func (w *World) typeID(t types.Type) int {
	k := types.TypeString(t, nil)
	if id, ok := w.typeIDs[k]; ok {
		return id
	}
	id := len(w.typeIDs) + 1
	w.typeIDs[k] = id
	return id
}

func selName(si *StructInfo, i int) string { return fmt.Sprintf("%s_f%d", si.Sort, i) }

func (w *World) mkStruct(si *StructInfo, fields []string) string {
	if len(fields) == 0 {
		return "mk_" + si.Sort
	}
	return app("mk_"+si.Sort, fields...)
}

func (w *World) structUpdate(si *StructInfo, x string, k int, v string) string {
	fs := make([]string, len(si.Fields))
	for i := range fs {
		if i == k {
			fs[i] = v
		} else {
			fs[i] = selApp(si, i, x)
		}
	}
	return w.mkStruct(si, fs)
}

// zero value of a type as SMT term
func (w *World) zero(t types.Type) string {
	switch u := t.Underlying().(type) {
	case *types.Basic:
		switch {
		case u.Info()&types.IsInteger != 0:
			return "0"
		case u.Info()&types.IsBoolean != 0:
			return "false"
		case u.Info()&types.IsString != 0:
			return w.strLit("")
		case u.Kind() == types.UnsafePointer || u.Kind() == types.UntypedNil:
			return "anil"
		case u.Info()&types.IsFloat != 0:
			return "0.0"
		}
	case *types.Pointer, *types.Map, *types.Chan:
		return "anil"
	case *types.Slice:
		return "(mk_slice anil 0 0 0)"
	case *types.Interface:
		return "inil"
	case *types.Signature:
		return "0"
	case *types.Struct:
		si := w.structInfo(t)
		fs := make([]string, len(si.Fields))
		for i := range fs {
			fs[i] = w.zero(u.Field(i).Type())
		}
		return w.mkStruct(si, fs)
	case *types.Array:
		return fmt.Sprintf("((as const %s) %s)", w.sortOf(t), w.zero(u.Elem()))
	}
	unsup("zero of %s", t)
	return ""
}

func (w *World) strLit(s string) string {
	if n, ok := w.strlits[s]; ok {
		return n
	}
	n := fmt.Sprintf("strlit_%d", len(w.strlits))
	w.strlits[s] = n
	w.strlitOrder = append(w.strlitOrder, s)
	return n
}

// intRange returns the value range of an integer type.
func intRange(t types.Type) (lo, hi string, ok bool) {
	b, isb := t.Underlying().(*types.Basic)
	if !isb || b.Info()&types.IsInteger == 0 {
		return "", "", false
	}
	switch b.Kind() {
	case types.Int, types.Int64:
		return "(- 9223372036854775808)", "9223372036854775807", true
	case types.Int32:
		return "(- 2147483648)", "2147483647", true
	case types.Int16:
		return "(- 32768)", "32767", true
	case types.Int8:
		return "(- 128)", "127", true
	case types.Uint, types.Uint64, types.Uintptr:
		return "0", "18446744073709551615", true
	case types.Uint32:
		return "0", "4294967295", true
	case types.Uint16:
		return "0", "65535", true
	case types.Uint8:
		return "0", "255", true
	}
	return "", "", false
}

func intBits(t types.Type) (bits int, signed bool) {
	b := t.Underlying().(*types.Basic)
	switch b.Kind() {
	case types.Int, types.Int64:
		return 64, true
	case types.Int32:
		return 32, true
	case types.Int16:
		return 16, true
	case types.Int8:
		return 8, true
	case types.Uint, types.Uint64, types.Uintptr:
		return 64, false
	case types.Uint32:
		return 32, false
	case types.Uint16:
		return 16, false
	case types.Uint8:
		return 8, false
	}
	return 64, true
}

func pow2(n int) string {
	return new(big.Int).Lsh(big.NewInt(1), uint(n)).String()
}

// wrapInt gives the value of mathematical x converted to integer type t (two's complement wrap).
func wrapInt(x string, t types.Type) string {
	bits, signed := intBits(t)
	m := pow2(bits)
	if !signed {
		return app("mod", x, m)
	}
	h := pow2(bits - 1)
	// ((x + h) mod m) - h
	return app("-", app("mod", app("+", x, h), m), h)
}

func constVal(w *World, c *ssa.Const) Val {
	t := c.Type()
	if c.Value == nil {
		return Val{S: w.zero(t), Sort: w.sortOf(t), T: t}
	}
	switch c.Value.Kind() {
	case constant.Int:
		bi, _ := new(big.Int).SetString(c.Value.ExactString(), 10)
		if bi == nil {
			unsup("const %s", c.Value)
		}
		return Val{S: bigLit(bi), Sort: "Int", T: t}
	case constant.Bool:
		if constant.BoolVal(c.Value) {
			return Val{S: "true", Sort: "Bool", T: t}
		}
		return Val{S: "false", Sort: "Bool", T: t}
	case constant.String:
		return Val{S: w.strLit(constant.StringVal(c.Value)), Sort: "Str", T: t}
	}
	unsup("const kind %v", c.Value.Kind())
	return Val{}
}

// ---------- prelude ----------

const basePrelude = `
(declare-sort Str 0)
(declare-fun len (Str) Int)
(declare-fun at (Str Int) Int)
(declare-fun substr (Str Int Int) Str)
(declare-fun cat (Str Str) Str)
(declare-fun chr (Int) Str)
(declare-datatypes ((Path 0)) (((pnil) (pfld (pfbase Path) (pftag Int)) (pidx (pibase Path) (piidx Int)))))
(declare-datatypes ((Addr 0)) (((anil) (loc (oid Int) (path Path)))))
(declare-datatypes ((Slice 0)) (((mk_slice (sarr Addr) (soff Int) (slen Int) (scap Int)))))
(declare-datatypes ((Iface 0)) (((inil) (iface (tid Int) (ival Int) (iref Addr)))))
(declare-fun fld (Addr Int) Addr)
(declare-fun idx (Addr Int) Addr)
(declare-fun selem (Slice Int) Addr)
(define-fun sgn ((x Int)) Int (ite (< x 0) (- 1) (ite (> x 0) 1 0)))
(define-fun abs_ ((x Int)) Int (ite (< x 0) (- x) x))
(define-fun min_ ((x Int) (y Int)) Int (ite (< x y) x y))
(define-fun max_ ((x Int) (y Int)) Int (ite (< x y) y x))
(declare-fun itoa (Int) Str)
(declare-fun bytes2str ((Array Addr Int) Slice) Str)
; address arithmetic is kept behind function symbols so that quantifier patterns over fld/idx/selem match
; syntactically; the definitions are instantiated on demand
(assert (forall ((a Addr) (k Int)) (! (= (fld a k) (loc (oid a) (pfld (path a) k))) :pattern ((fld a k)))))
(assert (forall ((a Addr) (i Int)) (! (= (idx a i) (loc (oid a) (pidx (path a) i))) :pattern ((idx a i)))))
(assert (forall ((s Slice) (i Int)) (! (= (selem s i) (loc (oid (sarr s)) (pidx (path (sarr s)) (+ (soff s) i)))) :pattern ((selem s i)))))
(declare-fun errstr (Iface) Str)
(declare-fun sentinel (Iface) Bool)
(assert (forall ((s Str)) (! (>= (len s) 0) :pattern ((len s)))))
`

// strlit axioms: length and bytes
func (w *World) strlitDecls(used func(string) bool) string {
	var sb strings.Builder
	var names []string
	for _, s := range w.strlitOrder {
		n := w.strlits[s]
		if !used(n) {
			continue
		}
		names = append(names, n)
		fmt.Fprintf(&sb, "(declare-const %s Str)\n(assert (= (len %s) %d))\n", n, n, len(s))
		for i := 0; i < len(s); i++ {
			fmt.Fprintf(&sb, "(assert (= (at %s %d) %d))\n", n, i, s[i])
		}
	}
	// distinctness of literals with equal length follows from at facts when they differ; literals of different
	// length are distinct by len. Nothing more is needed.
	return sb.String()
}

func (w *World) structDecls(used func(string) bool) string {
	var sb strings.Builder
	// emit in creation order, but nested struct sorts must precede users: creation order from sortOf recursion
	// registers inner structs first only if sortOf(field) ran before appending; ensure by sorting on dependency.
	emitted := map[string]bool{}
	var emit func(name string)
	emit = func(name string) {
		if emitted[name] {
			return
		}
		emitted[name] = true
		si := w.structs[name]
		for _, f := range si.Fields {
			for dep := range w.structs {
				if strings.Contains(f, dep) && dep != name {
					emit(dep)
				}
			}
		}
		if len(si.Fields) == 0 {
			fmt.Fprintf(&sb, "(declare-datatypes ((%s 0)) (((mk_%s))))\n", name, name)
			return
		}
		fmt.Fprintf(&sb, "(declare-datatypes ((%s 0)) (((mk_%s", name, name)
		for i, f := range si.Fields {
			fmt.Fprintf(&sb, " (%s %s)", selName(si, i), f)
		}
		sb.WriteString("))))\n")
	}
	names := append([]string(nil), w.structOrder...)
	sort.Strings(names)
	for _, n := range names {
		// only the struct sorts the query mentions (and what they are built from): a declaration nobody uses still
		// changes what the solvers do - an unused sort made z3 4.8.12 answer unknown on a goal it proved without it
		if used == nil || used(n) {
			emit(n)
		}
	}
	return sb.String()
}

// selApp applies a field selector, simplifying selection from a constructor application.
func selApp(si *StructInfo, k int, x string) string {
	p := "(mk_" + si.Sort + " "
	if strings.HasPrefix(x, p) && balancedOne(x) {
		args := splitArgs(x[len(p) : len(x)-1])
		if len(args) == len(si.Fields) {
			return args[k]
		}
	}
	return app(selName(si, k), x)
}

type ghostVarInfo struct {
	id   int
	text string
	T    types.Type
}

// ghostVar: specification-only global state. A map-typed ghost variable IS a constant non-nil map reference (the
// map it refers to is mutable); any other ghost variable is a heap cell at a constant address of its own.
func (w *World) ghostVar(name string) (addr string, t types.Type, ok bool) {
	gv, found := w.ghostVars[name]
	if !found {
		return "", nil, false
	}
	if gv.T == nil {
		ft := w.resolveType(nil, gv.text)
		if _, isMap := ft.Underlying().(*types.Map); isMap {
			gv.T = ft
		} else {
			gv.T = types.NewNamed(types.NewTypeName(0, nil, "ghost$var_"+sanitize(name), nil), ft.Underlying(), nil)
		}
	}
	return fmt.Sprintf("(loc (- 0 %d) pnil)", 5000000+gv.id), gv.T, true
}

type ghostFieldInfo struct {
	Tag int
	T   types.Type
}

// ghostField looks up a specification-only field of struct type t.
func (w *World) ghostField(t types.Type, name string) *ghostFieldInfo {
	w.resolveGhosts()
	if m, ok := w.ghostFields[types.TypeString(t, nil)]; ok {
		return m[name]
	}
	return nil
}

func (w *World) resolveGhosts() {
	if len(w.pendingGhosts) == 0 {
		return
	}
	pend := w.pendingGhosts
	w.pendingGhosts = nil
	for _, g := range pend {
		owner := w.resolveType(nil, g.Owner)
		ft := w.resolveType(nil, g.Type)
		key := types.TypeString(owner, nil)
		if w.ghostFields[key] == nil {
			w.ghostFields[key] = map[string]*ghostFieldInfo{}
		}
		w.nextTag++
		w.tagNames[w.nextTag] = key + "." + g.Name + " (ghost)"
		// a ghost field gets a heap component of its own (a distinct named type), so that writing it never creates
		// a new version of the component real fields of the same sort live in
		gname := "ghost$" + sanitize(key+"."+g.Name)
		named := types.NewNamed(types.NewTypeName(0, nil, gname, nil), ft.Underlying(), nil)
		w.ghostFields[key][g.Name] = &ghostFieldInfo{Tag: w.nextTag, T: named}
	}
}
