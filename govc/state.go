package main

import (
	"fmt"
	"go/types"
	"sort"
	"strings"

	"golang.org/x/tools/go/ssa"
)

// Frame is one activation (top-level function under contract, or an inlined callee).
type Frame struct {
	fn      *ssa.Function
	fc      *FuncContract
	vals    map[ssa.Value]Val
	cells   map[*ssa.Alloc]Val
	parent  *Frame
	li      *LoopInfo
	defers  []*ssa.Defer
	depth   int
	params  map[string]Val
	results []Val // set at return (for postconditions)
	id      int
	entry   *State // snapshot at function entry (top frame only)
	loopVar map[int][]string
}

type State struct {
	top   *Frame
	heap  map[string]string
	pc    []string
	snaps map[string]*State
	nobj  int // number of objects allocated on this path since nobjBase
	nobjBase string
	formal bool // heap components are the formal parameters of a heap-reading spec function
	iters  map[ssa.Value]string // map-range iterators: set of visited keys (Array K Bool)
	path  []string
	dead  bool
	// calls: per callee (short name), the contracted calls made on this path so far, in order (for callarg/callres/ncalls
	// in postconditions: "what was handed to the parser is the field's text"); callsLost: a loop was cut since the entry,
	// the log is no longer the whole story
	calls     map[string][]callRec
	callsLost bool
	recent    map[string][]callRec // the calls since the last loop cut (negative ordinals count from the end of these)
}

type callRec struct {
	args []Val
	res  Val
}

func (f *Frame) clone(memo map[*Frame]*Frame) *Frame {
	if f == nil {
		return nil
	}
	if g, ok := memo[f]; ok {
		return g
	}
	g := &Frame{fn: f.fn, fc: f.fc, li: f.li, depth: f.depth, params: f.params, id: f.id, entry: f.entry}
	memo[f] = g
	g.vals = make(map[ssa.Value]Val, len(f.vals))
	for k, v := range f.vals {
		g.vals[k] = v
	}
	g.cells = make(map[*ssa.Alloc]Val, len(f.cells))
	for k, v := range f.cells {
		g.cells[k] = v
	}
	g.defers = append([]*ssa.Defer(nil), f.defers...)
	g.results = f.results
	g.loopVar = make(map[int][]string, len(f.loopVar))
	for k, v := range f.loopVar {
		g.loopVar[k] = v
	}
	g.parent = f.parent.clone(memo)
	return g
}

func (s *State) clone() *State {
	memo := map[*Frame]*Frame{}
	t := &State{top: s.top.clone(memo), nobj: s.nobj, nobjBase: s.nobjBase, dead: s.dead}
	t.heap = make(map[string]string, len(s.heap))
	for k, v := range s.heap {
		t.heap[k] = v
	}
	t.pc = append([]string(nil), s.pc...)
	t.path = append([]string(nil), s.path...)
	if len(s.iters) > 0 {
		t.iters = make(map[ssa.Value]string, len(s.iters))
		for k, v := range s.iters {
			t.iters[k] = v
		}
	}
	t.formal = s.formal
	t.callsLost = s.callsLost
	if len(s.calls) > 0 {
		t.calls = make(map[string][]callRec, len(s.calls))
		for k, v := range s.calls {
			t.calls[k] = append([]callRec(nil), v...)
		}
	}
	if len(s.recent) > 0 {
		t.recent = make(map[string][]callRec, len(s.recent))
		for k, v := range s.recent {
			t.recent[k] = append([]callRec(nil), v...)
		}
	}
	t.snaps = make(map[string]*State, len(s.snaps))
	for k, v := range s.snaps {
		t.snaps[k] = v
	}
	return t
}

func (s *State) assume(h string) {
	if h == "true" || h == "" {
		return
	}
	s.pc = append(s.pc, h)
}

// ---------- loops ----------

type Loop struct {
	Ordinal int
	Head    *ssa.BasicBlock
	Blocks  map[*ssa.BasicBlock]bool
	Pos     int // source position of the for statement (token.Pos as int)
	Parent  *Loop
}

type LoopInfo struct {
	ByHead map[*ssa.BasicBlock]*Loop
	Loops  []*Loop
}

func analyzeLoops(fn *ssa.Function) *LoopInfo {
	li := &LoopInfo{ByHead: map[*ssa.BasicBlock]*Loop{}}
	if len(fn.Blocks) == 0 {
		return li
	}
	for _, b := range fn.Blocks {
		for _, s := range b.Succs {
			if s.Dominates(b) { // back edge b -> s
				l := li.ByHead[s]
				if l == nil {
					l = &Loop{Head: s, Blocks: map[*ssa.BasicBlock]bool{s: true}}
					li.ByHead[s] = l
					li.Loops = append(li.Loops, l)
				}
				// natural loop: all nodes that reach b without passing s
				var stack []*ssa.BasicBlock
				if !l.Blocks[b] {
					l.Blocks[b] = true
					stack = append(stack, b)
				}
				for len(stack) > 0 {
					x := stack[len(stack)-1]
					stack = stack[:len(stack)-1]
					for _, p := range x.Preds {
						if !l.Blocks[p] {
							l.Blocks[p] = true
							stack = append(stack, p)
						}
					}
				}
			}
		}
	}
	// order loops by the source position of the loop statement; fall back to head block index
	for _, l := range li.Loops {
		l.Pos = loopPos(l)
	}
	sort.SliceStable(li.Loops, func(i, j int) bool {
		if li.Loops[i].Pos != li.Loops[j].Pos {
			return li.Loops[i].Pos < li.Loops[j].Pos
		}
		return li.Loops[i].Head.Index < li.Loops[j].Head.Index
	})
	for i, l := range li.Loops {
		l.Ordinal = i + 1
	}
	for _, l := range li.Loops {
		for _, m := range li.Loops {
			if m != l && m.Blocks[l.Head] && len(m.Blocks) > len(l.Blocks) {
				if l.Parent == nil || len(m.Blocks) < len(l.Parent.Blocks) {
					l.Parent = m
				}
			}
		}
	}
	return li
}

// loopPos: smallest source position among instructions in the loop (approximates the for statement position;
// monotone in source order for structured loops, which is all that the ordinal needs).
func loopPos(l *Loop) int {
	best := 0
	for b := range l.Blocks {
		for _, in := range b.Instrs {
			p := int(in.Pos())
			if p > 0 && (best == 0 || p < best) {
				best = p
			}
			// operands positions are not needed
		}
	}
	return best
}

// ---------- heap ----------

// heap components are keyed by cell type: one per SMT sort, and one per Go integer type (a *int64 never aliases a
// []byte element; unsafe is outside the subset)
func compName(key string) string {
	if strings.HasPrefix(key, "Int:") {
		return "H_Int_" + sanitize(key[4:])
	}
	if strings.HasPrefix(key, "Ghost:") {
		return "G_" + sanitize(key[6:strings.LastIndex(key, ":")])
	}
	switch key {
	case "Int", "Bool", "Str", "Addr", "Slice", "Iface", "Real":
		return "H_" + key
	}
	return "H_" + sanitize(key)
}

func compValueSort(key string) string {
	if strings.HasPrefix(key, "Int:") {
		return "Int"
	}
	if strings.HasPrefix(key, "Ghost:") {
		return key[strings.LastIndex(key, ":")+1:]
	}
	return key
}

func (w *World) compKey(t types.Type) string {
	if n, ok := t.(*types.Named); ok && strings.HasPrefix(n.Obj().Name(), "ghost$") {
		return "Ghost:" + n.Obj().Name()[6:] + ":" + w.sortOf(t)
	}
	if b, ok := t.Underlying().(*types.Basic); ok && b.Info()&types.IsInteger != 0 {
		// by kind, so that byte/uint8 and rune/int32 share a component
		return "Int:" + types.Typ[b.Kind()].Name()
	}
	return w.sortOf(t)
}

func (w *World) comp(st *State, key string) (name, cur string) {
	name = compName(key)
	if _, ok := w.compSorts[name]; !ok {
		w.compSorts[name] = compValueSort(key)
	}
	cur = w.compByName(st, name)
	return
}

// compByName returns the current term of a heap component (its initial value if it was never written).
func (w *World) compByName(st *State, name string) string {
	cur, ok := st.heap[name]
	if !ok {
		if st.formal {
			cur = "hp_" + name
		} else {
			cur = name + "_0"
		}
		st.heap[name] = cur
	}
	return cur
}

func isStructT(t types.Type) bool {
	_, ok := t.Underlying().(*types.Struct)
	return ok
}

func isArrayT(t types.Type) bool {
	_, ok := t.Underlying().(*types.Array)
	return ok
}

// heapLoad reads a value of type t at address a.
func (w *World) heapLoad(st *State, a string, t types.Type) string {
	switch u := t.Underlying().(type) {
	case *types.Struct:
		si := w.structInfo(t)
		fs := make([]string, len(si.Fields))
		for i := range fs {
			fs[i] = w.heapLoad(st, app("fld", a, fmt.Sprint(si.Tags[i])), u.Field(i).Type())
		}
		return w.mkStruct(si, fs)
	case *types.Array:
		unsup("load of array value from heap")
	}
	_, cur := w.comp(st, w.compKey(t))
	return app("select", cur, a)
}

func (w *World) heapStore(st *State, a string, t types.Type, v string) {
	switch u := t.Underlying().(type) {
	case *types.Struct:
		si := w.structInfo(t)
		for i := range si.Fields {
			w.heapStore(st, app("fld", a, fmt.Sprint(si.Tags[i])), u.Field(i).Type(), selApp(si, i, v))
		}
		return
	case *types.Array:
		unsup("store of array value to heap")
	}
	name, cur := w.comp(st, w.compKey(t))
	st.heap[name] = app("store", cur, a, v)
}

// ---------- fresh symbols ----------

type Gen struct {
	w     *World
	n     int
	decls map[string]string // const -> sort
	order []string
	funcs map[string]string // declared function symbols -> full declaration
	axioms map[string]string // function symbol -> quantified axiom (trusted pure contract)
}

func newGen(w *World) *Gen {
	return &Gen{w: w, decls: map[string]string{}, funcs: map[string]string{}, axioms: map[string]string{}}
}

func (g *Gen) fresh(prefix, sort string) string {
	g.n++
	name := fmt.Sprintf("%s!%d", sanitize(prefix), g.n)
	g.decls[name] = sort
	g.order = append(g.order, name)
	return name
}

func (g *Gen) named(name, sort string) string {
	if _, ok := g.decls[name]; !ok {
		g.decls[name] = sort
		g.order = append(g.order, name)
	}
	return name
}

// typeFacts returns well-formedness facts for a fresh value v of Go type t.
func (w *World) typeFacts(v string, t types.Type) []string {
	var out []string
	switch u := t.Underlying().(type) {
	case *types.Basic:
		if lo, hi, ok := intRange(t); ok {
			out = append(out, app("<=", lo, v), app("<=", v, hi))
		}
		if u.Info()&types.IsString != 0 {
			out = append(out, app(">=", app("len", v), "0"), app("<=", app("len", v), "4611686018427387904"))
		}
	case *types.Slice:
		out = append(out, app("<=", "0", app("soff", v)), app("<=", "0", app("slen", v)), app("<=", app("slen", v), app("scap", v)), app("<=", app("scap", v), "4611686018427387904"),
			app("=>", app("=", app("sarr", v), "anil"), app("=", app("scap", v), "0")))
	case *types.Struct:
		si := w.structInfo(t)
		for i := range si.Fields {
			out = append(out, w.typeFacts(selApp(si, i, v), u.Field(i).Type())...)
		}
	}
	return out
}

// boundFacts: well-formedness guards for a quantified variable. The size limit (no string or slice longer than 2^62)
// is left out: under a universal quantifier that is used as a hypothesis it would exclude long strings from the
// statement, e.g. a concatenation whose length cannot be bounded.
func (w *World) boundFacts(v string, t types.Type) []string {
	var out []string
	for _, f := range w.typeFacts(v, t) {
		if !strings.Contains(f, "4611686018427387904") {
			out = append(out, f)
		}
	}
	return out
}

func describePath(p []string) string {
	return strings.Join(p, " ")
}
