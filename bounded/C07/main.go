// C07 bounded stand-in: the deb822 reader returns the model's paragraphs (Next loop, All, Unmarshal into []T agree),
// and on arbitrary input every returned paragraph has exactly one value per listed field, each listed once.
package main

import (
	"bufio"
	"encoding/json"
	"fmt"
	"hash/fnv"
	"io"
	"math/rand"
	"os"
	"runtime"
	"runtime/debug"
	"sort"
	"strconv"
	"strings"
	"sync"

	"pault.ag/go/debian/control"
)

// ---- model ----

type field struct {
	Name  string
	First string   // text after "Name:" (a space is put before it when non-empty)
	Cont  []string // raw continuation lines, first character is the marker
}
type para []field
type doc struct {
	Paras   []para
	Lead    int   // blank lines before the first paragraph
	Sep     []int // blank lines between paragraph i and i+1
	CRLF    bool
	FinalNL bool
	Comment int // -1: none; k: "# c" inserted before rendered line k (k == number of lines: after the last)
}

var firsts = []string{"", "x", "x y "}
var conts = []string{"  x", "\tz", " .", " x ", " #x"}

func (d doc) lines() []string {
	var ls []string
	for i := 0; i < d.Lead; i++ {
		ls = append(ls, "")
	}
	for i, p := range d.Paras {
		if i > 0 {
			for j := 0; j < d.Sep[i-1]; j++ {
				ls = append(ls, "")
			}
		}
		for _, f := range p {
			l := f.Name + ":"
			if f.First != "" {
				l += " " + f.First
			}
			ls = append(ls, l)
			ls = append(ls, f.Cont...)
		}
	}
	return ls
}

func (d doc) render() string {
	ls := d.lines()
	if d.Comment >= 0 {
		ls = append(ls[:d.Comment:d.Comment], append([]string{"# c"}, ls[d.Comment:]...)...)
	}
	eol := "\n"
	if d.CRLF {
		eol = "\r\n"
	}
	s := strings.Join(ls, eol)
	if d.FinalNL {
		s += eol
	}
	return s
}

// Oracle, written from the statement and the expectations in control/parse_test.go (TestWhitespacePrefixedLines,
// TestLineWrapping): single-line value = first line trimmed. With continuation lines the value is the logical lines
// (first line trimmed - left out when it is empty, as for "Changes:\n hy ..." - then every continuation line without
// its first character and without trailing whitespace, "." standing for an empty line), each followed by "\n".
func trimRight(s string) string { return strings.TrimRight(s, " \t\r\n") }
func (f field) value() string {
	first := strings.TrimSpace(f.First)
	if len(f.Cont) == 0 {
		return first
	}
	var ls []string
	if first != "" {
		ls = append(ls, first)
	}
	for _, c := range f.Cont {
		l := trimRight(c[1:])
		if l == "." {
			l = ""
		}
		ls = append(ls, l)
	}
	return strings.Join(ls, "\n") + "\n"
}

// ---- code under test ----

type T struct {
	control.Paragraph
	A string
}

func guard(f func()) (pan string) {
	defer func() {
		if r := recover(); r != nil {
			pan = fmt.Sprint(r)
		}
	}()
	f()
	return ""
}

// src gives the text as an io.Reader. It is a reused *bufio.Reader (bufio.NewReader inside NewParagraphReader then
// takes it as it is), which only avoids a 4 KiB allocation per read; the code under test is unchanged.
type src struct {
	sr strings.Reader
	br *bufio.Reader
}

func (r *src) of(s string) io.Reader {
	if r.br == nil {
		r.br = bufio.NewReader(&r.sr)
	}
	r.sr.Reset(s)
	r.br.Reset(&r.sr)
	return r.br
}

func readNext(in io.Reader) (ps []control.Paragraph, err error) {
	r, err := control.NewParagraphReader(in, nil)
	if err != nil {
		return nil, err
	}
	for n := 0; n < 1000; n++ {
		p, err := r.Next()
		if err == io.EOF {
			return ps, nil
		}
		if err != nil {
			return ps, err
		}
		ps = append(ps, *p)
	}
	return ps, fmt.Errorf("Next did not reach io.EOF after 1000 paragraphs")
}

func readAll(in io.Reader) ([]control.Paragraph, error) {
	r, err := control.NewParagraphReader(in, nil)
	if err != nil {
		return nil, err
	}
	return r.All()
}

func describe(ps []control.Paragraph) string {
	var b strings.Builder
	for _, p := range ps {
		b.WriteString("{")
		for _, k := range p.Order {
			v, ok := p.Values[k]
			fmt.Fprintf(&b, "%q=%q", k, v)
			if !ok {
				b.WriteString("(absent)")
			}
			b.WriteString(" ")
		}
		fmt.Fprintf(&b, "|%d values} ", len(p.Values))
	}
	return b.String()
}

func (d doc) expected() []control.Paragraph {
	var ps []control.Paragraph
	for _, p := range d.Paras {
		cp := control.Paragraph{Values: map[string]string{}}
		for _, f := range p {
			cp.Order = append(cp.Order, f.Name)
			cp.Values[f.Name] = f.value()
		}
		ps = append(ps, cp)
	}
	return ps
}

func samePara(a, b control.Paragraph) bool {
	if len(a.Order) != len(b.Order) || len(a.Values) != len(b.Values) {
		return false
	}
	for i, k := range a.Order {
		va, oka := a.Values[k]
		vb, okb := b.Values[k]
		if b.Order[i] != k || !oka || !okb || va != vb {
			return false
		}
	}
	return true
}
func sameParas(a, b []control.Paragraph) bool {
	if len(a) != len(b) {
		return false
	}
	for i := range a {
		if !samePara(a[i], b[i]) {
			return false
		}
	}
	return true
}

// invariant of one returned paragraph; "" when it holds
func invariant(p control.Paragraph) string {
	if len(p.Order) != len(p.Values) {
		return fmt.Sprintf("len(Order)=%d but len(Values)=%d", len(p.Order), len(p.Values))
	}
	seen := map[string]bool{}
	for _, k := range p.Order {
		if _, ok := p.Values[k]; !ok {
			return fmt.Sprintf("listed field %q has no value", k)
		}
		if seen[k] {
			return fmt.Sprintf("field %q listed twice", k)
		}
		seen[k] = true
	}
	return ""
}

// ---- bookkeeping ----

type failure struct {
	Key   string      `json:"key"`
	Input interface{} `json:"input"`
	What  string      `json:"what"`
}

type worker struct {
	evals, modelEvals, invEvals int
	hashes                      []uint64 // hashes of non-trivial inputs
	fails                       []failure
	perKey                      map[string]int
	src
}

func (w *worker) fail(key string, input interface{}, what string) {
	if w.perKey == nil {
		w.perKey = map[string]int{}
	}
	w.perKey[key]++
	if w.perKey[key] <= 3 {
		w.fails = append(w.fails, failure{key, input, what})
	}
}

func h64(s string) uint64 { h := fnv.New64a(); h.Write([]byte(s)); return h.Sum64() }

func (w *worker) checkModel(d doc) {
	s := d.render()
	w.evals++
	w.modelEvals++
	w.hashes = append(w.hashes, h64(s))
	want := d.expected()
	var next, all []control.Paragraph
	var ts []T
	var e1, e2, e3 error
	if p := guard(func() { next, e1 = readNext(w.of(s)) }); p != "" {
		w.fail("model-panic", s, "Next panicked: "+p)
		return
	}
	if p := guard(func() { all, e2 = readAll(w.of(s)) }); p != "" {
		w.fail("model-panic", s, "All panicked: "+p)
		return
	}
	if p := guard(func() { e3 = control.Unmarshal(&ts, w.of(s)) }); p != "" {
		w.fail("model-panic", s, "Unmarshal panicked: "+p)
		return
	}
	if e1 != nil || !sameParas(next, want) {
		w.fail("model-next", s, fmt.Sprintf("Next loop: err=%v got %s want %s", e1, describe(next), describe(want)))
	}
	if e2 != nil || !sameParas(all, want) {
		w.fail("model-all", s, fmt.Sprintf("All: err=%v got %s want %s", e2, describe(all), describe(want)))
	}
	var up []control.Paragraph
	okA := true
	for _, t := range ts {
		up = append(up, t.Paragraph)
		if v, ok := t.Paragraph.Values["A"]; (ok && t.A != v) || (!ok && t.A != "") {
			okA = false
		}
	}
	if e3 != nil || !sameParas(up, want) || !okA {
		w.fail("model-unmarshal", s, fmt.Sprintf("Unmarshal(&[]T): err=%v fieldA-consistent=%v got %s want %s", e3, okA, describe(up), describe(want)))
	}
}

func (w *worker) checkArbitrary(s string) {
	w.evals++
	w.invEvals++
	var next, all []control.Paragraph
	var e1, e2 error
	if p := guard(func() { next, e1 = readNext(w.of(s)) }); p != "" {
		w.fail("inv-panic", s, "Next panicked: "+p)
		return
	}
	if p := guard(func() { all, e2 = readAll(w.of(s)) }); p != "" {
		w.fail("inv-panic", s, "All panicked: "+p)
		return
	}
	if len(next) > 0 {
		w.hashes = append(w.hashes, h64(s))
	}
	for _, ps := range [][]control.Paragraph{next, all} {
		for _, p := range ps {
			if m := invariant(p); m != "" {
				w.fail("inv-order-values", s, m+": "+describe(ps))
			}
		}
	}
	// All() == the Next() sequence when no error; an error of one is an error of the other (All then returns nothing).
	if (e1 == nil) != (e2 == nil) || (e1 == nil && !sameParas(next, all)) || (e2 != nil && len(all) != 0) {
		w.fail("inv-all-vs-next", s, fmt.Sprintf("Next: err=%v %s; All: err=%v %s", e1, describe(next), e2, describe(all)))
	}
}

// ---- enumeration ----

func bodies(firstSet, contSet []string, maxCont int) (out []field) {
	for _, f := range firstSet {
		var rec func(cur []string)
		rec = func(cur []string) {
			out = append(out, field{First: f, Cont: append([]string{}, cur...)})
			if len(cur) == maxCont {
				return
			}
			for _, c := range contSet {
				rec(append(cur, c))
			}
		}
		rec(nil)
	}
	return
}

// all paragraphs with minF..maxF fields, names an ordered selection of distinct names, bodies from pool
func paragraphs(names []string, pool []field, minF, maxF int) (out []para) {
	var rec func(cur para)
	rec = func(cur para) {
		if len(cur) >= minF {
			out = append(out, append(para{}, cur...))
		}
		if len(cur) == maxF {
			return
		}
	nm:
		for _, n := range names {
			for _, f := range cur {
				if f.Name == n {
					continue nm
				}
			}
			for _, b := range pool {
				b.Name = n
				rec(append(cur, b))
			}
		}
	}
	rec(nil)
	return
}

type layout struct {
	leads    []int
	seps     []int
	comments bool // every insertion position, one at a time (plus none)
}

// run f over the cross product of paragraph choices and layouts
func enumerate(w *worker, paras [][]para, idx []int, lay layout) {
	d := doc{}
	for i, ps := range paras {
		d.Paras = append(d.Paras, ps[idx[i]])
	}
	nsep := len(paras) - 1
	sepIdx := make([]int, nsep)
	for {
		d.Sep = d.Sep[:0]
		for _, k := range sepIdx {
			d.Sep = append(d.Sep, lay.seps[k])
		}
		for _, d.Lead = range lay.leads {
			n := len(d.lines())
			for _, d.CRLF = range []bool{false, true} {
				for _, d.FinalNL = range []bool{true, false} {
					d.Comment = -1
					w.checkModel(d)
					if lay.comments {
						for d.Comment = 0; d.Comment <= n; d.Comment++ {
							w.checkModel(d)
						}
					}
				}
			}
		}
		k := 0
		for ; k < nsep; k++ {
			sepIdx[k]++
			if sepIdx[k] < len(lay.seps) {
				break
			}
			sepIdx[k] = 0
		}
		if k == nsep {
			return
		}
	}
}

type job func(w *worker)

func main() {
	tier := os.Getenv("TIER")
	seed, _ := strconv.ParseInt(os.Getenv("VERIF_SEED"), 10, 64)
	thorough := tier == "thorough"
	debug.SetGCPercent(400)

	abc, ab := []string{"A", "B", "C"}, []string{"A", "B"}
	full := bodies(firsts, conts, 2)                             // 93 field bodies
	one := bodies(firsts, conts, 1)                              // 18
	small := bodies([]string{"", "x"}, []string{" .", "  x"}, 1) // 6

	var jobs []job
	var parts []string
	addProduct := func(desc string, lay layout, paras ...[]para) {
		total := 1
		for _, p := range paras {
			total *= len(p)
		}
		parts = append(parts, desc)
		const chunk = 512
		for lo := 0; lo < total; lo += chunk {
			lo, hi := lo, lo+chunk
			if hi > total {
				hi = total
			}
			jobs = append(jobs, func(w *worker) {
				idx := make([]int, len(paras))
				for c := lo; c < hi; c++ {
					r := c
					for i := range paras {
						idx[i] = r % len(paras[i])
						r /= len(paras[i])
					}
					enumerate(w, paras, idx, lay)
				}
			})
		}
	}

	vs := "first line in {\"\",\"x\",\"x y \"}; 0..2 continuation lines from {\"  x\",\"\\tz\",\" .\",\" x \"}"
	p12 := paragraphs(abc, full, 1, 2)
	addProduct("S1: 1 paragraph x 1..2 fields (names: ordered distinct picks of A,B,C; "+vs+") x comment none/at every line position", layout{[]int{0}, nil, true}, p12)
	addProduct("S1L: the same paragraphs after 1..2 leading blank lines, no comment", layout{[]int{1, 2}, nil, false}, p12)
	p1 := paragraphs(ab, full, 1, 1)
	if thorough {
		p1 = paragraphs(abc, full, 1, 1)
		addProduct("S2: 2 paragraphs x 1 field (names A,B,C; same value sets) x blank run 1..2 x 0..2 leading blank lines x comment none/at every line position", layout{[]int{0, 1, 2}, []int{1, 2}, true}, p1, p1)
		p3 := paragraphs(ab, full, 1, 1)
		addProduct("S3: 3 paragraphs x 1 field (names A,B; same value sets) x blank runs 1..2 each, no comment", layout{[]int{0}, []int{1, 2}, false}, p3, p3, p3)
		addProduct("S1T: 1 paragraph x exactly 3 fields (names: permutations of A,B,C; same value sets), no comment, no leading blank", layout{[]int{0}, nil, false}, paragraphs(abc, full, 3, 3))
	} else {
		addProduct("S2: 2 paragraphs x 1 field (names A,B; same value sets) x blank run 1..2 x comment none/at every line position", layout{[]int{0}, []int{1, 2}, true}, p1, p1)
		p3 := paragraphs(ab, one, 1, 1)
		addProduct("S3: 3 paragraphs x 1 field (names A,B; same first lines, 0..1 continuation lines) x blank runs 1..2 each, no comment", layout{[]int{0}, []int{1, 2}, false}, p3, p3, p3)
	}
	p22 := paragraphs(abc, small, 2, 2)
	addProduct("S4: 2 paragraphs x exactly 2 fields (names: ordered picks of 2 from A,B,C; first line in {\"\",\"x\"}; 0..1 continuation line from {\" .\",\"  x\"}) x blank run 1..2 x 0..1 leading blank, no comment",
		layout{[]int{0, 1}, []int{1, 2}, false}, p22, p22)

	// S5: seeded random documents of the full model (1..3 paragraphs x 1..3 fields x all layouts)
	nRand := 200000
	if thorough {
		nRand = 4000000
	}
	parts = append(parts, fmt.Sprintf("S5 (sampled, not exhaustive): %d seeded random documents of the full model 1..3 paragraphs x 1..3 fields x all value sets x leading 0..2 x blank runs 1..2 x comment none/any position", nRand))
	for lo := 0; lo < nRand; lo += 5000 {
		lo := lo
		jobs = append(jobs, func(w *worker) {
			rng := rand.New(rand.NewSource(seed*1000003 + int64(lo)))
			for i := 0; i < 5000 && lo+i < nRand; i++ {
				d := doc{Lead: rng.Intn(3), CRLF: rng.Intn(2) == 0, FinalNL: rng.Intn(2) == 0, Comment: -1}
				for np := 1 + rng.Intn(3); len(d.Paras) < np; {
					perm := rng.Perm(3)
					var p para
					for nf := 1 + rng.Intn(3); len(p) < nf; {
						b := full[rng.Intn(len(full))]
						b.Name = abc[perm[len(p)]]
						p = append(p, b)
					}
					if len(d.Paras) > 0 {
						d.Sep = append(d.Sep, 1+rng.Intn(2))
					}
					d.Paras = append(d.Paras, p)
				}
				if rng.Intn(3) > 0 {
					d.Comment = rng.Intn(len(d.lines()) + 1)
				}
				w.checkModel(d)
			}
		})
	}

	// invariant half: every byte string up to length L over the alphabet
	alpha := []byte{'A', ':', ' ', '\n', '\r', '#', '.', '\t'}
	L := 6
	if thorough {
		L = 7
	}
	for _, a := range alpha {
		for _, b := range alpha {
			pre := []byte{a, b}
			jobs = append(jobs, func(w *worker) {
				buf := append([]byte{}, pre...)
				var rec func()
				rec = func() {
					w.checkArbitrary(string(buf))
					if len(buf) == L {
						return
					}
					for _, c := range alpha {
						buf = append(buf, c)
						rec()
						buf = buf[:len(buf)-1]
					}
				}
				rec()
			})
		}
	}
	jobs = append(jobs, func(w *worker) { // lengths 0 and 1
		w.checkArbitrary("")
		for _, c := range alpha {
			w.checkArbitrary(string([]byte{c}))
		}
	})

	// ---- run ----
	nw := runtime.NumCPU()
	if nw > 16 {
		nw = 16
	}
	ws := make([]*worker, nw)
	ch := make(chan job, 256)
	var wg sync.WaitGroup
	for i := range ws {
		ws[i] = &worker{}
		wg.Add(1)
		go func(w *worker) {
			defer wg.Done()
			for j := range ch {
				j(w)
			}
		}(ws[i])
	}
	for _, j := range jobs {
		ch <- j
	}
	close(ch)
	wg.Wait()

	evals, me, ie := 0, 0, 0
	var hashes []uint64
	var fails []failure
	counts := map[string]int{}
	for _, w := range ws {
		evals += w.evals
		me += w.modelEvals
		ie += w.invEvals
		hashes = append(hashes, w.hashes...)
		fails = append(fails, w.fails...)
		for k, n := range w.perKey {
			counts[k] += n
		}
	}
	sort.Slice(hashes, func(i, j int) bool { return hashes[i] < hashes[j] })
	distinct := 0
	for i, h := range hashes {
		if i == 0 || h != hashes[i-1] {
			distinct++
		}
	}
	sort.SliceStable(fails, func(i, j int) bool {
		if fails[i].Key != fails[j].Key {
			return fails[i].Key < fails[j].Key
		}
		return len(fmt.Sprint(fails[i].Input)) < len(fmt.Sprint(fails[j].Input))
	})
	// keep up to 3 per key, 20 in all
	var kept []failure
	per := map[string]int{}
	for _, f := range fails {
		if per[f.Key] < 3 && len(kept) < 20 {
			per[f.Key]++
			f.What = fmt.Sprintf("%s (%d inputs failed this check)", f.What, counts[f.Key])
			kept = append(kept, f)
		}
	}
	if kept == nil {
		kept = []failure{}
	}

	var samples []interface{}
	for _, d := range []doc{
		{Paras: []para{{{"A", "x", nil}}}, FinalNL: true, Comment: -1},
		{Paras: []para{{{"A", "", []string{"  x", " ."}}, {"B", "x y ", nil}}}, Lead: 1, CRLF: true, FinalNL: false, Comment: 1},
		{Paras: []para{{{"B", "x", []string{"\tz"}}}, {{"B", "", []string{" x "}}}}, Sep: []int{2}, FinalNL: true, Comment: 2},
		{Paras: []para{{{"A", "x y ", []string{" .", " ."}}}, {{"A", "", nil}}, {{"C", "x", nil}}}, Sep: []int{1, 2}, FinalNL: false, Comment: -1},
		{Paras: []para{{{"C", "", []string{" ."}}, {"A", "x", []string{" x ", "  x"}}, {"B", "", nil}}}, FinalNL: true, CRLF: true, Comment: 6},
	} {
		got, err := readAll(strings.NewReader(d.render()))
		samples = append(samples, map[string]interface{}{"document": d.render(), "expected": describe(d.expected()), "All": describe(got), "err": fmt.Sprint(err)})
	}
	for _, s := range []string{"A:\n A", " A:A", "A:\nA:", "#\n\nA"} {
		got, err := readNext(strings.NewReader(s))
		samples = append(samples, map[string]interface{}{"arbitrary_input": s, "Next": describe(got), "err": fmt.Sprint(err)})
	}

	out := map[string]interface{}{
		"bound": "Model half, every document of: " + strings.Join(parts, "; ") + ". Every document in S1-S4 additionally in LF and CRLF and with/without the final line ending. " +
			"Rendering: field = 'Name:' + (' '+first line when non-empty), continuation lines verbatim, comment line '# c', blank line = bare line ending. " +
			"Oracle value: no continuation lines -> first line trimmed; otherwise the logical lines (trimmed first line - dropped when empty, as control/parse_test.go expects for 'Changes:' - then each continuation line minus its first character and trailing whitespace, '.' = empty line), each terminated by \"\\n\" (reader's canonical multi-line form ends in \"\\n\"). " +
			fmt.Sprintf("Invariant half: all byte strings of length 0..%d over {A : space LF CR # . TAB}.", L),
		"rule": "Model documents are generated by nested enumeration of the stated cross products (S5 by math/rand seeded with VERIF_SEED); each is read three ways (Next until io.EOF, All, Unmarshal into []T with T embedding control.Paragraph plus a string field A) and each result must equal the oracle exactly (paragraph count, Order, Values; no error). " +
			"Arbitrary strings are enumerated in full; each is read with Next-loop and All: no panic, per returned paragraph len(Order)==len(Values), every Order entry has a value, no duplicate in Order, and All agrees with the Next sequence (same paragraphs, or both report an error). " +
			fmt.Sprintf("evaluations = %d model documents + %d arbitrary strings. distinct_nontrivial = number of distinct input texts (64-bit FNV of the text) among all model documents (each has >= 1 field) and those arbitrary strings for which at least one paragraph was returned.", me, ie),
		"evaluations":         evals,
		"distinct_nontrivial": distinct,
		"exhaustive":          true,
		"samples":             samples,
		"failures":            kept,
	}
	enc := json.NewEncoder(os.Stdout)
	enc.SetEscapeHTML(false)
	enc.Encode(out)
}
