package main

// C02 (package version): Compare is a total preorder (reflexive, antisymmetric in sign, transitive, equal versions
// are interchangeable) and sort.Sort(version.Slice(xs)) ends with a non-decreasing permutation of xs.
// Bounded stand-in: all triples over a set of order-stressing versions; all short slices over 7 versions plus seeded
// random slices. No oracle is needed: the laws only relate results of Compare to each other.

import (
	"fmt"
	"math/rand"
	"os"
	"sort"
	"strings"
	"sync/atomic"
	"time"

	"pault.ag/go/debian/version"
)

type V = version.Version

func show(v V) string { return fmt.Sprintf("{%d %q %q}", v.Epoch, v.Version, v.Revision) }
func showAll(xs []V) string {
	s := make([]string, len(xs))
	for i, v := range xs {
		s[i] = show(v)
	}
	return "[" + strings.Join(s, " ") + "]"
}

func sgn(x int) int8 {
	switch {
	case x < 0:
		return -1
	case x > 0:
		return 1
	}
	return 0
}

func words(alpha string, maxLen int) (out []string) { // all strings over alpha of length 0..maxLen, shortest first
	out = []string{""}
	for lo := 0; len(out[lo]) < maxLen; lo++ {
		for i := 0; i < len(alpha); i++ {
			out = append(out, out[lo]+alpha[i:i+1])
		}
	}
	return
}

var upLen, revs = 3, []string{"", "0", "1", "~"}

// values builds the set of versions of the law checks, without duplicates.
func values() (vs []V) {
	seen := map[V]bool{}
	add := func(v V) {
		if !seen[v] {
			seen[v] = true
			vs = append(vs, v)
		}
	}
	if thorough {
		upLen, revs = 4, []string{"", "0", "00", "1", "~", "a", "+"}
	}
	for _, u := range words("01a~+.", upLen) { // 259 (1555) upstream strings
		add(V{0, u, ""})
	}
	for _, u := range []string{"", "0", "1", "1.0", "a", "~"} {
		for _, r := range revs {
			add(V{0, u, r})
			add(V{1, u, r})
		}
	}
	for _, s := range []string{"00", "01", "1", "001", "10", "010", "00000000000000000001", "18446744073709551615", "18446744073709551616",
		"99999999999999999999", "100000000000000000000", "0100000000000000000000", "1.00", "1.0", "1.", "1.0a", "1.0~", "1.0~~", "1.0+", "1.0-", "1-0"} {
		add(V{0, s, ""})
		add(V{0, "1", s})
	}
	for _, s := range []string{"1.0~rc1", "1.0", "1.0+b1", "1.0-0", "1.0-", "1:1.0-1", "0:1.0"} {
		v, err := version.Parse(s)
		if err != nil {
			fail("setup", s, "version.Parse fails: "+err.Error())
			continue
		}
		add(v)
	}
	add(V{^uint(0), "0", ""})
	add(V{^uint(0) >> 1, "0", ""})
	return
}

func main() {
	vs := values()
	n := int64(len(vs))
	var nontrivial, checks int64

	// Compare on every ordered pair, twice (it must be a function of its arguments)
	m := make([]int8, n*n)
	pairOf := func(p int64) string { return show(vs[p/n]) + " vs " + show(vs[p%n]) }
	sweep(n*n, pairOf, func(p int64, _ *tally) { // panics are failures, 5 s without result is a hang
		a, b := vs[p/n], vs[p%n]
		m[p] = sgn(version.Compare(a, b))
		if again := sgn(version.Compare(a, b)); again != m[p] {
			fail("unstable", pairOf(p), fmt.Sprintf("two calls give signs %d and %d", m[p], again))
		}
	})
	checks += 2 * n * n
	triple := func(i, j, k int64) func() string {
		return func() string { return fmt.Sprintf("%s, %s, %s", show(vs[i]), show(vs[j]), show(vs[k])) }
	}
	for i := int64(0); i < n; i++ { // reflexive
		if m[i*n+i] != 0 {
			fail("reflexive", show(vs[i]), fmt.Sprintf("Compare(a, a) has sign %d, expected 0", m[i*n+i]))
		}
		w := V{vs[i].Epoch, strings.Clone(vs[i].Version), strings.Clone(vs[i].Revision)} // an equal value in other memory
		if c := version.Compare(vs[i], w); c != 0 {
			fail("reflexive", show(vs[i]), fmt.Sprintf("Compare(a, copy of a) = %d, expected 0", c))
		}
	}
	checks += 2 * n
	parallel(n*n, func(p int64) { // swapping flips the sign
		i, j := p/n, p%n
		if m[i*n+j] != -m[j*n+i] {
			failLazy("swap", func() string { return show(vs[i]) + " vs " + show(vs[j]) },
				func() string {
					return fmt.Sprintf("sign(Compare(a,b)) = %d but sign(Compare(b,a)) = %d", m[i*n+j], m[j*n+i])
				})
		}
		if i != j {
			atomic.AddInt64(&nontrivial, 1)
		}
	})
	checks += n * n
	parallel(n*n, func(p int64) { // transitivity and congruence, all c for one (a, b)
		i, j := p/n, p%n
		ab := m[i*n+j]
		var local int64
		for k := int64(0); k < n; k++ {
			bc, ac := m[j*n+k], m[i*n+k]
			if ab <= 0 && bc <= 0 {
				if ac > 0 {
					failLazy("transitive", triple(i, j, k), func() string { return "a <= b and b <= c but Compare(a,c) > 0" })
				}
				if i != j && j != k && i != k {
					local++
				}
			}
			if (uint64(p*n+k)^uint64(seed))*0x9E3779B97F4A7C15>>20%uint64(n*n*n/4096+1) == 0 && (ab == 0 && i != j || ab <= 0 && bc <= 0 && i != j && j != k && i != k) {
				keep(fmt.Sprint("law", ab, bc), fmt.Sprint(p*n+k), map[string]interface{}{"a": show(vs[i]), "b": show(vs[j]), "c": show(vs[k]),
					"sign(a,b)": ab, "sign(b,c)": bc, "sign(a,c)": ac})
			}
			if ab == 0 {
				if ac != bc {
					failLazy("congruent", triple(i, j, k), func() string {
						return fmt.Sprintf("Compare(a,b) = 0 but sign(Compare(a,c)) = %d and sign(Compare(b,c)) = %d", ac, bc)
					})
				}
				if i != j {
					local++
				}
			}
		}
		atomic.AddInt64(&nontrivial, local)
	})
	checks += 2 * n * n * n

	// sorting
	pool := []V{{0, "1.0", ""}, {0, "1.0", "0"}, {0, "1.0~rc1", ""}, {0, "1.0+b1", ""}, {0, "01.0", ""}, {1, "0", ""}, {0, "1.0", "1"}}
	maxLen, random := 5, 2000
	if thorough {
		maxLen, random = 7, 200000
	}
	var slices int64
	size := int64(1)
	for l := 0; l <= maxLen; l++ {
		l := l
		parallel(size, func(p int64) {
			xs := make([]V, l)
			for k := l - 1; k >= 0; k-- {
				xs[k] = pool[p%int64(len(pool))]
				p /= int64(len(pool))
			}
			sortCase(xs, &nontrivial)
		})
		slices += size
		size *= int64(len(pool))
	}
	parallel(int64(random), func(p int64) {
		rng := rand.New(rand.NewSource(seed*1000003 + p))
		xs := make([]V, rng.Intn(51))
		for k := range xs {
			xs[k] = vs[rng.Intn(len(vs))]
		}
		sortCase(xs, &nontrivial)
	})
	slices += int64(random)

	settle()
	evaluations, distinct = checks+slices, nontrivial
	emit(fmt.Sprintf("laws: all pairs and all triples over %d distinct versions (all strings of length 0..%d over {0,1,a,~,+,.} as upstream; "+
		"upstreams \"\",0,1,1.0,a,~ x revisions %q x epochs 0,1; 21 leading-zero / 20-digit / trailing-punctuation strings as upstream and "+
		"as revision of \"1\"; the parsed versions 1.0~rc1, 1.0, 1.0+b1, 1.0-0, 1.0-, 1:1.0-1, 0:1.0; epochs 2^63-1 and 2^64-1). sorting: "+
		"all %d slices of length 0..%d over 7 versions (five of them in two equivalence classes) and %d seeded random slices of length "+
		"0..50 over the law set", n, upLen, revs, slices-int64(random), maxLen, random),
		"the sign of Compare is tabulated for every ordered pair (two calls each, which must agree); on the table: Compare(a,a)=0 (also for "+
			"a copy in other memory), sign(a,b) = -sign(b,a), (a<=b and b<=c) implies a<=c, and Compare(a,b)=0 implies sign(a,c)=sign(b,c), "+
			"for all a, b, c. sort.Sort(version.Slice(xs)) runs under a 5 s timeout; the result must have the same multiset of struct values as "+
			"the input and Compare(xs[i], xs[i+1]) <= 0 throughout. evaluations = law instances checked + slices sorted. distinct_nontrivial = "+
			"ordered pairs a != b (swap) + triples of three different versions with a<=b<=c (transitivity) + triples with a != b and "+
			"Compare(a,b)=0 (congruence) + sorted slices holding at least two different versions", true)
}

// sortCase sorts a copy of xs with the adapter of the package and checks the outcome.
func sortCase(xs []V, nontrivial *int64) {
	in := showAll(xs)
	ys := append([]V{}, xs...)
	done := make(chan interface{}, 1)
	go func() {
		defer func() { done <- recover() }()
		sort.Sort(version.Slice(ys))
	}()
	select {
	case r := <-done:
		if r != nil {
			fail("panic", in, fmt.Sprintf("sort.Sort(version.Slice) panics: %v", r))
			return
		}
	case <-time.After(5 * time.Second):
		fail("sort-hang", in, "sort.Sort(version.Slice) has not returned after 5 s")
		emit("aborted: sort did not terminate", "see failures", false)
		os.Exit(0)
	}
	count := map[V]int{}
	for _, v := range xs {
		count[v]++
	}
	if len(count) > 1 {
		atomic.AddInt64(nontrivial, 1)
	}
	for _, v := range ys {
		count[v]--
	}
	for v, c := range count {
		if c != 0 {
			fail("sort-permutation", in, fmt.Sprintf("sorted to %s: %s occurs %+d times too few", showAll(ys), show(v), c))
			break
		}
	}
	if len(ys) != len(xs) {
		fail("sort-permutation", in, fmt.Sprintf("length changed from %d to %d", len(xs), len(ys)))
	}
	for i := 0; i+1 < len(ys); i++ {
		if version.Compare(ys[i], ys[i+1]) > 0 {
			fail("sort-order", in, fmt.Sprintf("sorted to %s: element %d %s is greater than element %d %s", showAll(ys), i, show(ys[i]), i+1, show(ys[i+1])))
			break
		}
	}
	if id := in; wanted(id) || len(xs) == 5 && hash(id)&0x3ff == 0 {
		keep("sort", id, map[string]interface{}{"input": in, "sorted": showAll(ys)})
	}
}
