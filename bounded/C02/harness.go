package main

// Shared plumbing of the bounded stand-ins (the same file is copied into every harness directory):
// parallel enumeration, failure/sample collection, panic capture and the JSON report.

import (
	"encoding/json"
	"fmt"
	"os"
	"runtime"
	"runtime/debug"
	"sort"
	"strconv"
	"strings"
	"sync"
	"sync/atomic"
)

type Failure struct {
	Key   string      `json:"key"`
	Input interface{} `json:"input"`
	What  string      `json:"what"`
}

type Report struct {
	Bound       string         `json:"bound"`
	Rule        string         `json:"rule"`
	Evaluations int64          `json:"evaluations"`
	Distinct    int64          `json:"distinct_nontrivial"`
	Exhaustive  bool           `json:"exhaustive"`
	Samples     []interface{}  `json:"samples"`
	Failures    []Failure      `json:"failures"`
	Counts      map[string]int `json:"failure_counts,omitempty"` // all failures per class, not only the listed ones
}

var (
	tier        = os.Getenv("TIER")
	thorough    = tier == "thorough"
	seed, _     = strconv.ParseInt(os.Getenv("VERIF_SEED"), 10, 64)
	evaluations int64 // cases executed
	distinct    int64 // distinct inputs that exercised the property non-trivially
	mu          sync.Mutex
	byClass     = map[string][]Failure{} // per class: the smallest few failing inputs
	counts      = map[string]int{}
	samples     = map[string][]sample{}
)

const perClass = 3 // failures listed per class (the 20 slots then show as many classes as possible)

type sample struct {
	h uint64
	v interface{}
}

func hash(s string) uint64 { // FNV-1a over the seed and s
	h := uint64(14695981039346656037) ^ uint64(seed)
	h *= 1099511628211
	for i := 0; i < len(s); i++ {
		h = (h ^ uint64(s[i])) * 1099511628211
	}
	return h ^ h>>29 // the low bits are used by wanted()
}

func less(a, b string) bool { return len(a) < len(b) || len(a) == len(b) && a < b }

// fail records a violation of class `class` on `input` (the key is class:input).
func fail(class, input, what string) {
	mu.Lock()
	defer mu.Unlock()
	counts[class]++
	l := byClass[class]
	if len(l) == perClass && !less(input, l[len(l)-1].Input.(string)) {
		return
	}
	l = append(l, Failure{class + ":" + input, input, what})
	sort.SliceStable(l, func(i, j int) bool { return less(l[i].Input.(string), l[j].Input.(string)) })
	if len(l) > perClass {
		l = l[:perClass]
	}
	byClass[class] = l
}

// keep offers a case of category cat as a sample; per category the 4 cases with the smallest seeded hash are written out.
func keep(cat, id string, v interface{}) {
	h := hash(id)
	mu.Lock()
	defer mu.Unlock()
	l := samples[cat]
	if len(l) == 4 && h >= l[3].h {
		return
	}
	l = append(l, sample{h, v})
	sort.Slice(l, func(i, j int) bool { return l[i].h < l[j].h })
	if len(l) > 4 {
		l = l[:4]
	}
	samples[cat] = l
}

// wanted tells cheaply whether a case may become a sample (about one case in 2^12 is offered).
func wanted(id string) bool { return hash(id)&0xfff == 0 }

// guard runs f; a panic in the code under test becomes a failure of class "panic".
func guard(input string, f func()) {
	defer func() {
		if r := recover(); r != nil {
			where := ""
			for _, l := range strings.Split(string(debug.Stack()), "\n") {
				if strings.HasPrefix(l, "pault.ag/go/debian/") { // innermost frame of the code under test
					where = " in " + l
					break
				}
			}
			fail("panic", input, fmt.Sprintf("panic%s: %v", where, r))
		}
	}()
	f()
}

func init() { // the parsers allocate per byte: collect only when 2 GiB of garbage have piled up
	debug.SetGCPercent(-1)
	debug.SetMemoryLimit(2 << 30)
}

// parallel runs f(i) for i in [0,n) on all cores, in chunks.
func parallel(n int64, f func(i int64)) {
	chunk := n / int64(runtime.NumCPU()*8)
	if chunk < 1 {
		chunk = 1
	} else if chunk > 4096 {
		chunk = 4096
	}
	var next int64
	var wg sync.WaitGroup
	for w := 0; w < runtime.NumCPU(); w++ {
		wg.Add(1)
		go func() {
			defer wg.Done()
			for {
				lo := atomic.AddInt64(&next, chunk) - chunk
				if lo >= n {
					return
				}
				hi := lo + chunk
				if hi > n {
					hi = n
				}
				for i := lo; i < hi; i++ {
					f(i)
				}
			}
		}()
	}
	wg.Wait()
}

func emit(bound, rule string, exhaustive bool) {
	r := Report{Bound: bound, Rule: rule, Evaluations: evaluations, Distinct: distinct, Exhaustive: exhaustive,
		Samples: []interface{}{}, Failures: []Failure{}, Counts: counts}
	cats := []string{}
	for c := range samples {
		cats = append(cats, c)
	}
	sort.Strings(cats)
	for round := 0; round < 4; round++ { // round-robin over the categories
		for _, c := range cats {
			if round < len(samples[c]) && len(r.Samples) < 10 {
				r.Samples = append(r.Samples, samples[c][round].v)
			}
		}
	}
	classes := []string{}
	for c := range byClass {
		classes = append(classes, c)
	}
	sort.Strings(classes)
	for round := 0; round < perClass; round++ { // round-robin over the classes, smallest inputs first
		for _, c := range classes {
			if round < len(byClass[c]) && len(r.Failures) < 20 {
				r.Failures = append(r.Failures, byClass[c][round])
			}
		}
	}
	out, _ := json.Marshal(r)
	fmt.Println(string(out))
}
