// C09 bounded stand-in: control.Marshal / control.Unmarshal round trip over a family of probe struct types, the
// omission / required rules, and pass-through of unknown fields when the struct embeds control.Paragraph.
package main

import (
	"bytes"
	"encoding/json"
	"fmt"
	"hash/fnv"
	"math"
	"os"
	"reflect"
	"sort"
	"strconv"
	"strings"

	"pault.ag/go/debian/control"
	"pault.ag/go/debian/dependency"
	"pault.ag/go/debian/version"
)

// ---- probe types: one per kind / tag combination, then combined ones ----

type PStr struct{ S string }
type PInt struct{ N int }
type PUint struct{ U uint }
type PBool struct{ B bool }
type PListComma struct {
	L []string `delim:", "`
}
type PListSpace struct{ L []string }
type PListStrip struct {
	L []string `delim:"," strip:" \n"`
}
type PVer struct{ V version.Version }
type PDep struct{ D dependency.Dependency }
type PArch struct{ A dependency.Arch }
type PArches struct{ As []dependency.Arch }
type PRenamed struct {
	S string `control:"X-Name"`
	N int    `control:"X-Num"`
}
type PReqStr struct {
	S string `required:"true"`
}
type PReqInt struct {
	N int  `required:"true"`
	U uint `required:"true"`
	B bool `required:"true"`
}
type PReqList struct {
	L []string `required:"true" delim:", "`
}
type PReqVer struct {
	V version.Version `required:"true"`
}
type PSkip struct {
	S string `control:"-"`
	N int    `control:"-"`
	T string
}
type PMulti struct {
	M string `multiline:"true"`
}
type PPtr struct {
	PS *string
	PI *int
	PU *uint
	PB *bool
	PV *version.Version
	PD *dependency.Dependency
}
type Comb1 struct {
	Package string `required:"true"`
	Source  string
	Version version.Version
	Arch    dependency.Arch
	Depends dependency.Dependency `control:"Pre-Depends"`
	Size    int                   `control:"Installed-Size"`
	Tags    []string              `control:"Tag" delim:", " strip:" \n"`
	Desc    string                `control:"Description" multiline:"true"`
	Hidden  string                `control:"-"`
}
type Comb2 struct {
	Name   string `control:"X-Name" required:"true"`
	Count  uint   `control:"X-Count"`
	Flag   bool   `control:"X-Flag" required:"true"`
	Arches []dependency.Arch
	Bins   []string `control:"Binary" delim:", "`
	Note   *string  `control:"X-Note"`
	Body   string   `multiline:"true" required:"true"`
}
type Comb3 struct {
	A string
	B int
	C []string `delim:" "`
	D version.Version
	E *int
	F string `multiline:"true"`
}

// embeds the raw paragraph
type Emb struct {
	control.Paragraph
	Foo  string
	Num  int      `control:"X-Num"`
	List []string `delim:", "`
}

// ---- value sets ----

func mustVer(s string) version.Version {
	v, err := version.Parse(s)
	if err != nil {
		panic(err)
	}
	return v
}
func mustDep(s string) dependency.Dependency {
	d, err := dependency.Parse(s)
	if err != nil {
		panic(err)
	}
	return *d
}
func mustArch(s string) dependency.Arch {
	a, err := dependency.ParseArch(s)
	if err != nil {
		panic(err)
	}
	return *a
}
func sp(s string) *string { return &s }
func ip(i int) *int       { return &i }
func up(u uint) *uint     { return &u }
func bp(b bool) *bool     { return &b }
func vp(s string) *version.Version {
	v := mustVer(s)
	return &v
}
func dp(s string) *dependency.Dependency {
	d := mustDep(s)
	return &d
}

type vals []interface{}

var (
	strs    = vals{"", "a", "a b", "x  y-z_1.0"}
	ints    = vals{0, -1, 7, math.MaxInt, math.MinInt}
	uints   = vals{uint(0), uint(1), uint(math.MaxInt) + 1, uint(math.MaxUint)}
	bools   = vals{false, true}
	lists   = vals{[]string(nil), []string{"a"}, []string{"a b", "c"}, []string{"a", "b c", "d e f"}}
	listsSp = vals{[]string(nil), []string{"a"}, []string{"a", "b"}, []string{"a", "b", "c"}}
	vers    = vals{version.Version{}, mustVer("1.0"), mustVer("1.0-1"), mustVer("2:1.0~rc1-1+b2"), mustVer("0:1:2-3-4")}
	deps    = vals{dependency.Dependency{}, mustDep("foo"), mustDep("foo (>= 1.0), bar | baz:any"), mustDep("a [amd64 i386] <!nocheck>, b [!linux-any], ${misc:Depends}")}
	arches  = vals{dependency.Arch{}, mustArch("amd64"), mustArch("any"), mustArch("all"), mustArch("linux-any"), mustArch("kfreebsd-amd64"), mustArch("bsd-openbsd-i386"),
		dependency.Arch{ABI: "gnu", OS: "linux", CPU: "arm64"}}
	archLs = vals{[]dependency.Arch(nil), []dependency.Arch{mustArch("amd64")}, []dependency.Arch{mustArch("amd64"), mustArch("any")}, []dependency.Arch{mustArch("all"), mustArch("i386"), mustArch("bsd-openbsd-i386")}}
	multis = vals{"", "a\n", "a", "a b\nc\n", "a\n b\n\nc\n", " a\nb\n"} // canonical form ends in "\n"; "a" tests the added newline
)

type probe struct {
	name string
	typ  reflect.Type
	vals map[string]vals
}

func probes(thorough bool) []probe {
	if thorough { // larger value sets; the combined probes stay as they are (their product is already the full cross product)
		strs = append(strs, "a,b", "1.0-1", "-", "yes", "#x", "a: b")
		ints = append(ints, 1, 10, -10, math.MaxInt32, math.MinInt32)
		uints = append(uints, uint(7), uint(math.MaxUint32))
		lists = append(lists, []string{"a:b"}, []string{"x y z", "w"}, []string{"1", "2", "3"})
		vers = append(vers, mustVer("1.0-1-2"), mustVer("0~~"), mustVer("10:1a+b.c~d-e+f"))
		deps = append(deps, mustDep("a (<< 1), a (>> 2), a (= 1:1-1)"), mustDep("x:amd64 [linux-any] <stage1 !nocheck> <cross>"), mustDep("a | b | c, d"))
		arches = append(arches, mustArch("hurd-i386"), mustArch("any-amd64"), mustArch("musl-linux-any"), mustArch("gnu-any-any"))
		multis = append(multis, "a\n\n\nb\n", "a\n  deep\n", "one line with spaces\n")
	}
	t := func(x interface{}) reflect.Type { return reflect.TypeOf(x) }
	return []probe{
		{"string", t(PStr{}), map[string]vals{"S": append(vals{"a\nb\n", "a\n b\n\nc\n"}, strs...)}},
		{"int", t(PInt{}), map[string]vals{"N": ints}},
		{"uint", t(PUint{}), map[string]vals{"U": uints}},
		{"bool", t(PBool{}), map[string]vals{"B": bools}},
		{"list delim=', '", t(PListComma{}), map[string]vals{"L": lists}},
		{"list default delim", t(PListSpace{}), map[string]vals{"L": listsSp}},
		{"list delim=',' strip=' \\n'", t(PListStrip{}), map[string]vals{"L": lists}},
		{"version", t(PVer{}), map[string]vals{"V": vers}},
		{"dependency", t(PDep{}), map[string]vals{"D": deps}},
		{"arch", t(PArch{}), map[string]vals{"A": arches}},
		{"[]arch", t(PArches{}), map[string]vals{"As": archLs}},
		{"renamed", t(PRenamed{}), map[string]vals{"S": strs, "N": ints}},
		{"required string", t(PReqStr{}), map[string]vals{"S": strs}},
		{"required int/uint/bool", t(PReqInt{}), map[string]vals{"N": ints, "U": uints, "B": bools}},
		{"required list", t(PReqList{}), map[string]vals{"L": lists}},
		{"required version", t(PReqVer{}), map[string]vals{"V": vers}},
		{"skipped", t(PSkip{}), map[string]vals{"S": strs, "N": ints, "T": strs}},
		{"multiline", t(PMulti{}), map[string]vals{"M": multis}},
		{"pointers", t(PPtr{}), map[string]vals{
			"PS": {(*string)(nil), sp("a"), sp("a b")}, "PI": {(*int)(nil), ip(0), ip(-1), ip(math.MaxInt)}, "PU": {(*uint)(nil), up(0), up(math.MaxUint)},
			"PB": {(*bool)(nil), bp(false), bp(true)}, "PV": {(*version.Version)(nil), vp("1:1.0-1")}, "PD": {(*dependency.Dependency)(nil), dp("foo | bar (<< 2)")}}},
		{"combined 1 (binary-package like)", t(Comb1{}), map[string]vals{
			"Package": {"", "pkg"}, "Source": {"", "src (1.0)"}, "Version": {version.Version{}, mustVer("1:1.0-1")}, "Arch": {mustArch("amd64"), mustArch("all"), mustArch("linux-any")},
			"Depends": {dependency.Dependency{}, mustDep("libc6 (>= 2.4), a | b")}, "Size": {0, 1024, -1}, "Tags": {[]string(nil), []string{"role::program", "x y"}},
			"Desc": {"", "short\n long\n\nmore\n"}, "Hidden": {"", "h"}}},
		{"combined 2 (renamed+required+list+pointer+multiline)", t(Comb2{}), map[string]vals{
			"Name": {"", "n m"}, "Count": {uint(0), uint(math.MaxUint)}, "Flag": bools, "Arches": {[]dependency.Arch(nil), []dependency.Arch{mustArch("amd64"), mustArch("any")}},
			"Bins": {[]string(nil), []string{"a"}, []string{"a", "b c", "d"}}, "Note": {(*string)(nil), sp("n")}, "Body": {"", "l1\nl2\n", "l1\n\n l3\n"}}},
		{"combined 3 (all optional)", t(Comb3{}), map[string]vals{
			"A": {"", "a b"}, "B": {0, -1, math.MaxInt}, "C": {[]string(nil), []string{"x"}, []string{"x", "y", "z"}}, "D": {version.Version{}, mustVer("1.0-1")},
			"E": {(*int)(nil), ip(0), ip(5)}, "F": {"", "f\n", "f\n g\n"}}},
	}
}

// ---- field meta data, from the struct tags (the user's declaration) ----

type meta struct {
	idx                       int
	goName, key               string
	required, skip, multiline bool
}

func metas(t reflect.Type) (ms []meta) {
	for i := 0; i < t.NumField(); i++ {
		f := t.Field(i)
		if f.Anonymous {
			continue
		}
		m := meta{idx: i, goName: f.Name, key: f.Name, required: f.Tag.Get("required") == "true", multiline: f.Tag.Get("multiline") == "true"}
		if k := f.Tag.Get("control"); k != "" {
			m.key = k
		}
		m.skip = m.key == "-"
		ms = append(ms, m)
	}
	return
}

// zero for the omission rule: the Go zero value; an empty list counts as zero
func isZero(v reflect.Value) bool {
	if v.Kind() == reflect.Slice {
		return v.Len() == 0
	}
	return v.IsZero()
}

// field equality after a round trip: nil and empty lists are the same list; pointers are compared by what they point to;
// multiline fields are equal up to one trailing newline.
func sameField(a, b reflect.Value, multiline bool) bool {
	switch a.Kind() {
	case reflect.Ptr:
		if a.IsNil() || b.IsNil() {
			return a.IsNil() && b.IsNil()
		}
		return sameField(a.Elem(), b.Elem(), multiline)
	case reflect.Slice:
		if a.Len() == 0 && b.Len() == 0 {
			return true
		}
	case reflect.String:
		if multiline {
			return strings.TrimSuffix(a.String(), "\n") == strings.TrimSuffix(b.String(), "\n")
		}
	}
	return reflect.DeepEqual(a.Interface(), b.Interface())
}

func describe(v reflect.Value) string {
	switch v.Kind() {
	case reflect.Ptr:
		if v.IsNil() {
			return "nil"
		}
		return "&" + describe(v.Elem())
	case reflect.Struct:
		var parts []string
		for i := 0; i < v.NumField(); i++ {
			if v.Type().Field(i).Anonymous && v.Type().Field(i).Type == reflect.TypeOf(control.Paragraph{}) {
				continue
			}
			parts = append(parts, v.Type().Field(i).Name+":"+describe(v.Field(i)))
		}
		return "{" + strings.Join(parts, " ") + "}"
	case reflect.Slice:
		var parts []string
		for i := 0; i < v.Len(); i++ {
			parts = append(parts, describe(v.Index(i)))
		}
		return "[" + strings.Join(parts, ",") + "]"
	case reflect.String:
		return strconv.Quote(v.String())
	}
	return fmt.Sprint(v.Interface())
}

// ---- bookkeeping ----

type failure struct {
	Key   string      `json:"key"`
	Input interface{} `json:"input"`
	What  string      `json:"what"`
}

var (
	evals    int
	byPart   = map[string]int{}
	seen     = map[uint64]bool{}
	trivial  int
	fails    []failure
	failCnt  = map[string]int{}
	failKept = map[string]int{}
	samples  []interface{}
	sampled  = map[string]bool{}
)

func fail(key, sub string, input interface{}, what string) {
	failCnt[key]++
	if failKept[key+"/"+sub]++; failKept[key+"/"+sub] <= 1 && failKept[key] < 3 {
		failKept[key]++
		fails = append(fails, failure{key, input, what})
	}
}
func count(part, input string, nontrivial bool) {
	evals++
	byPart[part]++
	if !nontrivial {
		trivial++
		return
	}
	h := fnv.New64a()
	h.Write([]byte(part + "\x00" + input))
	seen[h.Sum64()] = true
}

func guard(f func()) (pan string) {
	defer func() {
		if r := recover(); r != nil {
			pan = fmt.Sprint(r)
		}
	}()
	f()
	return ""
}

func readOne(text string) (*control.Paragraph, error) {
	r, err := control.NewParagraphReader(strings.NewReader(text), nil)
	if err != nil {
		return nil, err
	}
	ps, err := r.All()
	if err != nil {
		return nil, err
	}
	if len(ps) != 1 {
		return nil, fmt.Errorf("%d paragraphs", len(ps))
	}
	return &ps[0], nil
}

// ---- part 1: round trip + omission/required rules for one value ----

func kindName(v reflect.Value) string {
	if v.Kind() == reflect.Struct || v.Kind() == reflect.Ptr {
		return v.Type().String()
	}
	return v.Kind().String()
}

func checkValue(p probe, ms []meta, v reflect.Value) {
	in := p.name + " " + describe(v)
	var text bytes.Buffer
	var err error
	if pan := guard(func() { err = control.Marshal(&text, v.Interface()) }); pan != "" {
		count(p.name, in, true)
		fail("marshal-panic", p.name, in, "Marshal panicked: "+pan)
		return
	}
	if err != nil {
		count(p.name, in, true)
		fail("marshal-error", p.name, in, "Marshal of a supported value failed: "+err.Error())
		return
	}
	// expected keys, from the statement: skipped never, required always, optional iff not zero; in struct order
	var want []string
	for _, m := range ms {
		if !m.skip && (m.required || !isZero(v.Field(m.idx))) {
			want = append(want, m.key)
		}
	}
	var got []string
	var para *control.Paragraph
	if text.Len() > 0 {
		if para, err = readOne(text.String()); err != nil {
			count(p.name, in, true)
			fail("marshalled-text-unreadable", p.name, in, fmt.Sprintf("Marshal wrote %q, reader: %v", text.String(), err))
			return
		}
		got = para.Order
	}
	count(p.name, in, len(want) > 0 || len(got) > 0)
	if len(samples) < 8 && len(want) > 0 && !sampled[p.name] && evals%5 == 3 {
		sampled[p.name] = true
		samples = append(samples, map[string]string{"probe": p.name, "value": describe(v), "marshalled": text.String()})
	}
	if strings.Join(got, ",") != strings.Join(want, ",") {
		// say which rule is broken: written although zero and optional / missing although required or not zero
		has := func(k string) bool {
			if para == nil {
				return false
			}
			_, ok := para.Values[k]
			return ok
		}
		for _, m := range ms {
			f := v.Field(m.idx)
			switch {
			case m.skip:
				if has("-") || has(m.goName) {
					fail("skipped-field-written", p.name, in, fmt.Sprintf("field %s is tagged control:\"-\" but the text is %q", m.goName, text.String()))
				}
			case !m.required && isZero(f) && has(m.key) && zeroMayBeWritten(f):
				// int, uint and bool zero values render as non-empty text ("0", "no"): the encoder omits a field
				// exactly when its rendering is empty, and the upstream tests (TestBoolMarshal) pin "no". The
				// statement's "optional zero fields are omitted" is read as: fields whose rendering is empty.
			case !m.required && isZero(f) && has(m.key):
				fail("zero-"+kindName(f)+"-written", p.name, in, fmt.Sprintf("optional field %s has its zero value %s but Marshal wrote %q (statement: optional zero fields are omitted)", m.goName, describe(f), text.String()))
			case (m.required || !isZero(f)) && !has(m.key):
				k := "nonzero-field-omitted"
				if m.required {
					k = "required-field-omitted"
				}
				fail(k, p.name+m.goName, in, fmt.Sprintf("field %s = %s is missing from %q", m.goName, describe(f), text.String()))
			}
		}
		if strings.Join(sorted(got), ",") == strings.Join(sorted(want), ",") {
			fail("field-order", p.name, in, fmt.Sprintf("fields written in order %v, struct order is %v", got, want))
		}
	}
	if text.Len() == 0 {
		return // nothing written (all fields optional and zero): there is no paragraph to read back
	}
	// round trip
	back := reflect.New(p.typ)
	if pan := guard(func() { err = control.Unmarshal(back.Interface(), strings.NewReader(text.String())) }); pan != "" {
		fail("unmarshal-panic", p.name, in, fmt.Sprintf("Unmarshal of %q panicked: %s", text.String(), pan))
		return
	}
	if err != nil {
		// a required field holding the zero version.Version is written as empty text, which is not a version:
		// the zero Version is outside "every struct value built from the supported field kinds"
		for _, m := range ms {
			if m.required && isZero(v.Field(m.idx)) && v.Field(m.idx).Type().String() == "version.Version" {
				return
			}
		}
		sub := p.name
		for _, m := range ms {
			if m.required && isZero(v.Field(m.idx)) {
				sub += "/" + m.goName
			}
		}
		fail("roundtrip-unmarshal-error", sub, in, fmt.Sprintf("Marshal wrote %q, Unmarshal of that: %v", text.String(), err))
		return
	}
	for _, m := range ms {
		a, b := v.Field(m.idx), back.Elem().Field(m.idx)
		if m.skip {
			if !b.IsZero() {
				fail("skipped-field-read", p.name, in, fmt.Sprintf("field %s is tagged control:\"-\" but came back as %s from %q", m.goName, describe(b), text.String()))
			}
			continue
		}
		if !sameField(a, b, m.multiline) {
			key := "roundtrip-" + kindName(a)
			if m.required && isZero(a) {
				key += "-required-zero"
			}
			fail(key, p.name+m.goName+describe(a), in, fmt.Sprintf("field %s: %s marshalled in %q comes back as %s", m.goName, describe(a), text.String(), describe(b)))
		}
	}
	// a required field missing on input is an error
	for _, m := range ms {
		if !m.required || m.skip || para == nil {
			continue
		}
		cut := control.Paragraph{Values: map[string]string{"X-Other": "1"}, Order: []string{"X-Other"}}
		for _, k := range para.Order {
			if k != m.key {
				cut.Set(k, para.Values[k])
			}
		}
		var b bytes.Buffer
		cut.WriteTo(&b)
		fresh := reflect.New(p.typ)
		if pan := guard(func() { err = control.Unmarshal(fresh.Interface(), strings.NewReader(b.String())) }); pan != "" {
			fail("unmarshal-panic", p.name, b.String(), "Unmarshal panicked: "+pan)
		} else if err == nil {
			fail("missing-required-accepted", p.name+m.goName, b.String(), fmt.Sprintf("%s: required field %s (%s) is absent but Unmarshal returned no error", p.name, m.goName, m.key))
		}
		count(p.name+" (required field removed)", b.String(), true)
	}
}

func sorted(s []string) []string {
	c := append([]string{}, s...)
	sort.Strings(c)
	return c
}

func runProbe(p probe, stride int) {
	ms := metas(p.typ)
	n := 0
	var rec func(i int, v reflect.Value)
	rec = func(i int, v reflect.Value) {
		if i == len(ms) {
			if n++; stride <= 1 || n%stride == 0 {
				c := reflect.New(p.typ).Elem()
				c.Set(v)
				checkValue(p, ms, c)
			}
			return
		}
		vs, ok := p.vals[ms[i].goName]
		if !ok {
			panic("no values for " + p.name + "." + ms[i].goName)
		}
		for _, x := range vs {
			v.Field(ms[i].idx).Set(reflect.ValueOf(x))
			rec(i+1, v)
		}
	}
	rec(0, reflect.New(p.typ).Elem())
}

// ---- part 2: embedded paragraph, unknown fields ----

type kv struct{ k, v string }

func embedded(thorough bool) {
	foos := []string{"\x00absent", "f"}
	nums := []string{"\x00absent", "5"}
	lists := []string{"\x00absent", "a, b c"}
	unknown := []kv{{"U1", "x y"}, {"X-U2", "a\n b\n\nc"}}
	newFoo := []string{"\x00keep", "g h", ""}
	newNum := []interface{}{nil, -1, 0, math.MaxInt}
	newList := []interface{}{nil, []string{"z"}, []string{"p q", "r"}, []string(nil)}
	for _, f := range foos {
		for _, n := range nums {
			for _, l := range lists {
				var known []kv
				for _, x := range []kv{{"Foo", f}, {"X-Num", n}, {"List", l}} {
					if x.v != "\x00absent" {
						known = append(known, x)
					}
				}
				// unknown fields: none, U1 in any slot, U1 and U2 in any slots (both relative orders)
				var layouts [][]kv
				layouts = append(layouts, known)
				for s1 := 0; s1 <= len(known); s1++ {
					one := insert(known, s1, unknown[0])
					layouts = append(layouts, one)
					for s2 := 0; s2 <= len(one); s2++ {
						layouts = append(layouts, insert(one, s2, unknown[1]))
					}
				}
				for _, lay := range layouts {
					if len(lay) == 0 {
						continue
					}
					for _, nf := range newFoo {
						for _, nn := range newNum {
							for _, nl := range newList {
								checkEmbedded(lay, nf, nn, nl)
							}
						}
					}
				}
			}
		}
	}
}

func insert(base []kv, at int, x kv) []kv {
	out := append([]kv{}, base[:at]...)
	out = append(out, x)
	return append(out, base[at:]...)
}

func render(lay []kv) string {
	var b strings.Builder
	for _, x := range lay {
		ls := strings.Split(x.v, "\n")
		b.WriteString(x.k + ": " + ls[0] + "\n")
		for _, l := range ls[1:] {
			if l == "" {
				l = "."
			}
			b.WriteString(" " + l + "\n")
		}
	}
	return b.String()
}

func checkEmbedded(lay []kv, nf string, nn, nl interface{}) {
	doc := render(lay)
	in := fmt.Sprintf("document %q then set Foo=%q Num=%v List=%v (\\x00keep/<nil> = leave as read)", doc, nf, nn, nl)
	count("embedded paragraph", in, true)
	var e Emb
	var err error
	if pan := guard(func() { err = control.Unmarshal(&e, strings.NewReader(doc)) }); pan != "" || err != nil {
		fail("embedded-unmarshal", "", in, fmt.Sprintf("panic=%q err=%v", pan, err))
		return
	}
	if nf != "\x00keep" {
		e.Foo = nf
	}
	if nn != nil {
		e.Num = nn.(int)
	}
	if nl != nil {
		e.List = nl.([]string)
	}
	var out bytes.Buffer
	if pan := guard(func() { err = control.Marshal(&out, e) }); pan != "" || err != nil {
		fail("marshal-panic", "embedded", in, fmt.Sprintf("panic=%q err=%v", pan, err))
		return
	}
	var para control.Paragraph
	if out.Len() > 0 {
		p, err := readOne(out.String())
		if err != nil {
			fail("marshalled-text-unreadable", "embedded", in, fmt.Sprintf("Marshal wrote %q: %v", out.String(), err))
			return
		}
		para = *p
	}
	if len(samples) < 10 && len(lay) == 4 && nf == "g h" && nn == nil {
		samples = append(samples, map[string]string{"probe": "embedded paragraph", "document": doc, "then": fmt.Sprintf("Foo=%q List=%v", nf, nl), "marshalled": out.String()})
	}
	// current values of the known fields, as text ("" = zero => omitted)
	cur := map[string]string{"Foo": e.Foo, "X-Num": strconv.Itoa(e.Num), "List": strings.Join(e.List, ", ")}
	zero := map[string]bool{"Foo": e.Foo == "", "X-Num": e.Num == 0, "List": len(e.List) == 0}
	// 1. unknown fields unchanged (same logical value), 2. known fields show the current value, zero ones are omitted
	var wantOrder []string
	for _, x := range lay {
		got, present := para.Values[x.k]
		if c, known := cur[x.k]; known {
			switch {
			case zero[x.k] && present && got == x.v:
				fail("embedded-stale-known-field", x.k, in, fmt.Sprintf("struct field for %s now holds its zero value but Marshal re-emits the old text: %q", x.k, out.String()))
				wantOrder = append(wantOrder, x.k)
			case zero[x.k] && present:
				// a zero int renders as "0" (non-empty) and is written: see zeroMayBeWritten
				wantOrder = append(wantOrder, x.k)
			case zero[x.k]:
			case !present || got != c:
				fail("embedded-known-field-not-current", x.k, in, fmt.Sprintf("field %s should read %q, Marshal wrote %q", x.k, c, out.String()))
				wantOrder = append(wantOrder, x.k)
			default:
				wantOrder = append(wantOrder, x.k)
			}
			continue
		}
		wantOrder = append(wantOrder, x.k)
		if !present || strings.TrimSuffix(got, "\n") != strings.TrimSuffix(x.v, "\n") {
			fail("embedded-unknown-field-changed", x.k, in, fmt.Sprintf("unknown field %s=%q, Marshal wrote %q", x.k, x.v, out.String()))
		}
	}
	// known fields that were not in the document but are set now must be written (position not prescribed)
	inDoc := map[string]bool{}
	for _, x := range lay {
		inDoc[x.k] = true
	}
	for _, k := range []string{"Foo", "X-Num", "List"} {
		if !inDoc[k] && !zero[k] {
			if got, present := para.Values[k]; !present || got != cur[k] {
				fail("embedded-known-field-not-current", k, in, fmt.Sprintf("new field %s should read %q, Marshal wrote %q", k, cur[k], out.String()))
			}
		}
	}
	// 3. original relative order kept
	var gotOrder []string
	for _, k := range para.Order {
		if inDoc[k] {
			gotOrder = append(gotOrder, k)
		}
	}
	var wantKept []string
	for _, k := range wantOrder {
		if _, ok := para.Values[k]; ok {
			wantKept = append(wantKept, k)
		}
	}
	if strings.Join(gotOrder, ",") != strings.Join(wantKept, ",") {
		fail("embedded-order-changed", "", in, fmt.Sprintf("document order %v, written order %v (%q)", wantKept, para.Order, out.String()))
	}
}

// ---- main ----

func main() {
	thorough := os.Getenv("TIER") == "thorough"
	for _, p := range probes(thorough) {
		runProbe(p, 1)
	}
	embedded(thorough)

	if fails == nil {
		fails = []failure{}
	}
	sort.SliceStable(fails, func(i, j int) bool { return fails[i].Key < fails[j].Key })
	for i := range fails {
		fails[i].What = fmt.Sprintf("%s (%d cases failed this check)", fails[i].What, failCnt[fails[i].Key])
	}
	if len(fails) > 20 {
		fails = fails[:20]
	}
	var names []string
	for _, p := range probes(false) {
		names = append(names, p.name)
	}
	out := map[string]interface{}{
		"bound": "Probe struct types: " + strings.Join(names, "; ") + ". Every probe: full cross product of the per-field value sets. " +
			map[bool]string{true: "THOROUGH tier: each single-kind value set below is extended by 2-6 further values (see probes()). ", false: ""}[thorough] + "Value sets: strings {\"\", \"a\", \"a b\", \"x  y-z_1.0\"} (plain string probe also the canonical multi-line values \"a\\nb\\n\", \"a\\n b\\n\\nc\\n\"); int {0,-1,7,MaxInt,MinInt}; uint {0,1,MaxInt+1,MaxUint}; bool; " +
			"[]string {nil,[a],[\"a b\",c],[a,\"b c\",\"d e f\"]} for delimiters ', ' and ',' (+strip), {nil,[a],[a,b],[a,b,c]} for the default space delimiter (no empty elements; no spaces inside elements when the delimiter is a space); " +
			"version.Version {zero, 1.0, 1.0-1, 2:1.0~rc1-1+b2, 0:1:2-3-4} (via version.Parse); dependency.Dependency {zero, 'foo', 'foo (>= 1.0), bar | baz:any', 'a [amd64 i386] <!nocheck>, b [!linux-any], ${misc:Depends}'} (via dependency.Parse); " +
			"dependency.Arch {zero, amd64, any, all, linux-any, kfreebsd-amd64, bsd-openbsd-i386 (via dependency.ParseArch), literal {gnu linux arm64}}; []Arch of 0..3; multiline strings {\"\", \"a\\n\", \"a\", \"a b\\nc\\n\", \"a\\n b\\n\\nc\\n\", \" a\\nb\\n\"}; pointers {nil, &value} for string,int,uint,bool,Version,Dependency. " +
			"Equality after the round trip, field by field: reflect.DeepEqual, except nil list == empty list, pointers compared by pointee (nil only equals nil), `multiline` strings equal up to one trailing \"\\n\", control:\"-\" fields must come back zero. " +
			"Embedded paragraph (struct Emb{control.Paragraph; Foo string; Num int `control:\"X-Num\"`; List []string `delim:\", \"`}): documents with each known field absent/present (Foo: f, X-Num: 5, List: a, b c) and 0..2 unknown fields (U1: 'x y'; X-U2: multi-line 'a\\n b\\n\\nc') in every slot before/between/after the known ones, both relative orders; after Unmarshal each known field is left alone or set to a new value including its zero value (Foo {keep,\"g h\",\"\"}, Num {keep,-1,0,MaxInt}, List {keep,[z],[\"p q\",r],nil}); then Marshal.",
		"rule": "Values are generated as the nested cross product per probe and checked single-threaded (the domain is small). Per value: Marshal must not panic or fail; the written field names must be exactly, in struct order: required fields, and optional fields whose value is not zero (zero = Go zero value or empty list), never control:\"-\" fields; Unmarshal of the text into a fresh value must succeed and reproduce every field; for each required field, the text with that field removed (and an X-Other field added) must make Unmarshal fail. " +
			"Embedded: unknown fields keep value and relative order, known fields present in the output show the struct's current value, known fields whose current value is zero are omitted, known fields newly set are written. " +
			fmt.Sprintf("evaluations by probe: %v. A case is trivial (%d of them, not counted in distinct_nontrivial) when nothing is expected and nothing is written (all fields optional and zero: the text is empty and there is no paragraph to read back). distinct_nontrivial = distinct (probe, value) descriptions by 64-bit FNV.", byPart, trivial),
		"evaluations":         evals,
		"distinct_nontrivial": len(seen),
		"exhaustive":          true,
		"samples":             samples,
		"failure_counts":      failCnt,
		"failures":            fails,
	}
	enc := json.NewEncoder(os.Stdout)
	enc.SetEscapeHTML(false)
	enc.Encode(out)
}


func zeroMayBeWritten(f reflect.Value) bool {
	switch f.Kind() {
	case reflect.Int, reflect.Uint, reflect.Bool:
		return true
	}
	return false
}
