// C09 bounded stand-in: control.Marshal / control.Unmarshal round trip over a family of probe struct types, the
// omission / required rules, and pass-through of unknown fields when the struct embeds control.Paragraph (also with
// renamed fields of every kind: unmarshal, zero or change known fields, marshal; values ending in blank lines).
package main

import (
	"bytes"
	"encoding/json"
	"fmt"
	"hash/fnv"
	"math"
	"os"
	"reflect"
	"sort"
	"strconv"
	"strings"

	"pault.ag/go/debian/control"
	"pault.ag/go/debian/dependency"
	"pault.ag/go/debian/version"
)

// ---- probe types: one per kind / tag combination, then combined ones ----

type PStr struct{ S string }
type PInt struct{ N int }
type PUint struct{ U uint }
type PBool struct{ B bool }
type PListComma struct {
	L []string `delim:", "`
}
type PListSpace struct{ L []string }
type PListStrip struct {
	L []string `delim:"," strip:" \n"`
}
type PVer struct{ V version.Version }
type PDep struct{ D dependency.Dependency }
type PArch struct{ A dependency.Arch }
type PArches struct{ As []dependency.Arch }
type PRenamed struct {
	S string `control:"X-Name"`
	N int    `control:"X-Num"`
}
type PReqStr struct {
	S string `required:"true"`
}
type PReqInt struct {
	N int  `required:"true"`
	U uint `required:"true"`
	B bool `required:"true"`
}
type PReqList struct {
	L []string `required:"true" delim:", "`
}
type PReqVer struct {
	V version.Version `required:"true"`
}
type PSkip struct {
	S string `control:"-"`
	N int    `control:"-"`
	T string
}
type PMulti struct {
	M string `multiline:"true"`
}
type PPtr struct {
	PS *string
	PI *int
	PU *uint
	PB *bool
	PV *version.Version
	PD *dependency.Dependency
}
type Comb1 struct {
	Package string `required:"true"`
	Source  string
	Version version.Version
	Arch    dependency.Arch
	Depends dependency.Dependency `control:"Pre-Depends"`
	Size    int                   `control:"Installed-Size"`
	Tags    []string              `control:"Tag" delim:", " strip:" \n"`
	Desc    string                `control:"Description" multiline:"true"`
	Hidden  string                `control:"-"`
}
type Comb2 struct {
	Name   string `control:"X-Name" required:"true"`
	Count  uint   `control:"X-Count"`
	Flag   bool   `control:"X-Flag" required:"true"`
	Arches []dependency.Arch
	Bins   []string `control:"Binary" delim:", "`
	Note   *string  `control:"X-Note"`
	Body   string   `multiline:"true" required:"true"`
}
type Comb3 struct {
	A string
	B int
	C []string `delim:" "`
	D version.Version
	E *int
	F string `multiline:"true"`
}

// embeds the raw paragraph
type Emb struct {
	control.Paragraph
	Foo  string
	Num  int      `control:"X-Num"`
	List []string `delim:", "`
}

// ---- value sets ----

func mustVer(s string) version.Version {
	v, err := version.Parse(s)
	if err != nil {
		panic(err)
	}
	return v
}
func mustDep(s string) dependency.Dependency {
	d, err := dependency.Parse(s)
	if err != nil {
		panic(err)
	}
	return *d
}
func mustArch(s string) dependency.Arch {
	a, err := dependency.ParseArch(s)
	if err != nil {
		panic(err)
	}
	return *a
}
func sp(s string) *string { return &s }
func ip(i int) *int       { return &i }
func up(u uint) *uint     { return &u }
func bp(b bool) *bool     { return &b }
func vp(s string) *version.Version {
	v := mustVer(s)
	return &v
}
func dp(s string) *dependency.Dependency {
	d := mustDep(s)
	return &d
}

type vals []interface{}

var (
	strs    = vals{"", "a", "a b", "x  y-z_1.0"}
	ints    = vals{0, -1, 7, math.MaxInt, math.MinInt}
	uints   = vals{uint(0), uint(1), uint(math.MaxInt) + 1, uint(math.MaxUint)}
	bools   = vals{false, true}
	lists   = vals{[]string(nil), []string{"a"}, []string{"a b", "c"}, []string{"a", "b c", "d e f"}}
	listsSp = vals{[]string(nil), []string{"a"}, []string{"a", "b"}, []string{"a", "b", "c"}}
	vers    = vals{version.Version{}, mustVer("1.0"), mustVer("1.0-1"), mustVer("2:1.0~rc1-1+b2"), mustVer("0:1:2-3-4")}
	deps    = vals{dependency.Dependency{}, mustDep("foo"), mustDep("foo (>= 1.0), bar | baz:any"), mustDep("a [amd64 i386] <!nocheck>, b [!linux-any], ${misc:Depends}")}
	arches  = vals{dependency.Arch{}, mustArch("amd64"), mustArch("any"), mustArch("all"), mustArch("linux-any"), mustArch("kfreebsd-amd64"), mustArch("bsd-openbsd-i386"),
		dependency.Arch{ABI: "gnu", OS: "linux", CPU: "arm64"}}
	archLs = vals{[]dependency.Arch(nil), []dependency.Arch{mustArch("amd64")}, []dependency.Arch{mustArch("amd64"), mustArch("any")}, []dependency.Arch{mustArch("all"), mustArch("i386"), mustArch("bsd-openbsd-i386")}}
	multis = vals{"", "a\n", "a", "a b\nc\n", "a\n b\n\nc\n", " a\nb\n", // canonical form ends in "\n"; "a" tests the added newline
		"a\n\n", "a\nb\n\n\n", "a\n\nb\n\n"} // values ending in 1..2 blank lines (written as trailing " ." lines)
	// plain (not `multiline`) strings in the reader's canonical multi-line form; the last three end in 1..2 blank lines
	strsML = vals{"a\nb\n", "a\n b\n\nc\n", "a\n\n", "a\nb\n\n\n", "a\n\nb\n\n"}
)

type probe struct {
	name string
	typ  reflect.Type
	vals map[string]vals
}

func probes(thorough bool) []probe {
	if thorough { // larger value sets; the combined probes stay as they are (their product is already the full cross product)
		strs = append(strs, "a,b", "1.0-1", "-", "yes", "#x", "a: b")
		ints = append(ints, 1, 10, -10, math.MaxInt32, math.MinInt32)
		uints = append(uints, uint(7), uint(math.MaxUint32))
		lists = append(lists, []string{"a:b"}, []string{"x y z", "w"}, []string{"1", "2", "3"})
		vers = append(vers, mustVer("1.0-1-2"), mustVer("0~~"), mustVer("10:1a+b.c~d-e+f"))
		deps = append(deps, mustDep("a (<< 1), a (>> 2), a (= 1:1-1)"), mustDep("x:amd64 [linux-any] <stage1 !nocheck> <cross>"), mustDep("a | b | c, d"))
		arches = append(arches, mustArch("hurd-i386"), mustArch("any-amd64"), mustArch("musl-linux-any"), mustArch("gnu-any-any"))
		multis = append(multis, "a\n\n\nb\n", "a\n  deep\n", "one line with spaces\n", "a\n  deep\n\n", "a\n\n\n\n")
		strsML = append(strsML, "a\n\n\n\n", "a b\n  c\n\n")
	}
	t := func(x interface{}) reflect.Type { return reflect.TypeOf(x) }
	return []probe{
		{"string", t(PStr{}), map[string]vals{"S": append(append(vals{}, strsML...), strs...)}},
		{"int", t(PInt{}), map[string]vals{"N": ints}},
		{"uint", t(PUint{}), map[string]vals{"U": uints}},
		{"bool", t(PBool{}), map[string]vals{"B": bools}},
		{"list delim=', '", t(PListComma{}), map[string]vals{"L": lists}},
		{"list default delim", t(PListSpace{}), map[string]vals{"L": listsSp}},
		{"list delim=',' strip=' \\n'", t(PListStrip{}), map[string]vals{"L": lists}},
		{"version", t(PVer{}), map[string]vals{"V": vers}},
		{"dependency", t(PDep{}), map[string]vals{"D": deps}},
		{"arch", t(PArch{}), map[string]vals{"A": arches}},
		{"[]arch", t(PArches{}), map[string]vals{"As": archLs}},
		{"renamed", t(PRenamed{}), map[string]vals{"S": strs, "N": ints}},
		{"required string", t(PReqStr{}), map[string]vals{"S": strs}},
		{"required int/uint/bool", t(PReqInt{}), map[string]vals{"N": ints, "U": uints, "B": bools}},
		{"required list", t(PReqList{}), map[string]vals{"L": lists}},
		{"required version", t(PReqVer{}), map[string]vals{"V": vers}},
		{"skipped", t(PSkip{}), map[string]vals{"S": strs, "N": ints, "T": strs}},
		{"multiline", t(PMulti{}), map[string]vals{"M": multis}},
		{"pointers", t(PPtr{}), map[string]vals{
			"PS": {(*string)(nil), sp("a"), sp("a b")}, "PI": {(*int)(nil), ip(0), ip(-1), ip(math.MaxInt)}, "PU": {(*uint)(nil), up(0), up(math.MaxUint)},
			"PB": {(*bool)(nil), bp(false), bp(true)}, "PV": {(*version.Version)(nil), vp("1:1.0-1")}, "PD": {(*dependency.Dependency)(nil), dp("foo | bar (<< 2)")}}},
		{"combined 1 (binary-package like)", t(Comb1{}), map[string]vals{
			"Package": {"", "pkg"}, "Source": {"", "src (1.0)"}, "Version": {version.Version{}, mustVer("1:1.0-1")}, "Arch": {mustArch("amd64"), mustArch("all"), mustArch("linux-any")},
			"Depends": {dependency.Dependency{}, mustDep("libc6 (>= 2.4), a | b")}, "Size": {0, 1024, -1}, "Tags": {[]string(nil), []string{"role::program", "x y"}},
			"Desc": {"", "short\n long\n\nmore\n", "short\n long\n\n"}, "Hidden": {"", "h"}}},
		{"combined 2 (renamed+required+list+pointer+multiline)", t(Comb2{}), map[string]vals{
			"Name": {"", "n m"}, "Count": {uint(0), uint(math.MaxUint)}, "Flag": bools, "Arches": {[]dependency.Arch(nil), []dependency.Arch{mustArch("amd64"), mustArch("any")}},
			"Bins": {[]string(nil), []string{"a"}, []string{"a", "b c", "d"}}, "Note": {(*string)(nil), sp("n")}, "Body": {"", "l1\nl2\n", "l1\n\n l3\n", "l1\n\n\n"}}},
		{"combined 3 (all optional)", t(Comb3{}), map[string]vals{
			"A": {"", "a b"}, "B": {0, -1, math.MaxInt}, "C": {[]string(nil), []string{"x"}, []string{"x", "y", "z"}}, "D": {version.Version{}, mustVer("1.0-1")},
			"E": {(*int)(nil), ip(0), ip(5)}, "F": {"", "f\n", "f\n g\n", "f\n\n"}}},
	}
}

// ---- field meta data, from the struct tags (the user's declaration) ----

type meta struct {
	idx                       int
	goName, key               string
	required, skip, multiline bool
}

func metas(t reflect.Type) (ms []meta) {
	for i := 0; i < t.NumField(); i++ {
		f := t.Field(i)
		if f.Anonymous {
			continue
		}
		m := meta{idx: i, goName: f.Name, key: f.Name, required: f.Tag.Get("required") == "true", multiline: f.Tag.Get("multiline") == "true"}
		if k := f.Tag.Get("control"); k != "" {
			m.key = k
		}
		m.skip = m.key == "-"
		ms = append(ms, m)
	}
	return
}

// zero for the omission rule: the Go zero value; an empty list counts as zero
func isZero(v reflect.Value) bool {
	if v.Kind() == reflect.Slice {
		return v.Len() == 0
	}
	return v.IsZero()
}

// field equality after a round trip: nil and empty lists are the same list; pointers are compared by what they point to;
// multiline fields are equal up to one trailing newline.
func sameField(a, b reflect.Value, multiline bool) bool {
	switch a.Kind() {
	case reflect.Ptr:
		if a.IsNil() || b.IsNil() {
			return a.IsNil() && b.IsNil()
		}
		return sameField(a.Elem(), b.Elem(), multiline)
	case reflect.Slice:
		if a.Len() == 0 && b.Len() == 0 {
			return true
		}
	case reflect.String:
		if multiline {
			return strings.TrimSuffix(a.String(), "\n") == strings.TrimSuffix(b.String(), "\n")
		}
	}
	return reflect.DeepEqual(a.Interface(), b.Interface())
}

func describe(v reflect.Value) string {
	switch v.Kind() {
	case reflect.Ptr:
		if v.IsNil() {
			return "nil"
		}
		return "&" + describe(v.Elem())
	case reflect.Struct:
		var parts []string
		for i := 0; i < v.NumField(); i++ {
			if v.Type().Field(i).Anonymous && v.Type().Field(i).Type == reflect.TypeOf(control.Paragraph{}) {
				continue
			}
			parts = append(parts, v.Type().Field(i).Name+":"+describe(v.Field(i)))
		}
		return "{" + strings.Join(parts, " ") + "}"
	case reflect.Slice:
		var parts []string
		for i := 0; i < v.Len(); i++ {
			parts = append(parts, describe(v.Index(i)))
		}
		return "[" + strings.Join(parts, ",") + "]"
	case reflect.String:
		return strconv.Quote(v.String())
	}
	return fmt.Sprint(v.Interface())
}

// ---- bookkeeping ----

type failure struct {
	Key   string      `json:"key"`
	Input interface{} `json:"input"`
	What  string      `json:"what"`
}

var (
	evals     int
	byPart    = map[string]int{}
	seen      = map[uint64]bool{}
	trivial   int
	fails     []failure
	failCnt   = map[string]int{}
	failTotal int
	failKept  = map[string]int{}
	samples   []interface{}
	sampled   = map[string]bool{}
)

func fail(key, sub string, input interface{}, what string) {
	failCnt[key]++
	failTotal++
	if failKept[key+"/"+sub]++; failKept[key+"/"+sub] <= 1 && failKept[key] < 3 {
		failKept[key]++
		fails = append(fails, failure{key, input, what})
	}
}
func count(part, input string, nontrivial bool) {
	evals++
	byPart[part]++
	if !nontrivial {
		trivial++
		return
	}
	h := fnv.New64a()
	h.Write([]byte(part + "\x00" + input))
	seen[h.Sum64()] = true
}

func guard(f func()) (pan string) {
	defer func() {
		if r := recover(); r != nil {
			pan = fmt.Sprint(r)
		}
	}()
	f()
	return ""
}

func readOne(text string) (*control.Paragraph, error) {
	r, err := control.NewParagraphReader(strings.NewReader(text), nil)
	if err != nil {
		return nil, err
	}
	ps, err := r.All()
	if err != nil {
		return nil, err
	}
	if len(ps) != 1 {
		return nil, fmt.Errorf("%d paragraphs", len(ps))
	}
	return &ps[0], nil
}

// ---- part 1: round trip + omission/required rules for one value ----

func kindName(v reflect.Value) string {
	if v.Kind() == reflect.Struct || v.Kind() == reflect.Ptr {
		return v.Type().String()
	}
	return v.Kind().String()
}

func checkValue(p probe, ms []meta, v reflect.Value) {
	in := p.name + " " + describe(v)
	var text bytes.Buffer
	var err error
	if pan := guard(func() { err = control.Marshal(&text, v.Interface()) }); pan != "" {
		count(p.name, in, true)
		fail("marshal-panic", p.name, in, "Marshal panicked: "+pan)
		return
	}
	if err != nil {
		count(p.name, in, true)
		fail("marshal-error", p.name, in, "Marshal of a supported value failed: "+err.Error())
		return
	}
	// expected keys, from the statement: skipped never, required always, optional iff not zero; in struct order
	var want []string
	for _, m := range ms {
		if !m.skip && (m.required || !isZero(v.Field(m.idx))) {
			want = append(want, m.key)
		}
	}
	var got []string
	var para *control.Paragraph
	if text.Len() > 0 {
		if para, err = readOne(text.String()); err != nil {
			count(p.name, in, true)
			fail("marshalled-text-unreadable", p.name, in, fmt.Sprintf("Marshal wrote %q, reader: %v", text.String(), err))
			return
		}
		got = para.Order
	}
	count(p.name, in, len(want) > 0 || len(got) > 0)
	if len(samples) < 8 && len(want) > 0 && !sampled[p.name] && evals%5 == 3 {
		sampled[p.name] = true
		samples = append(samples, map[string]string{"probe": p.name, "value": describe(v), "marshalled": text.String()})
	}
	if strings.Join(got, ",") != strings.Join(want, ",") {
		// say which rule is broken: written although zero and optional / missing although required or not zero
		has := func(k string) bool {
			if para == nil {
				return false
			}
			_, ok := para.Values[k]
			return ok
		}
		for _, m := range ms {
			f := v.Field(m.idx)
			switch {
			case m.skip:
				if has("-") || has(m.goName) {
					fail("skipped-field-written", p.name, in, fmt.Sprintf("field %s is tagged control:\"-\" but the text is %q", m.goName, text.String()))
				}
			case !m.required && isZero(f) && has(m.key) && zeroMayBeWritten(f):
				// int, uint and bool zero values render as non-empty text ("0", "no"): the encoder omits a field
				// exactly when its rendering is empty, and the upstream tests (TestBoolMarshal) pin "no". The
				// statement's "optional zero fields are omitted" is read as: fields whose rendering is empty.
			case !m.required && isZero(f) && has(m.key):
				fail("zero-"+kindName(f)+"-written", p.name, in, fmt.Sprintf("optional field %s has its zero value %s but Marshal wrote %q (statement: optional zero fields are omitted)", m.goName, describe(f), text.String()))
			case (m.required || !isZero(f)) && !has(m.key):
				k := "nonzero-field-omitted"
				if m.required {
					k = "required-field-omitted"
				}
				fail(k, p.name+m.goName, in, fmt.Sprintf("field %s = %s is missing from %q", m.goName, describe(f), text.String()))
			}
		}
		if strings.Join(sorted(got), ",") == strings.Join(sorted(want), ",") {
			fail("field-order", p.name, in, fmt.Sprintf("fields written in order %v, struct order is %v", got, want))
		}
	}
	if text.Len() == 0 {
		return // nothing written (all fields optional and zero): there is no paragraph to read back
	}
	// round trip
	back := reflect.New(p.typ)
	if pan := guard(func() { err = control.Unmarshal(back.Interface(), strings.NewReader(text.String())) }); pan != "" {
		fail("unmarshal-panic", p.name, in, fmt.Sprintf("Unmarshal of %q panicked: %s", text.String(), pan))
		return
	}
	if err != nil {
		// a required field holding the zero version.Version is written as empty text, which is not a version:
		// the zero Version is outside "every struct value built from the supported field kinds"
		for _, m := range ms {
			if m.required && isZero(v.Field(m.idx)) && v.Field(m.idx).Type().String() == "version.Version" {
				return
			}
		}
		sub := p.name
		for _, m := range ms {
			if m.required && isZero(v.Field(m.idx)) {
				sub += "/" + m.goName
			}
		}
		fail("roundtrip-unmarshal-error", sub, in, fmt.Sprintf("Marshal wrote %q, Unmarshal of that: %v", text.String(), err))
		return
	}
	for _, m := range ms {
		a, b := v.Field(m.idx), back.Elem().Field(m.idx)
		if m.skip {
			if !b.IsZero() {
				fail("skipped-field-read", p.name, in, fmt.Sprintf("field %s is tagged control:\"-\" but came back as %s from %q", m.goName, describe(b), text.String()))
			}
			continue
		}
		if !sameField(a, b, m.multiline) {
			key := "roundtrip-" + kindName(a)
			if m.required && isZero(a) {
				key += "-required-zero"
			}
			fail(key, p.name+m.goName+describe(a), in, fmt.Sprintf("field %s: %s marshalled in %q comes back as %s", m.goName, describe(a), text.String(), describe(b)))
		}
	}
	// a required field missing on input is an error
	for _, m := range ms {
		if !m.required || m.skip || para == nil {
			continue
		}
		cut := control.Paragraph{Values: map[string]string{"X-Other": "1"}, Order: []string{"X-Other"}}
		for _, k := range para.Order {
			if k != m.key {
				cut.Set(k, para.Values[k])
			}
		}
		var b bytes.Buffer
		cut.WriteTo(&b)
		fresh := reflect.New(p.typ)
		if pan := guard(func() { err = control.Unmarshal(fresh.Interface(), strings.NewReader(b.String())) }); pan != "" {
			fail("unmarshal-panic", p.name, b.String(), "Unmarshal panicked: "+pan)
		} else if err == nil {
			fail("missing-required-accepted", p.name+m.goName, b.String(), fmt.Sprintf("%s: required field %s (%s) is absent but Unmarshal returned no error", p.name, m.goName, m.key))
		}
		count(p.name+" (required field removed)", b.String(), true)
		// the same through the exported paragraph-level entry point, for the paragraph without the field and for the
		// paragraph without any field
		for _, pg := range []control.Paragraph{cut, {Values: map[string]string{}, Order: []string{}}} {
			fresh := reflect.New(p.typ)
			what := fmt.Sprintf("UnpackFromParagraph(paragraph with fields %v)", pg.Order)
			if pan := guard(func() { err = control.UnpackFromParagraph(pg, fresh.Interface()) }); pan != "" {
				fail("unpack-panic", p.name, what, "UnpackFromParagraph panicked: "+pan)
			} else if err == nil {
				fail("missing-required-accepted-unpack", p.name+m.goName, what, fmt.Sprintf("%s: required field %s (%s) is absent but UnpackFromParagraph returned no error", p.name, m.goName, m.key))
			}
			count(p.name+" (required field removed, UnpackFromParagraph)", what+m.key, true)
		}
	}
}

func sorted(s []string) []string {
	c := append([]string{}, s...)
	sort.Strings(c)
	return c
}

func runProbe(p probe, stride int) {
	ms := metas(p.typ)
	n := 0
	var rec func(i int, v reflect.Value)
	rec = func(i int, v reflect.Value) {
		if i == len(ms) {
			if n++; stride <= 1 || n%stride == 0 {
				c := reflect.New(p.typ).Elem()
				c.Set(v)
				checkValue(p, ms, c)
			}
			return
		}
		vs, ok := p.vals[ms[i].goName]
		if !ok {
			panic("no values for " + p.name + "." + ms[i].goName)
		}
		for _, x := range vs {
			v.Field(ms[i].idx).Set(reflect.ValueOf(x))
			rec(i+1, v)
		}
	}
	rec(0, reflect.New(p.typ).Elem())
}

// ---- part 2: embedded paragraph, unknown fields ----

type kv struct{ k, v string }

func embedded(thorough bool) {
	foos := []string{"\x00absent", "f"}
	nums := []string{"\x00absent", "5"}
	lists := []string{"\x00absent", "a, b c"}
	// a kv value is the field's lines joined by "\n" (no final newline): the last two X-U2 values end in one and in two
	// blank lines (written " ." at the end of the field)
	unknown := []kv{{"U1", "x y"}, {"X-U2", "a\n b\n\nc"}, {"X-U2", "a\nb\n"}, {"X-U2", "a\n\n"}}
	newFoo := []string{"\x00keep", "g h", ""}
	newNum := []interface{}{nil, -1, 0, math.MaxInt}
	newList := []interface{}{nil, []string{"z"}, []string{"p q", "r"}, []string(nil)}
	for _, f := range foos {
		for _, n := range nums {
			for _, l := range lists {
				var known []kv
				for _, x := range []kv{{"Foo", f}, {"X-Num", n}, {"List", l}} {
					if x.v != "\x00absent" {
						known = append(known, x)
					}
				}
				// unknown fields: none, U1 in any slot, U1 and U2 in any slots (both relative orders)
				var layouts [][]kv
				layouts = append(layouts, known)
				for s1 := 0; s1 <= len(known); s1++ {
					one := insert(known, s1, unknown[0])
					layouts = append(layouts, one)
					for s2 := 0; s2 <= len(one); s2++ {
						for _, u2 := range unknown[1:] {
							layouts = append(layouts, insert(one, s2, u2))
						}
					}
				}
				for _, lay := range layouts {
					if len(lay) == 0 {
						continue
					}
					for _, nf := range newFoo {
						for _, nn := range newNum {
							for _, nl := range newList {
								checkEmbedded(lay, nf, nn, nl)
							}
						}
					}
				}
			}
		}
	}
}

func insert(base []kv, at int, x kv) []kv {
	out := append([]kv{}, base[:at]...)
	out = append(out, x)
	return append(out, base[at:]...)
}

func render(lay []kv) string {
	var b strings.Builder
	for _, x := range lay {
		ls := strings.Split(x.v, "\n")
		b.WriteString(x.k + ": " + ls[0] + "\n")
		for _, l := range ls[1:] {
			if l == "" {
				l = "."
			}
			b.WriteString(" " + l + "\n")
		}
	}
	return b.String()
}

func checkEmbedded(lay []kv, nf string, nn, nl interface{}) {
	doc := render(lay)
	in := fmt.Sprintf("document %q then set Foo=%q Num=%v List=%v (\\x00keep/<nil> = leave as read)", doc, nf, nn, nl)
	count("embedded paragraph", in, true)
	var e Emb
	var err error
	if pan := guard(func() { err = control.Unmarshal(&e, strings.NewReader(doc)) }); pan != "" || err != nil {
		fail("embedded-unmarshal", "", in, fmt.Sprintf("panic=%q err=%v", pan, err))
		return
	}
	if nf != "\x00keep" {
		e.Foo = nf
	}
	if nn != nil {
		e.Num = nn.(int)
	}
	if nl != nil {
		e.List = nl.([]string)
	}
	var out bytes.Buffer
	if pan := guard(func() { err = control.Marshal(&out, e) }); pan != "" || err != nil {
		fail("marshal-panic", "embedded", in, fmt.Sprintf("panic=%q err=%v", pan, err))
		return
	}
	var again bytes.Buffer
	if pan := guard(func() { err = control.Marshal(&again, e) }); pan != "" || err != nil || again.String() != out.String() {
		fail("marshal-changes-its-argument", "embedded", in, fmt.Sprintf("the same value marshalled twice: first %q, then %q (panic=%q err=%v)", out.String(), again.String(), pan, err))
	}
	var para control.Paragraph
	if out.Len() > 0 {
		p, err := readOne(out.String())
		if err != nil {
			fail("marshalled-text-unreadable", "embedded", in, fmt.Sprintf("Marshal wrote %q: %v", out.String(), err))
			return
		}
		para = *p
	}
	if len(samples) < 10 && len(lay) == 4 && nf == "g h" && nn == nil {
		samples = append(samples, map[string]string{"probe": "embedded paragraph", "document": doc, "then": fmt.Sprintf("Foo=%q List=%v", nf, nl), "marshalled": out.String()})
	}
	// current values of the known fields, as text ("" = zero => omitted)
	cur := map[string]string{"Foo": e.Foo, "X-Num": strconv.Itoa(e.Num), "List": strings.Join(e.List, ", ")}
	zero := map[string]bool{"Foo": e.Foo == "", "X-Num": e.Num == 0, "List": len(e.List) == 0}
	// 1. unknown fields unchanged (same logical value), 2. known fields show the current value, zero ones are omitted
	var wantOrder []string
	for _, x := range lay {
		got, present := para.Values[x.k]
		if c, known := cur[x.k]; known {
			switch {
			case zero[x.k] && present && got == x.v:
				fail("embedded-stale-known-field", x.k, in, fmt.Sprintf("struct field for %s now holds its zero value but Marshal re-emits the old text: %q", x.k, out.String()))
				wantOrder = append(wantOrder, x.k)
			case zero[x.k] && present:
				// a zero int renders as "0" (non-empty) and is written: see zeroMayBeWritten
				wantOrder = append(wantOrder, x.k)
			case zero[x.k]:
			case !present || got != c:
				fail("embedded-known-field-not-current", x.k, in, fmt.Sprintf("field %s should read %q, Marshal wrote %q", x.k, c, out.String()))
				wantOrder = append(wantOrder, x.k)
			default:
				wantOrder = append(wantOrder, x.k)
			}
			continue
		}
		wantOrder = append(wantOrder, x.k)
		if !present || strings.TrimSuffix(got, "\n") != x.v { // x.v: the lines joined by "\n"; the reader's value has one more "\n" when there are several lines
			fail("embedded-unknown-field-changed", x.k, in, fmt.Sprintf("unknown field %s=%q, Marshal wrote %q", x.k, x.v, out.String()))
		}
	}
	// known fields that were not in the document but are set now must be written (position not prescribed)
	inDoc := map[string]bool{}
	for _, x := range lay {
		inDoc[x.k] = true
	}
	for _, k := range []string{"Foo", "X-Num", "List"} {
		if !inDoc[k] && !zero[k] {
			if got, present := para.Values[k]; !present || got != cur[k] {
				fail("embedded-known-field-not-current", k, in, fmt.Sprintf("new field %s should read %q, Marshal wrote %q", k, cur[k], out.String()))
			}
		}
	}
	// 3. original relative order kept
	var gotOrder []string
	for _, k := range para.Order {
		if inDoc[k] {
			gotOrder = append(gotOrder, k)
		}
	}
	var wantKept []string
	for _, k := range wantOrder {
		if _, ok := para.Values[k]; ok {
			wantKept = append(wantKept, k)
		}
	}
	if strings.Join(gotOrder, ",") != strings.Join(wantKept, ",") {
		fail("embedded-order-changed", "", in, fmt.Sprintf("document order %v, written order %v (%q)", wantKept, para.Order, out.String()))
	}
}

// ---- part 3: embedded paragraph + renamed fields of every kind; unmarshal, zero or change known fields, marshal ----

type EmbR struct {
	control.Paragraph
	Plain  string                // not renamed: the reference case
	Home   string                `control:"X-Home"`
	Tags   []string              `control:"X-Tags" delim:", "`
	Words  []string              `control:"X-Words"`
	Ver    version.Version       `control:"X-Version"`
	Dep    dependency.Dependency `control:"X-Depends"`
	Arch   dependency.Arch       `control:"X-Arch"`
	Arches []dependency.Arch     `control:"X-Arches"`
	Note   *string               `control:"X-Note"`
	Desc   string                `control:"X-Desc" multiline:"true"`
	Count  int                   `control:"X-Count"`
	UCount uint                  `control:"X-UCount"`
	Flag   bool                  `control:"X-Flag"`
	Req    string                `control:"X-Req" required:"true"`
	Hidden string                `control:"-"`
}

// one known field of EmbR: its text in the document (lines joined by "\n"), the value that text stands for, and the
// values a scenario sets it to: alts[0] is the zero value, the others are different non-zero values
type kfield struct {
	goName, key, text string
	val               interface{}
	alts              []interface{}
}

var embRFields = []kfield{
	{"Plain", "Plain", "p q", "p q", vals{"", "r"}},
	{"Home", "X-Home", "http://example.org/x", "http://example.org/x", vals{"", "h2"}},
	{"Tags", "X-Tags", "a, b c", []string{"a", "b c"}, vals{[]string(nil), []string{}, []string{"z"}}},
	{"Words", "X-Words", "w1 w2", []string{"w1", "w2"}, vals{[]string(nil), []string{"w3"}}},
	{"Ver", "X-Version", "1:1.0-1", mustVer("1:1.0-1"), vals{version.Version{}, mustVer("2.0~rc1")}},
	{"Dep", "X-Depends", "foo (>= 1.0), bar | baz", mustDep("foo (>= 1.0), bar | baz"), vals{dependency.Dependency{}, mustDep("qux [amd64]")}},
	{"Arch", "X-Arch", "amd64", mustArch("amd64"), vals{dependency.Arch{}, mustArch("linux-any")}},
	{"Arches", "X-Arches", "amd64 any", []dependency.Arch{mustArch("amd64"), mustArch("any")}, vals{[]dependency.Arch(nil), []dependency.Arch{mustArch("i386")}}},
	{"Note", "X-Note", "n o", sp("n o"), vals{(*string)(nil), sp("m")}},
	{"Desc", "X-Desc", "\nshort\n long\n\nmore", "short\n long\n\nmore\n", vals{"", "d1\n\nd2\n\n", "d1\n\n\n"}}, // `multiline`: the text starts on the line after the key; two values end in blank lines
	{"Count", "X-Count", "5", 5, vals{0, -1}},
	{"UCount", "X-UCount", "7", uint(7), vals{uint(0), uint(math.MaxUint)}},
	{"Flag", "X-Flag", "yes", true, vals{false}},
	{"Req", "X-Req", "r s", "r s", vals{"", "r2"}},
}

// unknown fields: one line; several lines with a blank line inside; ending in one blank line; ending in two blank lines
var embRUnknown = []kv{{"U1", "x y"}, {"X-U2", "a\n b\n\nc"}, {"X-U3", "a\nb\n"}, {"X-U4", "t\n\n"}}

func trimNL(s string) string { return strings.TrimSuffix(s, "\n") }

// the text of a field where the statement leaves no freedom: strings, integers and lists of strings
func plainText(f reflect.Value, delim string) (string, bool) {
	switch f.Kind() {
	case reflect.Ptr:
		if f.IsNil() {
			return "", false
		}
		return plainText(f.Elem(), delim)
	case reflect.String:
		return f.String(), true
	case reflect.Int:
		return strconv.FormatInt(f.Int(), 10), true
	case reflect.Uint:
		return strconv.FormatUint(f.Uint(), 10), true
	case reflect.Slice:
		if f.Type().Elem().Kind() == reflect.String {
			var el []string
			for i := 0; i < f.Len(); i++ {
				el = append(el, f.Index(i).String())
			}
			return strings.Join(el, delim), true
		}
	}
	return "", false
}

// embCore: Unmarshal doc into a fresh value of typ (a struct embedding control.Paragraph), compare the decoded fields
// with `decoded` (by Go field name; fields not listed must be zero), set the fields in `mut`, Marshal, and check the
// written paragraph against the statement. Returns the written text and the struct as marshalled.
func embCore(part string, typ reflect.Type, doc string, lay []kv, decoded, mut map[string]interface{}, in string) (string, reflect.Value, bool) {
	ms := metas(typ)
	count(part, in, true)
	none := reflect.Value{}
	docPara, err := readOne(doc)
	if err != nil {
		fail("embedded-unmarshal", part, in, fmt.Sprintf("the reader rejects the document: %v", err))
		return "", none, false
	}
	for _, x := range lay {
		// a value that starts on the line after the key (first line empty) is read without that empty first line
		if got, ok := docPara.Values[x.k]; !ok || trimNL(got) != strings.TrimPrefix(x.v, "\n") {
			fail("embedded-document-misread", x.k, in, fmt.Sprintf("field %s has the lines %q, the reader gives %q", x.k, x.v, got))
		}
	}
	e := reflect.New(typ)
	if pan := guard(func() { err = control.Unmarshal(e.Interface(), strings.NewReader(doc)) }); pan != "" || err != nil {
		fail("embedded-unmarshal", part, in, fmt.Sprintf("panic=%q err=%v", pan, err))
		return "", none, false
	}
	v := e.Elem()
	known := map[string]bool{}
	for _, m := range ms {
		if !m.skip {
			known[m.key] = true
		}
		w := reflect.Zero(typ.Field(m.idx).Type)
		if x, ok := decoded[m.goName]; ok {
			w = reflect.ValueOf(x)
		}
		if !sameField(w, v.Field(m.idx), m.multiline) {
			fail("embedded-decode-differs", m.goName, in, fmt.Sprintf("field %s (%s) should decode to %s, Unmarshal gave %s", m.goName, m.key, describe(w), describe(v.Field(m.idx))))
		}
	}
	for _, m := range ms {
		if x, ok := mut[m.goName]; ok {
			v.Field(m.idx).Set(reflect.ValueOf(x))
		}
	}
	var out bytes.Buffer
	if pan := guard(func() { err = control.Marshal(&out, v.Interface()) }); pan != "" || err != nil {
		fail("marshal-panic", part, in, fmt.Sprintf("panic=%q err=%v", pan, err))
		return "", none, false
	}
	para := control.Paragraph{Values: map[string]string{}}
	if out.Len() > 0 {
		p, err := readOne(out.String())
		if err != nil {
			fail("marshalled-text-unreadable", part, in, fmt.Sprintf("Marshal wrote %q: %v", out.String(), err))
			return "", none, false
		}
		para = *p
	}
	state := "struct now " + describe(v)
	// 1. known fields: omitted when zero and optional, written when required or not zero, never the control:"-" ones
	for _, m := range ms {
		f := v.Field(m.idx)
		got, present := para.Values[m.key]
		old, wasInDoc := docPara.Values[m.key]
		if m.skip {
			if _, w := para.Values[m.goName]; w || present {
				fail("skipped-field-written", part, in, fmt.Sprintf("field %s is tagged control:\"-\" but the text is %q", m.goName, out.String()))
			}
			continue
		}
		z := isZero(f)
		switch {
		case z && !m.required && present && !zeroMayBeWritten(f):
			if wasInDoc && trimNL(got) == trimNL(old) {
				fail("embedded-stale-known-field", m.key, in, fmt.Sprintf("field %s (%s) now holds its zero value %s but Marshal re-emits the text it was read from: %q", m.goName, m.key, describe(f), out.String()))
			} else {
				fail("zero-"+kindName(f)+"-written", part+m.key, in, fmt.Sprintf("optional field %s (%s) holds its zero value %s but Marshal wrote %q", m.goName, m.key, describe(f), out.String()))
			}
		case (!z || m.required) && !present:
			k := "nonzero-field-omitted"
			if m.required {
				k = "required-field-omitted"
			}
			fail(k, part+m.key, in, fmt.Sprintf("field %s (%s) = %s is missing from %q", m.goName, m.key, describe(f), out.String()))
		case present && !m.multiline:
			delim := " "
			if d := typ.Field(m.idx).Tag.Get("delim"); d != "" {
				delim = d
			}
			if want, ok := plainText(f, delim); ok && trimNL(got) != trimNL(want) {
				fail("embedded-known-field-not-current", m.key, in, fmt.Sprintf("field %s (%s) should read %q, Marshal wrote %q; %s", m.goName, m.key, want, out.String(), state))
			}
		}
	}
	// 2. known fields reflect the current values: the written text decodes to the struct as it was marshalled
	if out.Len() > 0 {
		back := reflect.New(typ)
		if pan := guard(func() { err = control.Unmarshal(back.Interface(), strings.NewReader(out.String())) }); pan != "" || err != nil {
			fail("roundtrip-unmarshal-error", part, in, fmt.Sprintf("Marshal wrote %q, Unmarshal of that: panic=%q err=%v; %s", out.String(), pan, err, state))
		} else {
			for _, m := range ms {
				a, b := v.Field(m.idx), back.Elem().Field(m.idx)
				if m.skip {
					if !b.IsZero() {
						fail("skipped-field-read", part, in, fmt.Sprintf("field %s is tagged control:\"-\" but came back as %s from %q", m.goName, describe(b), out.String()))
					}
				} else if !sameField(a, b, m.multiline) {
					fail("embedded-known-field-not-current", m.key, in, fmt.Sprintf("field %s (%s) holds %s, but the text Marshal wrote, %q, decodes to %s", m.goName, m.key, describe(a), out.String(), describe(b)))
				}
			}
		}
	}
	// 3. unknown fields unchanged; nothing invented
	inDoc := map[string]bool{}
	for _, k := range docPara.Order {
		inDoc[k] = true
		if known[k] {
			continue
		}
		if got, present := para.Values[k]; !present || trimNL(got) != trimNL(docPara.Values[k]) {
			fail("embedded-unknown-field-changed", k, in, fmt.Sprintf("unknown field %s was read as %q, Marshal wrote %q", k, docPara.Values[k], out.String()))
		}
	}
	for _, k := range para.Order {
		if !inDoc[k] && !known[k] {
			fail("embedded-field-invented", k, in, fmt.Sprintf("field %s is neither in the document nor a field of the struct: %q", k, out.String()))
		}
	}
	// 4. the fields of the document that are written keep their order
	var gotOrder, wantOrder []string
	for _, k := range para.Order {
		if inDoc[k] {
			gotOrder = append(gotOrder, k)
		}
	}
	for _, k := range docPara.Order {
		if _, ok := para.Values[k]; ok {
			wantOrder = append(wantOrder, k)
		}
	}
	if strings.Join(gotOrder, ",") != strings.Join(wantOrder, ",") {
		fail("embedded-order-changed", part, in, fmt.Sprintf("document order %v, written order %v (%q)", wantOrder, para.Order, out.String()))
	}
	return out.String(), v, true
}

// layout of a document: the known fields selected by mask (Req always) in struct order, the unknown fields put into
// slots that move with the mask
func embRLayout(mask int) (lay []kv, decoded map[string]interface{}) {
	lay, decoded = embRLayoutKnown(mask)
	for i, u := range embRUnknown {
		lay = insert(lay, (mask*(i+3)+i*i)%(len(lay)+1), u)
	}
	return
}

func embRRun(part string, lay []kv, decoded, mut map[string]interface{}, what string, twoStep bool) {
	doc := render(lay)
	in := fmt.Sprintf("document %q, then %s", doc, what)
	typ := reflect.TypeOf(EmbR{})
	before := failTotal
	text, cur, ok := embCore(part, typ, doc, lay, decoded, mut, in)
	if len(samples) < 12 && ok && len(lay) == 9 && strings.HasPrefix(what, "set every known field to its zero") && !twoStep {
		samples = append(samples, map[string]string{"probe": part, "document": doc, "then": what, "marshalled": text})
	}
	if !ok || !twoStep || text == "" || failTotal != before {
		return // (a first step that already failed is reported once, not again through its consequences)
	}
	// second step: what was written is read into a fresh struct, every known field is zeroed, marshalled again:
	// the unknown fields and the required one are all that may be left (and the int/uint/bool zeros)
	dec2, zero := map[string]interface{}{}, map[string]interface{}{}
	for _, m := range metas(typ) {
		if !m.skip {
			dec2[m.goName] = cur.Field(m.idx).Interface()
			zero[m.goName] = reflect.Zero(typ.Field(m.idx).Type).Interface()
		}
	}
	embCore(part+" (second step)", typ, text, nil, dec2, zero, in+"; then Unmarshal of the written text into a fresh struct, every known field set to its zero value, Marshal")
}

func embeddedRenamed() {
	nopt := len(embRFields) - 1 // all but Req (the last one)
	full := 1<<uint(nopt) - 1
	all := func(pick func(i int, f kfield) (interface{}, bool)) map[string]interface{} {
		m := map[string]interface{}{}
		for i, f := range embRFields {
			if x, ok := pick(i, f); ok {
				m[f.goName] = x
			}
		}
		return m
	}
	// (a) every subset of the optional known fields in the document x whole-struct operations
	for mask := 0; mask <= full; mask++ {
		lay, dec := embRLayout(mask)
		embRRun("embedded+renamed: subsets", lay, dec, nil, "leave every field as read", false)
		embRRun("embedded+renamed: subsets", lay, dec, all(func(i int, f kfield) (interface{}, bool) { return f.alts[0], true }), "set every known field to its zero value", false)
		embRRun("embedded+renamed: subsets", lay, dec, all(func(i int, f kfield) (interface{}, bool) { return f.alts[len(f.alts)-1], true }), "set every known field to its last alternative value", true)
		for par := 0; par < 2; par++ {
			embRRun("embedded+renamed: subsets", lay, dec, all(func(i int, f kfield) (interface{}, bool) {
				if i%2 == par {
					return f.alts[0], true
				}
				return f.alts[(mask+i)%len(f.alts)], true
			}), fmt.Sprintf("set the known fields with index%%2==%d to zero and the others to alternative (mask+index)%%len", par), false)
		}
	}
	// (b) the document with every known field: one field, then every pair of fields, set to each of their alternatives
	lay, dec := embRLayout(full)
	for i, f := range embRFields {
		for ai, a := range f.alts {
			embRRun("embedded+renamed: one field", lay, dec, map[string]interface{}{f.goName: a, "Hidden": "h"}, fmt.Sprintf("set %s to alternative %d (%s) and Hidden to \"h\"", f.goName, ai, describe(reflect.ValueOf(a))), true)
			for j, g := range embRFields {
				if j <= i {
					continue
				}
				for bi, b := range g.alts {
					embRRun("embedded+renamed: two fields", lay, dec, map[string]interface{}{f.goName: a, g.goName: b}, fmt.Sprintf("set %s to alternative %d (%s) and %s to alternative %d (%s)", f.goName, ai, describe(reflect.ValueOf(a)), g.goName, bi, describe(reflect.ValueOf(b))), false)
				}
			}
		}
	}
	// (c) each unknown value (also the ones ending in blank lines) in every slot of the full document, nothing changed / one field cleared
	base, _ := embRLayoutKnown(full)
	for _, u := range append(append([]kv{}, embRUnknown...), kv{"X-U5", "first\nsecond\n\n"}, kv{"X-U6", ".\n"}) {
		for s := 0; s <= len(base); s++ {
			l := insert(base, s, u)
			embRRun("embedded+renamed: unknown slots", l, dec, nil, "leave every field as read", false)
			embRRun("embedded+renamed: unknown slots", l, dec, map[string]interface{}{"Home": "", "Desc": "x\n\n"}, "set Home to \"\" and Desc to \"x\\n\\n\"", false)
		}
	}
}

func embRLayoutKnown(mask int) (lay []kv, decoded map[string]interface{}) {
	decoded = map[string]interface{}{}
	for i, f := range embRFields {
		if f.goName == "Req" || mask>>uint(i)&1 == 1 {
			lay = append(lay, kv{f.key, f.text})
			decoded[f.goName] = f.val
		}
	}
	return
}

// ---- main ----

func main() {
	thorough := os.Getenv("TIER") == "thorough"
	for _, p := range probes(thorough) {
		runProbe(p, 1)
	}
	embedded(thorough)
	embeddedRenamed()

	if fails == nil {
		fails = []failure{}
	}
	sort.SliceStable(fails, func(i, j int) bool { return fails[i].Key < fails[j].Key })
	for i := range fails {
		fails[i].What = fmt.Sprintf("%s (%d cases failed this check)", fails[i].What, failCnt[fails[i].Key])
	}
	if len(fails) > 20 {
		fails = fails[:20]
	}
	var names []string
	for _, p := range probes(false) {
		names = append(names, p.name)
	}
	out := map[string]interface{}{
		"bound": "Probe struct types: " + strings.Join(names, "; ") + ". Every probe: full cross product of the per-field value sets. " +
			map[bool]string{true: "THOROUGH tier: each single-kind value set below is extended by 2-6 further values (see probes()). ", false: ""}[thorough] + "Value sets: strings {\"\", \"a\", \"a b\", \"x  y-z_1.0\"} (plain string probe also the canonical multi-line values \"a\\nb\\n\", \"a\\n b\\n\\nc\\n\" and, ending in 1..2 blank lines, \"a\\n\\n\", \"a\\nb\\n\\n\\n\", \"a\\n\\nb\\n\\n\"); int {0,-1,7,MaxInt,MinInt}; uint {0,1,MaxInt+1,MaxUint}; bool; " +
			"[]string {nil,[a],[\"a b\",c],[a,\"b c\",\"d e f\"]} for delimiters ', ' and ',' (+strip), {nil,[a],[a,b],[a,b,c]} for the default space delimiter (no empty elements; no spaces inside elements when the delimiter is a space); " +
			"version.Version {zero, 1.0, 1.0-1, 2:1.0~rc1-1+b2, 0:1:2-3-4} (via version.Parse); dependency.Dependency {zero, 'foo', 'foo (>= 1.0), bar | baz:any', 'a [amd64 i386] <!nocheck>, b [!linux-any], ${misc:Depends}'} (via dependency.Parse); " +
			"dependency.Arch {zero, amd64, any, all, linux-any, kfreebsd-amd64, bsd-openbsd-i386 (via dependency.ParseArch), literal {gnu linux arm64}}; []Arch of 0..3; multiline strings {\"\", \"a\\n\", \"a\", \"a b\\nc\\n\", \"a\\n b\\n\\nc\\n\", \" a\\nb\\n\", and ending in 1..2 blank lines: \"a\\n\\n\", \"a\\nb\\n\\n\\n\", \"a\\n\\nb\\n\\n\"} (the multi-line fields of the combined probes also take one value ending in 1..2 blank lines each); pointers {nil, &value} for string,int,uint,bool,Version,Dependency. " +
			"Equality after the round trip, field by field: reflect.DeepEqual, except nil list == empty list, pointers compared by pointee (nil only equals nil), `multiline` strings equal up to one trailing \"\\n\", control:\"-\" fields must come back zero. " +
			"Embedded paragraph (struct Emb{control.Paragraph; Foo string; Num int `control:\"X-Num\"`; List []string `delim:\", \"`}): documents with each known field absent/present (Foo: f, X-Num: 5, List: a, b c) and 0..2 unknown fields (U1: 'x y'; X-U2: multi-line, one of 'a\\n b\\n\\nc', 'a\\nb\\n' (ends in one blank line, written \" .\"), 'a\\n\\n' (ends in two blank lines)) in every slot before/between/after the known ones, both relative orders; after Unmarshal each known field is left alone or set to a new value including its zero value (Foo {keep,\"g h\",\"\"}, Num {keep,-1,0,MaxInt}, List {keep,[z],[\"p q\",r],nil}); then Marshal. " +
			"Embedded paragraph with renamed fields of every kind (struct EmbR{control.Paragraph; Plain string; Home string `control:\"X-Home\"`; Tags []string `control:\"X-Tags\" delim:\", \"`; Words []string `control:\"X-Words\"`; Ver version.Version `control:\"X-Version\"`; Dep dependency.Dependency `control:\"X-Depends\"`; Arch dependency.Arch `control:\"X-Arch\"`; Arches []dependency.Arch `control:\"X-Arches\"`; Note *string `control:\"X-Note\"`; Desc string `control:\"X-Desc\" multiline:\"true\"`; Count int `control:\"X-Count\"`; UCount uint `control:\"X-UCount\"`; Flag bool `control:\"X-Flag\"`; Req string `control:\"X-Req\" required:\"true\"`; Hidden string `control:\"-\"`}), every known field with one document text and 1..3 alternative values of which the first is the zero value (see embRFields; Desc alternatives \"d1\\n\\nd2\\n\\n\" and \"d1\\n\\n\\n\" end in blank lines), unknown fields U1 'x y', X-U2 'a\\n b\\n\\nc', X-U3 'a\\nb\\n' (ends in one blank line), X-U4 't\\n\\n' (ends in two blank lines): " +
			"(a) all 8192 subsets of the 13 optional known fields present in the document (X-Req always; the 4 unknown fields in slots that move with the subset), each followed by Unmarshal and one of 5 operations - leave as read / every known field to its zero value / every known field to its last alternative, then Marshal, Unmarshal of the written text into a fresh struct, every known field to zero, Marshal again (the two-step sequence) / fields of even (odd) index to zero and the others to an alternative - then Marshal; " +
			"(b) the document with all known fields: every single field (two-step, and control:\"-\" field Hidden set to \"h\") and every pair of fields set to every combination of their alternatives; (c) the document with all known fields and one unknown field (the four above, X-U5 'first\\nsecond\\n\\n', X-U6 '.\\n') in every slot, left as read or with Home cleared and Desc set to \"x\\n\\n\".",
		"rule": "Values are generated as the nested cross product per probe and checked single-threaded (the domain is small). Per value: Marshal must not panic or fail; the written field names must be exactly, in struct order: required fields, and optional fields whose value is not zero (zero = Go zero value or empty list), never control:\"-\" fields; Unmarshal of the text into a fresh value must succeed and reproduce every field; for each required field, the text with that field removed (and an X-Other field added) must make Unmarshal fail. " +
			"For each required field also: control.UnpackFromParagraph of the paragraph without that field, and of the paragraph without any field, must fail. Embedded: marshalling the same value a second time writes the same text (Marshal does not change its argument); unknown fields keep value and relative order, known fields present in the output show the struct's current value, known fields whose current value is zero are omitted, known fields newly set are written. " +
			"Embedded with renamed fields (EmbR): the reader's view of the document must match the lines it was rendered from and Unmarshal must decode every known field to the value its text stands for (absent fields stay zero); after the operation and Marshal: an optional known field holding its zero value (nil/empty list, nil pointer, zero Version/Dependency/Arch, \"\") is absent from the written text (reported as embedded-stale-known-field when the text it was read from is re-emitted) - except int/uint/bool whose zero renders as \"0\"/\"no\"; required or non-zero fields are present; string/int/uint/[]string fields read exactly the current value's text; control:\"-\" is never written or read; Unmarshal of the written text into a fresh struct gives every known field its current value; every unknown field is present with the value the reader gave for the document (up to one trailing \"\\n\", so blank lines at the end of a value count); no field is invented; the fields of the document that are written keep the document's order. " +
			fmt.Sprintf("evaluations by probe: %v. A case is trivial (%d of them, not counted in distinct_nontrivial) when nothing is expected and nothing is written (all fields optional and zero: the text is empty and there is no paragraph to read back). distinct_nontrivial = distinct (probe, value) descriptions by 64-bit FNV.", byPart, trivial),
		"evaluations":         evals,
		"distinct_nontrivial": len(seen),
		"exhaustive":          true,
		"samples":             samples,
		"failure_counts":      failCnt,
		"failures":            fails,
	}
	enc := json.NewEncoder(os.Stdout)
	enc.SetEscapeHTML(false)
	enc.Encode(out)
}

func zeroMayBeWritten(f reflect.Value) bool {
	switch f.Kind() {
	case reflect.Int, reflect.Uint, reflect.Bool:
		return true
	}
	return false
}
