package main

// C11 (package control): clearsigned control data is accepted only with a valid keyring signature.
// Bounded stand-in: small documents are clearsigned with fresh keys (pgp.go), tampered with at every offset and
// read with the real control.NewParagraphReader / All / Signer under every keyring composition.

import (
	"bytes"
	"fmt"
	"reflect"
	"strings"
	"sync/atomic"

	"golang.org/x/crypto/openpgp"
	"golang.org/x/crypto/openpgp/clearsign"
	"pault.ag/go/debian/control"
)

var docs = []string{
	"Package: foo\nVersion: 1.0-1\n",
	"Source: bar\nBinary: bar, baz\n\nPackage: baz\nDescription: short\n long line\n .\n more\n",
	"Format: 1.8\n-Dashed: yes\n\nLast: one", // a dash-escaped line, no final newline
}

const (
	evil   = "Evil: 1\n\n"
	header = "-----BEGIN PGP SIGNED MESSAGE-----"
)

type tcase struct {
	class, id, desc string
	doc             int    // index of the document the input was made from
	signer          string // "A", "B", or "" for input that never was signed
	intact          bool   // the untouched output of the signer (or the untouched unsigned document)
	in              []byte
}

var (
	keys     map[string]*openpgp.Entity
	rings    []keyring
	orig     [][]control.Paragraph // the paragraphs of each document
	pubkeys  string
	asPlain  int64 // inputs no longer starting with the clearsign header that were read as unsigned input
	verified int64 // successful reads with a signer
)

func clearsigned(e *openpgp.Entity, text string) []byte {
	var b bytes.Buffer
	w, err := clearsign.Encode(&b, e.PrivateKey, pgpConfig)
	if err == nil {
		_, err = w.Write([]byte(text))
	}
	if err == nil {
		err = w.Close()
	}
	if err != nil {
		panic(err)
	}
	return b.Bytes()
}

func splice(s []byte, o int, ins string, del int) []byte {
	return append(append(append([]byte{}, s[:o]...), ins...), s[o+del:]...)
}

func cases() (l []tcase) {
	type mutation struct {
		name string
		f    func(byte) byte
	}
	subst := []mutation{{"xor01", func(c byte) byte { return c ^ 1 }}, {"setX", func(byte) byte { return 'X' }}}
	inserts := []string{"X"}
	if thorough { // two more documents; every byte value is substituted and inserted
		docs = append(docs, "A: 1\n\nB: 2\n\n", "Files:\n 0123 4 a_1.dsc\n 4567 8 a_1.tar.gz\nLast: x\n")
		subst, inserts = nil, nil
		for v := 0; v < 256; v++ {
			v := byte(v)
			subst = append(subst, mutation{fmt.Sprintf("set%02x", v), func(byte) byte { return v }})
			inserts = append(inserts, string([]byte{v}))
		}
	}
	for d, text := range docs {
		add := func(class, id, desc, signer string, intact bool, in []byte) {
			l = append(l, tcase{class, fmt.Sprintf("doc%d/%s", d, id), fmt.Sprintf("document %d (%q) %s", d, text, desc), d, signer, intact, in})
		}
		s, byB := clearsigned(keys["A"], text), clearsigned(keys["B"], text)
		add("intact", "signedA", "clearsigned by A", "A", true, s)
		add("intact", "signedB", "clearsigned by B", "B", true, byB)
		add("unsigned", "plain", "not signed", "", true, []byte(text))
		add("unsigned", "plain+evil", "not signed, foreign paragraph in front", "", false, []byte(evil+text))
		other := clearsigned(keys["A"], docs[(d+1)%len(docs)])
		cut := func(b []byte) int { return bytes.Index(b, []byte("-----BEGIN PGP SIGNATURE-----")) }
		add("swap", "sig-of-other-doc", "clearsigned by A, signature block taken from A's signature of another document", "A", false,
			append(append([]byte{}, s[:cut(s)]...), other[cut(other):]...))
		add("swap", "sig-of-B", "text block of A's output with B's signature block (a valid signature by B over the same text)", "B", false, append(append([]byte{}, s[:cut(s)]...), byB[cut(byB):]...))
		for o := 0; o <= len(s); o++ {
			for _, x := range inserts {
				add("insert", fmt.Sprintf("ins%02x@%d", x[0], o), fmt.Sprintf("clearsigned by A, %q inserted at offset %d", x, o), "A", false, splice(s, o, x, 0))
			}
			if o == 0 || o == len(s) || s[o-1] == '\n' { // every line start of the whole document: before the armor, in the armor
				// headers, inside the signed text, between text and signature, inside the signature armor, and right behind it
				add("evil", fmt.Sprintf("evil@%d", o), fmt.Sprintf("clearsigned by A, %q spliced in at offset %d", evil, o), "A", false, splice(s, o, evil, 0))
			}
			if o == len(s) {
				if s[o-1] != '\n' { // the armor ends without a newline: also as a line of its own behind it
					add("evil", "evil@end", fmt.Sprintf("clearsigned by A, %q appended", "\n"+evil), "A", false, splice(s, o, "\n"+evil, 0))
				}
				break
			}
			for _, m := range subst {
				if c := m.f(s[o]); c != s[o] {
					add("subst", fmt.Sprintf("%s@%d", m.name, o), fmt.Sprintf("clearsigned by A, byte %d: %q -> %q", o, s[o], c), "A", false, splice(s, o, string([]byte{c}), 1))
				}
			}
			add("delete", fmt.Sprintf("del@%d", o), fmt.Sprintf("clearsigned by A, byte %d (%q) deleted", o, s[o]), "A", false, splice(s, o, "", 1))
			add("truncate", fmt.Sprintf("cut@%d", o), fmt.Sprintf("clearsigned by A, cut to the first %d bytes", o), "A", false, s[:o])
		}
	}
	return l
}

func hasEvil(ps []control.Paragraph) bool {
	for _, p := range ps {
		for k, v := range p.Values {
			if strings.Contains(k, "Evil") || strings.Contains(v, "Evil") {
				return true
			}
		}
	}
	return false
}

func show(ps []control.Paragraph) string {
	l := []string{}
	for _, p := range ps {
		f := []string{}
		for _, k := range p.Order {
			f = append(f, fmt.Sprintf("%s=%q", k, p.Values[k]))
		}
		l = append(l, "{"+strings.Join(f, " ")+"}")
	}
	return "[" + strings.Join(l, " ") + "]"
}

// read is the use of the API under test: open with the keyring, take all paragraphs, ask for the signer.
func read(in []byte, ring *openpgp.EntityList) (ps []control.Paragraph, signer *openpgp.Entity, err error) {
	r, err := control.NewParagraphReader(bytes.NewReader(in), ring)
	if err != nil {
		if r != nil {
			return nil, nil, fmt.Errorf("reader returned together with the error: %w", err)
		}
		return nil, nil, err
	}
	ps, err = r.All()
	return ps, r.Signer(), err
}

func check(c tcase) {
	if c.signer != "" && first(c.in) {
		atomic.AddInt64(&distinct, 1)
	}
	in := map[string]interface{}{"desc": c.desc, "text": string(c.in), "keys": pubkeys}
	for i := 0; i <= len(rings); i++ {
		atomic.AddInt64(&evaluations, 1)
		name, ring, holds := "nil", (*openpgp.EntityList)(nil), false
		if i < len(rings) {
			name, ring, holds = rings[i].name, &rings[i].list, c.signer != "" && strings.Contains(rings[i].name, c.signer)
		}
		id := c.id + "/" + name
		bad := func(class, what string, args ...interface{}) { fail(class, id, in, fmt.Sprintf(what, args...)) }
		ps, signer, err := read(c.in, ring)
		who := "nobody"
		if signer != nil {
			who = "another key"
			for n, k := range keys {
				if signer.PrimaryKey != nil && signer.PrimaryKey.KeyId == k.PrimaryKey.KeyId {
					who = n
				}
			}
		}
		if sampled(id, 2500) || c.class != "subst" && c.class != "insert" && c.class != "delete" && c.class != "truncate" && sampled(id, 20) {
			res := fmt.Sprintf("error: %v", err)
			if err == nil {
				res = fmt.Sprintf("paragraphs %s, signer %s", show(ps), who)
			}
			keep(c.class, id, map[string]interface{}{"id": id, "case": c.desc, "keyring": name, "input": string(c.in), "result": res})
		}
		if err != nil {
			if c.intact && (ring == nil || holds || c.signer == "") {
				bad("rejects-valid", "untouched input, keyring %s: %v", name, err)
			}
			continue
		}
		// the read succeeded
		if ring == nil { // documented bypass: nothing is verified, nobody is reported, the content is the signed text
			if signer != nil {
				bad("signer-without-keyring", "nil keyring, yet Signer() reports %s", who)
			}
			if c.intact && !reflect.DeepEqual(ps, orig[c.doc]) {
				bad("content", "nil keyring, untouched input: paragraphs %s, expected %s", show(ps), show(orig[c.doc]))
			}
			continue
		}
		if hasEvil(ps) && c.signer != "" {
			bad("foreign-text", "keyring %s: read succeeds (signer %s) and returns the foreign text: %s", name, who, show(ps))
		}
		if signer == nil {
			switch {
			case c.signer == "":
				if c.intact && !reflect.DeepEqual(ps, orig[c.doc]) {
					bad("content", "unsigned document read as %s, expected %s", show(ps), show(orig[c.doc]))
				}
			case bytes.HasPrefix(c.in, []byte(header)):
				bad("unverified", "keyring %s: a clearsigned input is read without error and without signer: %s", name, show(ps))
			default:
				atomic.AddInt64(&asPlain, 1)
			}
			continue
		}
		atomic.AddInt64(&verified, 1)
		switch {
		case c.signer == "":
			bad("signer-for-unsigned", "unsigned input, keyring %s: Signer() reports %s", name, who)
		case !holds:
			bad("unrelated-keyring", "keyring %s does not hold %s's key, yet the read succeeds with signer %s", name, c.signer, who)
		case who != c.signer:
			bad("wrong-signer", "keyring %s: Signer() reports %s, the document was signed by %s", name, who, c.signer)
		case !reflect.DeepEqual(ps, orig[c.doc]):
			bad("accepts-modified", "keyring %s: read succeeds with signer %s but returns %s, the signed text has %s", name, who, show(ps), show(orig[c.doc]))
		}
	}
}

func main() {
	keys = map[string]*openpgp.Entity{"A": newKey("A"), "B": newKey("B")}
	rings = keyrings(keys["A"], keys["B"])
	pubkeys = "A:\n" + armored(keys["A"]) + "\nB:\n" + armored(keys["B"])
	l := cases()
	for _, text := range docs {
		ps, _, err := read([]byte(text), nil)
		if err != nil {
			panic(err)
		}
		orig = append(orig, ps)
	}
	run(int64(len(l)), func(i int64) (string, interface{}) { return l[i].id, l[i].desc }, func(i int64) {
		check(l[i])
		stat("cases "+l[i].class, 1)
	})
	stat("reads that succeeded with a signer", int(verified))
	stat("tampered inputs without the clearsign header line that were read as unsigned input (no signer)", int(asPlain))
	emit(fmt.Sprintf("%d documents %q, each clearsigned (clearsign.Encode, SHA-256) by fresh 1024-bit RSA keys A and B; every input read with the keyrings "+
		"{A}, {B}, {A,B}, {} and nil. Inputs: A's and B's untouched output; the unsigned document (alone and behind a foreign paragraph); A's text block "+
		"with the signature block of another document / of B; and for A's output every single-byte substitution (%s), "+
		"every deletion, every insertion (of %s) and every truncation at every offset, and the foreign paragraph %q spliced in at every line start "+
		"(before the armor, in the armor headers, inside the signed text, before, inside and after the signature armor)",
		len(docs), docs, map[bool]string{false: "XOR 0x01, and 'X'", true: "each of the 255 other byte values"}[thorough],
		map[bool]string{false: "'X'", true: "each of the 256 byte values"}[thorough], evil),
		"every (input, keyring) pair goes through control.NewParagraphReader, All and Signer. With a keyring, a read that succeeds with a signer must: come "+
			"from a signed input, use a keyring that holds the signing key, report that key's entity (key id), and return exactly the paragraphs of the "+
			"signed document (so tampering that leaves the canonical signed text alone may verify); the foreign text must never be returned; a success "+
			"without signer is allowed only when the tampered input no longer starts with the clearsign header line (it is unsigned input then); untouched "+
			"signed input must verify under a keyring holding the key, untouched unsigned input reads with Signer()==nil. nil keyring: Signer()==nil, "+
			"untouched input gives the signed text. evaluations = (input, keyring) pairs; distinct_nontrivial = distinct input byte strings derived from a "+
			"signed document (64-bit hash set)", true)
}
