package main

// OpenPGP keys and keyrings of the bounded stand-ins C11 and C16 (the same file is copied into both directories).

import (
	"bytes"
	"crypto"

	"golang.org/x/crypto/openpgp"
	"golang.org/x/crypto/openpgp/armor"
	"golang.org/x/crypto/openpgp/packet"
)

var pgpConfig = &packet.Config{RSABits: 1024, DefaultHash: crypto.SHA256} // small keys: generated once per run, fast

func newKey(name string) *openpgp.Entity {
	e, err := openpgp.NewEntity(name, "bounded harness", name+"@example.org", pgpConfig)
	if err != nil {
		panic(err)
	}
	return e
}

// public returns the entity as a verifier holds it: serialized and read back, without the private key.
func public(e *openpgp.Entity) *openpgp.Entity {
	var b bytes.Buffer
	if err := e.Serialize(&b); err != nil {
		panic(err)
	}
	l, err := openpgp.ReadKeyRing(&b)
	if err != nil || len(l) != 1 {
		panic(err)
	}
	return l[0]
}

func armored(e *openpgp.Entity) string {
	var b bytes.Buffer
	w, _ := armor.Encode(&b, openpgp.PublicKeyType, nil)
	e.Serialize(w)
	w.Close()
	return b.String()
}

type keyring struct {
	name string
	list openpgp.EntityList
	hasA bool
}

// keyrings returns the compositions {A}, {B}, {A,B}, {} of the public keys.
func keyrings(a, b *openpgp.Entity) []keyring {
	pa, pb := public(a), public(b)
	return []keyring{{"{A}", openpgp.EntityList{pa}, true}, {"{B}", openpgp.EntityList{pb}, false},
		{"{A,B}", openpgp.EntityList{pa, pb}, true}, {"{}", openpgp.EntityList{}, false}}
}
