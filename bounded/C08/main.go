// C08 bounded stand-in: Paragraph.WriteTo / Encoder output reads back with the same fields, order and logical lines;
// no blank line inside a written paragraph; write/read cycles are stable.
package main

import (
	"bufio"
	"bytes"
	"encoding/json"
	"fmt"
	"hash/fnv"
	"io"
	"os"
	"runtime"
	"runtime/debug"
	"sort"
	"strings"
	"sync"

	"pault.ag/go/debian/control"
)

// ---- helpers ----

type failure struct {
	Key   string      `json:"key"`
	Input interface{} `json:"input"`
	What  string      `json:"what"`
}

type worker struct {
	evals  int
	parts  map[string]int
	hashes []uint64
	fails  []failure
	perKey map[string]int
	sr     strings.Reader
	br     *bufio.Reader
	part   string // part of the domain being run, for spreading the reported failures
	kept   map[string]int
}

// of: the text as io.Reader; a reused *bufio.Reader only saves the 4 KiB buffer NewParagraphReader would allocate
func (w *worker) of(s string) io.Reader {
	if w.br == nil {
		w.br = bufio.NewReader(&w.sr)
	}
	w.sr.Reset(s)
	w.br.Reset(&w.sr)
	return w.br
}

func (w *worker) fail(key string, input interface{}, what string) {
	w.perKey[key]++
	if w.kept[key+"/"+w.part]++; w.kept[key+"/"+w.part] <= 2 {
		w.fails = append(w.fails, failure{key, input, "[" + w.part + "] " + what})
	}
}
func (w *worker) count(part string, text string) {
	w.evals++
	w.part = part
	w.parts[part]++
	h := fnv.New64a()
	h.Write([]byte(part))
	h.Write([]byte{0})
	h.Write([]byte(text))
	w.hashes = append(w.hashes, h.Sum64())
}

func guard(f func()) (pan string) {
	defer func() {
		if r := recover(); r != nil {
			pan = fmt.Sprint(r)
		}
	}()
	f()
	return ""
}

func write(p control.Paragraph) (string, error) {
	var b bytes.Buffer
	err := p.WriteTo(&b)
	return b.String(), err
}

func (w *worker) read(s string) ([]control.Paragraph, error) {
	r, err := control.NewParagraphReader(w.of(s), nil)
	if err != nil {
		return nil, err
	}
	return r.All()
}

// logical lines of a value: one trailing "\n" only ends the last line; trailing whitespace of a line is not
// significant (the reader trims every line on the right).
func logical(v string) []string {
	ls := strings.Split(strings.TrimSuffix(v, "\n"), "\n")
	for i := range ls {
		ls[i] = strings.TrimRight(ls[i], " \t\r")
	}
	return ls
}
func sameLines(a, b string) bool {
	la, lb := logical(a), logical(b)
	if len(la) != len(lb) {
		return false
	}
	for i := range la {
		if la[i] != lb[i] {
			return false
		}
	}
	return true
}

// compare what was written (want) with what was read back (got): same number of paragraphs, same Order, same key
// set, and per field the same logical lines (byteExact: the same string up to one trailing "\n"). Returns the failure keys, by root cause:
//
//	first-line-indent-lost  - only the leading whitespace of a value's first line is gone
//	dot-line-read-as-empty  - a non-first line "." came back as an empty line
//	trailing-blank-lines-lost - the value came back without the empty lines it ends in (a value ending in n+1 newlines
//	                          has n empty last lines, written " ."), everything before them is the same
//	<other>                 - any other difference
func classify(want, got []control.Paragraph, byteExact bool, other string) []string {
	keys := map[string]bool{}
	if len(want) != len(got) {
		return []string{other}
	}
	for n := range want {
		a, b := want[n], got[n]
		if len(a.Order) != len(b.Order) || len(a.Values) != len(b.Values) || len(a.Order) != len(a.Values) {
			return []string{other}
		}
		for i, k := range a.Order {
			va, oka := a.Values[k]
			vb, okb := b.Values[k]
			if b.Order[i] != k || !oka || !okb {
				return []string{other}
			}
			if strings.TrimSuffix(va, "\n") == strings.TrimSuffix(vb, "\n") {
				continue
			}
			la, lb := logical(va), logical(vb)
			if len(la) != len(lb) {
				if trailingBlanksLost(la, lb) {
					keys["trailing-blank-lines-lost"] = true
				} else {
					keys[other] = true
				}
				continue
			}
			same := true
			for j := range la {
				switch {
				case la[j] == lb[j]:
				case j == 0 && strings.TrimLeft(la[0], " \t") == lb[0]:
					keys["first-line-indent-lost"], same = true, false
				case j > 0 && la[j] == "." && lb[j] == "":
					// a continuation line consisting of a single dot IS the format's spelling of an empty line
					// (" ." -> ""): a logical line "." has no representation in deb822, so it is outside the
					// domain of representable values; it is accepted as equivalent to the empty line.
				default:
					keys[other], same = true, false
				}
			}
			if same && byteExact {
				keys[other] = true
			}
		}
	}
	var out []string
	for k := range keys {
		out = append(out, k)
	}
	sort.Strings(out)
	return out
}

// got is want without (some of) the empty lines want ends in; a non-first line "." counts as the empty line (see classify)
func trailingBlanksLost(want, got []string) bool {
	if len(got) >= len(want) {
		return false
	}
	norm := func(i int, l string) string {
		if i > 0 && l == "." {
			return ""
		}
		return l
	}
	for i, l := range want {
		if i < len(got) && norm(i, got[i]) != norm(i, l) || i >= len(got) && norm(i, l) != "" {
			return false
		}
	}
	return true
}

func show(ps ...control.Paragraph) string {
	var b strings.Builder
	for _, p := range ps {
		b.WriteString("{")
		for _, k := range p.Order {
			fmt.Fprintf(&b, "%s=%q ", k, p.Values[k])
		}
		b.WriteString("} ")
	}
	return b.String()
}

// a blank (empty or whitespace-only) line inside the written paragraph text
func blankLineInside(text string) bool {
	for _, l := range strings.Split(strings.TrimSuffix(text, "\n"), "\n") {
		if strings.TrimSpace(l) == "" {
			return true
		}
	}
	return false
}
func rtrimLines(text string) string {
	ls := strings.Split(text, "\n")
	for i := range ls {
		ls[i] = strings.TrimRight(ls[i], " \t\r")
	}
	return strings.Join(ls, "\n")
}

// ---- part 1: constructed paragraphs, 3 write/read cycles ----

func (w *worker) cycles(part string, p0 control.Paragraph) {
	in := show(p0)
	w.count(part, in)
	var texts []string
	cur := p0
	for c := 1; c <= 3; c++ {
		var text string
		var got []control.Paragraph
		var werr, rerr error
		if pan := guard(func() { text, werr = write(cur) }); pan != "" || werr != nil {
			w.fail("write-error", in, fmt.Sprintf("cycle %d: WriteTo panic=%q err=%v", c, pan, werr))
			return
		}
		if blankLineInside(text) || !strings.HasSuffix(text, "\n") {
			w.fail("blank-line-in-paragraph", in, fmt.Sprintf("cycle %d: written text %q has an empty/whitespace-only line (or no final newline)", c, text))
		}
		if pan := guard(func() { got, rerr = w.read(text) }); pan != "" || rerr != nil {
			w.fail("readback-error", in, fmt.Sprintf("cycle %d: reading %q: panic=%q err=%v", c, text, pan, rerr))
			return
		}
		other := "readback-differs"
		if c > 1 { // cur came from the reader: identity, byte for byte
			other = "read-write-read-not-identity"
		}
		if keys := classify([]control.Paragraph{cur}, got, c > 1, other); len(keys) > 0 {
			for _, key := range keys {
				w.fail(key, in, fmt.Sprintf("cycle %d: wrote %s as %q, read back %d paragraph(s) %s", c, show(cur), text, len(got), show(got...)))
			}
			return
		}
		texts = append(texts, text)
		cur = got[0]
	}
	if texts[2] != texts[1] || rtrimLines(texts[1]) != rtrimLines(texts[0]) || len(texts[1]) > len(texts[0]) {
		w.fail("cycle-changes-document", in, fmt.Sprintf("texts of the three cycles: %q, %q, %q", texts[0], texts[1], texts[2]))
	}
}

var lineAlphabet = []string{"", "a", " a", ".", "a ", " "}

// all values: line sequences of length 1..maxLen joined by "\n", with and without a trailing "\n"; de-duplicated as
// strings (skipped is kept for the report: nothing is left out any more).
func values(maxLen int, skipped *int) []string {
	seen := map[string]bool{}
	var out []string
	var rec func(cur []string)
	rec = func(cur []string) {
		if len(cur) > 0 {
			for _, nl := range []string{"", "\n"} {
				v := strings.Join(cur, "\n") + nl
				if seen[v] {
					continue
				}
				seen[v] = true
				out = append(out, v)
			}
		}
		if len(cur) == maxLen {
			return
		}
		for _, l := range lineAlphabet {
			rec(append(cur, l))
		}
	}
	rec(nil)
	return out
}

// ---- part 1b: values with lines other than the first that start with '#', possibly after extra indentation ----

var hashLines = []string{"#", "#a", " #a", "  # a", "\t#a", "#!/bin/sh"}
var plainLines = []string{"a", "", " a"}
var hashFirsts = []string{"a", "#a", " #a"}

// first line from hashFirsts, then 1..maxRest further lines over hashLines and plainLines of which at least one is from
// hashLines; with and without a trailing "\n", de-duplicated as strings; no value has an empty first line.
func hashValues(maxRest int) []string {
	var out []string
	seen := map[string]bool{}
	var rec func(cur []string, hashes int)
	rec = func(cur []string, hashes int) {
		if len(cur) > 1 && hashes > 0 {
			for _, nl := range []string{"", "\n"} {
				if v := strings.Join(cur, "\n") + nl; !seen[v] {
					seen[v] = true
					out = append(out, v)
				}
			}
		}
		if len(cur) == maxRest+1 {
			return
		}
		for _, l := range hashLines {
			rec(append(cur[:len(cur):len(cur)], l), hashes+1)
		}
		for _, l := range plainLines {
			rec(append(cur[:len(cur):len(cur)], l), hashes)
		}
	}
	for _, f := range hashFirsts {
		rec([]string{f}, 0)
	}
	return out
}

// ---- part 1c: values with tab-indented lines (first line and later lines) ----

var tabLines = []string{"\ta", "\t\ta", " \ta", "\t a", "\t"}
var tabFirsts = []string{"a", "", "\ta", "\t a", " \ta", "\t"}

// first line from tabFirsts, then 0..maxRest further lines over tabLines and plainLines; at least one line of the value
// (the first or a later one) contains a tab; with and without a trailing "\n", de-duplicated as strings.
func tabValues(maxRest int) []string {
	var out []string
	seen := map[string]bool{}
	var rec func(cur []string, tabs int)
	rec = func(cur []string, tabs int) {
		if tabs > 0 {
			for _, nl := range []string{"", "\n"} {
				if v := strings.Join(cur, "\n") + nl; !seen[v] {
					seen[v] = true
					out = append(out, v)
				}
			}
		}
		if len(cur) == maxRest+1 {
			return
		}
		for _, l := range tabLines {
			rec(append(cur[:len(cur):len(cur)], l), tabs+1)
		}
		for _, l := range plainLines {
			rec(append(cur[:len(cur):len(cur)], l), tabs)
		}
	}
	for _, f := range tabFirsts {
		rec([]string{f}, strings.Count(f, "\t"))
	}
	return out
}

// ---- part 2: encoder, 1..3 structs ----

type S struct {
	A string `required:"true"`
	B string
}

func (w *worker) encoder(ss []S) {
	in := fmt.Sprintf("%q", ss)
	w.count("encoder", in)
	var b bytes.Buffer
	var err error
	if pan := guard(func() {
		var enc *control.Encoder
		if enc, err = control.NewEncoder(&b); err != nil {
			return
		}
		for _, s := range ss {
			if err = enc.Encode(s); err != nil {
				return
			}
		}
	}); pan != "" || err != nil {
		w.fail("encoder-error", in, fmt.Sprintf("panic=%q err=%v", pan, err))
		return
	}
	text := b.String()
	var got []control.Paragraph
	var back []S
	var e1, e2 error
	if pan := guard(func() { got, e1 = w.read(text); e2 = control.Unmarshal(&back, w.of(text)) }); pan != "" || e1 != nil || e2 != nil {
		w.fail("encoder-readback-error", in, fmt.Sprintf("text %q: panic=%q All err=%v Unmarshal err=%v", text, pan, e1, e2))
		return
	}
	var want, viaStruct []control.Paragraph
	var wantStruct []control.Paragraph
	for i, s := range ss {
		p := control.Paragraph{Order: []string{"A"}, Values: map[string]string{"A": s.A}}
		if s.B != "" {
			p.Order = append(p.Order, "B")
			p.Values["B"] = s.B
		}
		want = append(want, p)
		wantStruct = append(wantStruct, control.Paragraph{Order: []string{"A", "B"}, Values: map[string]string{"A": s.A, "B": s.B}})
		if i < len(back) {
			viaStruct = append(viaStruct, control.Paragraph{Order: []string{"A", "B"}, Values: map[string]string{"A": back[i].A, "B": back[i].B}})
		}
	}
	if len(got) != len(ss) || len(back) != len(ss) {
		w.fail("encoder-paragraph-count", in, fmt.Sprintf("encoded %d structs as %q; read back %d paragraphs %s, Unmarshal gave %d structs", len(ss), text, len(got), show(got...), len(back)))
		return
	}
	keys := append(classify(want, got, false, "encoder-readback-differs"), classify(wantStruct, viaStruct, false, "encoder-readback-differs")...)
	sort.Strings(keys)
	for i, key := range keys {
		if i == 0 || key != keys[i-1] {
			w.fail(key, in, fmt.Sprintf("encoded %d structs as %q; read back %s, Unmarshal gave %q", len(ss), text, show(got...), back))
		}
	}
}

// ---- part 2b: one Encoder, 2..3 Encode calls mixing struct, *struct, []struct and *[]struct arguments ----

type T struct {
	C string `required:"true"`
	D string
}

type callKind struct {
	name       string
	slice, ptr bool
	n          int // number of structs in the argument
}

var callKinds = []callKind{
	{"struct", false, false, 1}, {"*struct", false, true, 1},
	{"[]0", true, false, 0}, {"[]1", true, false, 1}, {"[]2", true, false, 2},
	{"*[]0", true, true, 0}, {"*[]1", true, true, 1}, {"*[]2", true, true, 2},
}

func kindNames() []string {
	var out []string
	for _, k := range callKinds {
		out = append(out, k.name)
	}
	return out
}

// the struct values handed to the calls, in turn (B/D optional: omitted when empty)
var mixedPool = []S{
	{"a", ""}, {"a\n a", "b"}, {"", "c\n\nd\n"}, {"x\n#y\n  # z", ""}, {"a \n b\n", " i\nj"}, {"e", "f"},
}

// encoderMixed runs the calls kinds[i] on one Encoder. Call i takes struct type S when types[i] == 'S', else T (other field
// names: a lost separator between an S and a T paragraph gives one merged paragraph, between two of the same type a
// duplicate field). The struct values are mixedPool[off], mixedPool[off+1], ... in the order written.
func (w *worker) encoderMixed(kinds []int, types string, off int) {
	var names []string
	var args []interface{}
	var want []control.Paragraph
	allS := true
	var wantS []S
	next := off
	for i, k := range kinds {
		ck := callKinds[k]
		names = append(names, ck.name+" of "+types[i:i+1])
		var ss []S
		var ts []T
		for j := 0; j < ck.n; j++ {
			v := mixedPool[next%len(mixedPool)]
			next++
			p := control.Paragraph{Values: map[string]string{}}
			f1, f2 := "A", "B"
			if types[i] == 'T' {
				f1, f2 = "C", "D"
				ts = append(ts, T{v.A, v.B})
				allS = false
			} else {
				ss = append(ss, v)
				wantS = append(wantS, v)
			}
			p.Order = append(p.Order, f1)
			p.Values[f1] = v.A
			if v.B != "" {
				p.Order = append(p.Order, f2)
				p.Values[f2] = v.B
			}
			want = append(want, p)
		}
		var arg interface{}
		switch {
		case types[i] == 'S' && ck.slice && ck.ptr:
			if ss == nil {
				ss = []S{}
			}
			arg = &ss
		case types[i] == 'S' && ck.slice:
			arg = ss // []0: a nil slice of S
		case types[i] == 'S' && ck.ptr:
			arg = &ss[0]
		case types[i] == 'S':
			arg = ss[0]
		case ck.slice && ck.ptr:
			if ts == nil {
				ts = []T{}
			}
			arg = &ts
		case ck.slice:
			arg = ts
		case ck.ptr:
			arg = &ts[0]
		default:
			arg = ts[0]
		}
		args = append(args, arg)
	}
	in := fmt.Sprintf("one Encoder, Encode calls %q, struct values in order %s", names, show(want...))
	if len(want) == 0 {
		w.parts["encoder-mixed-trivial"]++ // only empty slices: nothing written, nothing to read back
	} else {
		w.count("encoder-mixed", in)
	}
	w.part = "encoder-mixed"
	var b bytes.Buffer
	var err error
	call := -1
	if pan := guard(func() {
		var enc *control.Encoder
		if enc, err = control.NewEncoder(&b); err != nil {
			return
		}
		for i, a := range args {
			call = i
			if err = enc.Encode(a); err != nil {
				return
			}
		}
	}); pan != "" || err != nil {
		w.fail("encoder-error", in, fmt.Sprintf("call %d: panic=%q err=%v", call, pan, err))
		return
	}
	text := b.String()
	if len(want) == 0 {
		if text != "" {
			w.fail("encoder-paragraph-count", in, fmt.Sprintf("no struct encoded, but %q was written", text))
		}
		return
	}
	// every paragraph text is followed by a newline and the separator is a single empty line: no paragraph of these
	// values contains an empty or whitespace-only line, so the empty lines of the text are exactly the separators
	blank := 0
	for _, l := range strings.Split(strings.TrimSuffix(text, "\n"), "\n") {
		if strings.TrimSpace(l) == "" {
			blank++
		}
	}
	var got []control.Paragraph
	var e1 error
	if pan := guard(func() { got, e1 = w.read(text) }); pan != "" || e1 != nil {
		w.fail("encoder-readback-error", in, fmt.Sprintf("text %q (%d paragraphs written, %d blank lines in the text): panic=%q All err=%v", text, len(want), blank, pan, e1))
		return
	}
	if len(got) != len(want) {
		w.fail("encoder-paragraph-count", in, fmt.Sprintf("encoded %d structs as %q; read back %d paragraphs %s", len(want), text, len(got), show(got...)))
		return
	}
	for _, key := range classify(want, got, false, "encoder-readback-differs") {
		w.fail(key, in, fmt.Sprintf("encoded %d structs as %q; read back %s", len(want), text, show(got...)))
	}
	if allS {
		var back []S
		var e2 error
		if pan := guard(func() { e2 = control.Unmarshal(&back, w.of(text)) }); pan != "" || e2 != nil || len(back) != len(wantS) {
			w.fail("encoder-paragraph-count", in, fmt.Sprintf("encoded %d structs as %q; Unmarshal(&[]S): panic=%q err=%v, %d structs %q", len(wantS), text, pan, e2, len(back), back))
			return
		}
		var wantStruct, viaStruct []control.Paragraph
		for i := range back {
			wantStruct = append(wantStruct, control.Paragraph{Order: []string{"A", "B"}, Values: map[string]string{"A": wantS[i].A, "B": wantS[i].B}})
			viaStruct = append(viaStruct, control.Paragraph{Order: []string{"A", "B"}, Values: map[string]string{"A": back[i].A, "B": back[i].B}})
		}
		for _, key := range classify(wantStruct, viaStruct, false, "encoder-readback-differs") {
			w.fail(key, in, fmt.Sprintf("encoded as %q; Unmarshal(&[]S) gave %q", text, back))
		}
	}
}

// ---- part 2c: one Encoder, 2..3 structs of which at least one converts to a paragraph without fields ----

type O struct {
	A string
	B string
}

type P struct {
	C string
	D string
}

// an element of a sequence: typ 'O' or 'P' with the field values v (both empty: a field-less paragraph), or typ 'R':
// struct{control.Paragraph} around the zero Paragraph (field-less as well)
type emptyElem struct {
	typ byte
	v   S
}

func (e emptyElem) empty() bool { return e.v == S{} }
func (e emptyElem) String() string {
	if e.typ == 'R' {
		return "struct{control.Paragraph}{}"
	}
	return fmt.Sprintf("%c%q", e.typ, []string{e.v.A, e.v.B})
}

// the non-empty field values (first member, second member) of the O and P elements
var emptyPool = []S{{"a", ""}, {"", "b"}, {"a\n a", "b"}, {"x\n\ny\n", ""}, {"\tt\n\tu", "v"}, {"e", "f\n#g"}}

func emptyElems() []emptyElem {
	out := []emptyElem{{'O', S{}}, {'P', S{}}, {'R', S{}}}
	for _, t := range []byte{'O', 'P'} {
		for _, v := range emptyPool {
			out = append(out, emptyElem{t, v})
		}
	}
	return out
}

// the modes a sequence is handed to one Encoder in: one Encode call per struct (by value, by pointer), and for sequences
// of one struct type also one call with the slice (control.Marshal) and, for 3 elements, slice of 2 + struct / struct + slice of 2
func emptyModes(es []emptyElem) []string {
	modes := []string{"value", "pointer"}
	for _, e := range es {
		if e.typ != es[0].typ || e.typ == 'R' {
			return modes
		}
	}
	modes = append(modes, "Marshal(slice)")
	if len(es) == 3 {
		modes = append(modes, "slice[0:2]+value", "value+slice[1:3]")
	}
	return modes
}

func (w *worker) encoderEmpty(es []emptyElem, mode string) {
	var want []control.Paragraph
	var wantO []O
	var names []string
	onlyO := true
	structs := make([]interface{}, len(es)) // by value
	ptrs := make([]interface{}, len(es))
	for i, e := range es {
		names = append(names, e.String())
		switch e.typ {
		case 'O':
			o := O{e.v.A, e.v.B}
			structs[i], ptrs[i] = o, &o
		case 'P':
			o := P{e.v.A, e.v.B}
			structs[i], ptrs[i] = o, &o
		default:
			o := rawPara{}
			structs[i], ptrs[i] = o, &o
		}
		if e.empty() {
			continue
		}
		f1, f2 := "A", "B"
		if e.typ == 'P' {
			f1, f2 = "C", "D"
			onlyO = false
		} else {
			wantO = append(wantO, O{e.v.A, e.v.B})
		}
		p := control.Paragraph{Values: map[string]string{}}
		if e.v.A != "" {
			p.Order = append(p.Order, f1)
			p.Values[f1] = e.v.A
		}
		if e.v.B != "" {
			p.Order = append(p.Order, f2)
			p.Values[f2] = e.v.B
		}
		want = append(want, p)
	}
	slice := func(lo, hi int) interface{} {
		if es[0].typ == 'O' {
			var o []O
			for _, x := range structs[lo:hi] {
				o = append(o, x.(O))
			}
			return o
		}
		var o []P
		for _, x := range structs[lo:hi] {
			o = append(o, x.(P))
		}
		return o
	}
	var calls []interface{}
	switch mode {
	case "value":
		calls = structs
	case "pointer":
		calls = ptrs
	case "Marshal(slice)":
		calls = []interface{}{slice(0, len(es))}
	case "slice[0:2]+value":
		calls = []interface{}{slice(0, 2), structs[2]}
	default:
		calls = []interface{}{structs[0], slice(1, 3)}
	}
	in := fmt.Sprintf("one Encoder, %s, structs in order %v (%d with at least one field: %s)", mode, names, len(want), show(want...))
	if len(want) == 0 {
		w.parts["encoder-empty-trivial"]++ // only field-less paragraphs: nothing to read back
	} else {
		w.count("encoder-empty", in)
	}
	w.part = "encoder-empty"
	var b bytes.Buffer
	var err error
	call := -1
	if pan := guard(func() {
		if mode == "Marshal(slice)" {
			err = control.Marshal(&b, calls[0])
			return
		}
		var enc *control.Encoder
		if enc, err = control.NewEncoder(&b); err != nil {
			return
		}
		for i, a := range calls {
			call = i
			if err = enc.Encode(a); err != nil {
				return
			}
		}
	}); pan != "" || err != nil {
		w.fail("encoder-error", in, fmt.Sprintf("call %d: panic=%q err=%v", call, pan, err))
		return
	}
	text := b.String()
	var got []control.Paragraph
	var e1 error
	if pan := guard(func() { got, e1 = w.read(text) }); pan != "" || e1 != nil {
		w.fail("encoder-readback-error", in, fmt.Sprintf("text %q (%d structs encoded, %d of them with fields): panic=%q All err=%v", text, len(es), len(want), pan, e1))
		return
	}
	if len(got) != len(want) {
		w.fail("encoder-paragraph-count", in, fmt.Sprintf("encoded %d structs, %d of them with at least one field, as %q; read back %d paragraphs %s", len(es), len(want), text, len(got), show(got...)))
		return
	}
	for _, key := range classify(want, got, false, "encoder-readback-differs") {
		w.fail(key, in, fmt.Sprintf("encoded %d structs as %q; read back %s", len(es), text, show(got...)))
	}
	if onlyO && len(want) > 0 {
		var back []O
		var e2 error
		if pan := guard(func() { e2 = control.Unmarshal(&back, w.of(text)) }); pan != "" || e2 != nil || len(back) != len(wantO) {
			w.fail("encoder-paragraph-count", in, fmt.Sprintf("encoded %d structs with fields as %q; Unmarshal(&[]O): panic=%q err=%v, %d structs %q", len(wantO), text, pan, e2, len(back), back))
			return
		}
		var wantStruct, viaStruct []control.Paragraph
		for i := range back {
			wantStruct = append(wantStruct, control.Paragraph{Order: []string{"A", "B"}, Values: map[string]string{"A": wantO[i].A, "B": wantO[i].B}})
			viaStruct = append(viaStruct, control.Paragraph{Order: []string{"A", "B"}, Values: map[string]string{"A": back[i].A, "B": back[i].B}})
		}
		for _, key := range classify(wantStruct, viaStruct, false, "encoder-readback-differs") {
			w.fail(key, in, fmt.Sprintf("encoded as %q; Unmarshal(&[]O) gave %q", text, back))
		}
	}
}

// ---- part 3: documents of C07's model accepted by the reader: read-write-read identity ----

type rawPara struct{ control.Paragraph }

func (w *worker) document(text string) {
	var ps []control.Paragraph
	var err error
	w.part = "model-document"
	if pan := guard(func() { ps, err = w.read(text) }); pan != "" {
		w.fail("model-read-panic", text, pan)
		return
	}
	if err != nil || len(ps) == 0 {
		return // not accepted by the reader: outside this property
	}
	w.count("model-document", text)
	// write: every paragraph with WriteTo (blank-line check), the whole sequence through the encoder
	var b bytes.Buffer
	if pan := guard(func() {
		enc, _ := control.NewEncoder(&b)
		for _, p := range ps {
			if t, e := write(p); e != nil || blankLineInside(t) {
				w.fail("blank-line-in-paragraph", text, fmt.Sprintf("paragraph %s written as %q (err=%v)", show(p), t, e))
			}
			if err = enc.Encode(rawPara{p}); err != nil {
				return
			}
		}
	}); pan != "" || err != nil {
		w.fail("write-error", text, fmt.Sprintf("panic=%q err=%v", pan, err))
		return
	}
	t1 := b.String()
	back, err := w.read(t1)
	if err != nil {
		w.fail("readback-error", text, fmt.Sprintf("read %s, wrote %q, reading that: %v", show(ps...), t1, err))
		return
	}
	if keys := classify(ps, back, true, "read-write-read-not-identity"); len(keys) > 0 {
		for _, key := range keys {
			w.fail(key, text, fmt.Sprintf("reader gave %s, written as %q, read back %s", show(ps...), t1, show(back...)))
		}
		return
	}
	// second cycle: the text must not change any more
	b.Reset()
	enc, _ := control.NewEncoder(&b)
	for _, p := range back {
		enc.Encode(rawPara{p})
	}
	if b.String() != t1 {
		w.fail("cycle-changes-document", text, fmt.Sprintf("second write %q differs from first write %q", b.String(), t1))
	}
}

func modelDocs(emit func(string)) {
	firsts := []string{"", "x", "x y "}
	conts := []string{"  x", "\tz", " .", " x "}
	type fld []string // rendered lines without name
	var bodies []fld
	for _, f := range firsts {
		bodies = append(bodies, fld{f})
		for _, c := range conts {
			bodies = append(bodies, fld{f, c})
			for _, c2 := range conts {
				bodies = append(bodies, fld{f, c, c2})
			}
		}
	}
	lines := func(name string, b fld) []string {
		l := name + ":"
		if b[0] != "" {
			l += " " + b[0]
		}
		return append([]string{l}, b[1:]...)
	}
	var paras [][]string // 1..2 fields, names A,B (ordered)
	var single [][]string
	for _, n := range []string{"A", "B"} {
		for _, b := range bodies {
			paras = append(paras, lines(n, b))
			single = append(single, lines(n, b))
			for _, m := range []string{"A", "B"} {
				if m != n {
					for _, b2 := range bodies {
						paras = append(paras, append(lines(n, b), lines(m, b2)...))
					}
				}
			}
		}
	}
	render := func(ls []string, crlf, final bool) string {
		eol := "\n"
		if crlf {
			eol = "\r\n"
		}
		s := strings.Join(ls, eol)
		if final {
			s += eol
		}
		return s
	}
	variants := func(ls []string, comments bool) {
		for _, crlf := range []bool{false, true} {
			for _, final := range []bool{true, false} {
				emit(render(ls, crlf, final))
				if comments {
					for k := 0; k <= len(ls); k++ {
						emit(render(append(ls[:k:k], append([]string{"# c"}, ls[k:]...)...), crlf, final))
					}
				}
			}
		}
	}
	for _, p := range paras { // M1: one paragraph, comment none / every position, 0..1 leading blank
		variants(p, true)
		variants(append([]string{""}, p...), false)
	}
	for _, p := range single { // M2: two one-field paragraphs, blank run 1..2
		for _, q := range single {
			for _, sep := range [][]string{{""}, {"", ""}} {
				variants(append(append(append([]string{}, p...), sep...), q...), false)
			}
		}
	}
}

// ---- main ----

func main() {
	thorough := os.Getenv("TIER") == "thorough"
	debug.SetGCPercent(400)
	type job func(w *worker)
	var jobs []job

	skipped := 0
	vals := values(4, &skipped)
	pairVals := vals
	if !thorough {
		pairVals = values(3, new(int))
	}
	jobs = append(jobs, func(w *worker) {
		for _, v := range vals {
			w.cycles("1-field", control.Paragraph{Order: []string{"A"}, Values: map[string]string{"A": v}})
		}
	})
	for _, v := range pairVals {
		v := v
		jobs = append(jobs, func(w *worker) {
			for _, v2 := range pairVals {
				w.cycles("2-field", control.Paragraph{Order: []string{"B", "A"}, Values: map[string]string{"B": v, "A": v2}})
			}
		})
	}

	// encoder: structs S{A required, B optional}; values = line sequences of length 1..2 (plus "" for B)
	encVals := values(2, new(int))
	var structs []S
	for i, a := range encVals {
		for j, b := range append([]string{""}, encVals...) {
			if j > 0 && b == "" {
				continue // "" is already the first B
			}
			if thorough || (i+j)%7 == 0 || b == "" { // quick: a fixed 1/7 lattice of the (A,B) grid plus all B==""
				structs = append(structs, S{a, b})
			}
		}
	}
	triples := structs
	if len(triples) > 60 {
		var t []S
		for i := 0; i < len(structs); i += len(structs) / 60 {
			t = append(t, structs[i])
		}
		triples = t
	}
	jobs = append(jobs, func(w *worker) {
		for _, s := range structs {
			w.encoder([]S{s})
		}
	})
	for _, s := range structs {
		s := s
		jobs = append(jobs, func(w *worker) {
			for _, s2 := range structs {
				w.encoder([]S{s, s2})
			}
		})
	}
	for _, s := range triples {
		s := s
		jobs = append(jobs, func(w *worker) {
			for _, s2 := range triples {
				for _, s3 := range triples {
					w.encoder([]S{s, s2, s3})
				}
			}
		})
	}

	// part 1b: '#' lines
	hashVals := hashValues(3)
	hashPairVals := hashValues(2)
	others := []string{"b", "b\n c\n", "#b", "b\n#c", "b\n #c\n", " b\n\n", "b\n\n#\n", ""}
	jobs = append(jobs, func(w *worker) {
		for _, v := range hashVals {
			w.cycles("1-field-hash", control.Paragraph{Order: []string{"A"}, Values: map[string]string{"A": v}})
		}
	}, func(w *worker) {
		for _, v := range hashVals {
			w.cycles("3-field-hash", control.Paragraph{Order: []string{"Package", "Description", "Section"}, Values: map[string]string{"Package": "foo", "Description": v, "Section": "misc"}})
		}
	}, func(w *worker) {
		for _, v := range hashPairVals {
			for _, o := range others {
				w.cycles("2-field-hash", control.Paragraph{Order: []string{"B", "A"}, Values: map[string]string{"B": v, "A": o}})
				w.cycles("2-field-hash", control.Paragraph{Order: []string{"B", "A"}, Values: map[string]string{"B": o, "A": v}})
			}
		}
	})

	// part 1c: tab-indented lines
	tabVals := tabValues(3)
	tabPairVals := tabValues(1)
	tabOthers := []string{"b", "b\n c\n", "\tb", "b\n\tc", "\tb\n\tc\n", " b\n\n", "b\n\t\n", ""}
	jobs = append(jobs, func(w *worker) {
		for _, v := range tabVals {
			w.cycles("1-field-tab", control.Paragraph{Order: []string{"A"}, Values: map[string]string{"A": v}})
		}
	}, func(w *worker) {
		for _, v := range tabVals {
			w.cycles("3-field-tab", control.Paragraph{Order: []string{"Source", "Rules", "Section"}, Values: map[string]string{"Source": "foo", "Rules": v, "Section": "misc"}})
		}
	}, func(w *worker) {
		for _, v := range tabPairVals {
			for _, o := range tabOthers {
				w.cycles("2-field-tab", control.Paragraph{Order: []string{"B", "A"}, Values: map[string]string{"B": v, "A": o}})
				w.cycles("2-field-tab", control.Paragraph{Order: []string{"B", "A"}, Values: map[string]string{"B": o, "A": v}})
			}
			for _, v2 := range tabPairVals {
				w.cycles("2-field-tab", control.Paragraph{Order: []string{"B", "A"}, Values: map[string]string{"B": v, "A": v2}})
			}
		}
	})

	// part 2c: every sequence of 2..3 elements with at least one field-less one, in every mode
	elems := emptyElems()
	emptySeqs := 0
	for _, e0 := range elems {
		e0 := e0
		var seqs [][]emptyElem
		for _, e1 := range elems {
			if e0.empty() || e1.empty() {
				seqs = append(seqs, []emptyElem{e0, e1})
			}
			for _, e2 := range elems {
				if e0.empty() || e1.empty() || e2.empty() {
					seqs = append(seqs, []emptyElem{e0, e1, e2})
				}
			}
		}
		emptySeqs += len(seqs)
		jobs = append(jobs, func(w *worker) {
			for _, es := range seqs {
				for _, mode := range emptyModes(es) {
					w.encoderEmpty(es, mode)
				}
			}
		})
	}

	// part 2b: every sequence of 2..3 call kinds x struct types per call x pool offset
	nk := len(callKinds)
	for k0 := 0; k0 < nk; k0++ {
		k0 := k0
		jobs = append(jobs, func(w *worker) {
			for k1 := 0; k1 < nk; k1++ {
				for _, types := range []string{"SS", "ST", "TS", "TT"} {
					for off := range mixedPool {
						w.encoderMixed([]int{k0, k1}, types, off)
					}
				}
				for k2 := 0; k2 < nk; k2++ {
					for _, types := range []string{"SSS", "SST", "STS", "STT", "TSS", "TST", "TTS", "TTT"} {
						for off := range mixedPool {
							w.encoderMixed([]int{k0, k1, k2}, types, off)
						}
					}
				}
			}
		})
	}

	var docs []string
	modelDocs(func(s string) { docs = append(docs, s) })
	for lo := 0; lo < len(docs); lo += 2000 {
		lo := lo
		jobs = append(jobs, func(w *worker) {
			for i := lo; i < lo+2000 && i < len(docs); i++ {
				w.document(docs[i])
			}
		})
	}

	nw := runtime.NumCPU()
	if nw > 16 {
		nw = 16
	}
	ws := make([]*worker, nw)
	ch := make(chan job, 64)
	var wg sync.WaitGroup
	for i := range ws {
		ws[i] = &worker{parts: map[string]int{}, perKey: map[string]int{}, kept: map[string]int{}}
		wg.Add(1)
		go func(w *worker) {
			defer wg.Done()
			for j := range ch {
				j(w)
			}
		}(ws[i])
	}
	for _, j := range jobs {
		ch <- j
	}
	close(ch)
	wg.Wait()

	evals := 0
	parts := map[string]int{}
	counts := map[string]int{}
	var hashes []uint64
	var fails []failure
	for _, w := range ws {
		evals += w.evals
		hashes = append(hashes, w.hashes...)
		fails = append(fails, w.fails...)
		for k, n := range w.parts {
			parts[k] += n
		}
		for k, n := range w.perKey {
			counts[k] += n
		}
	}
	sort.Slice(hashes, func(i, j int) bool { return hashes[i] < hashes[j] })
	distinct := 0
	for i, h := range hashes {
		if i == 0 || h != hashes[i-1] {
			distinct++
		}
	}
	sort.SliceStable(fails, func(i, j int) bool {
		if fails[i].Key != fails[j].Key {
			return fails[i].Key < fails[j].Key
		}
		return len(fmt.Sprint(fails[i].Input)) < len(fmt.Sprint(fails[j].Input))
	})
	kept := []failure{}
	per := map[string]int{}
	for _, f := range fails {
		kp := f.Key + f.What[:strings.Index(f.What, "]")] // at most 2 per (key, part)
		if per[kp] < 2 && len(kept) < 20 {
			per[kp]++
			f.What = fmt.Sprintf("%s (%d inputs failed this check)", f.What, counts[f.Key])
			kept = append(kept, f)
		}
	}

	var samples []interface{}
	for _, v := range []string{"a", "a\n a\n\na ", "\n", "a \n.\n a", ".\n\n\na\n", "a\n#!/bin/sh\n  # a\n", " #a\n\t#a"} {
		p := control.Paragraph{Order: []string{"A"}, Values: map[string]string{"A": v}}
		t, _ := write(p)
		back, err := (&worker{}).read(t)
		samples = append(samples, map[string]interface{}{"paragraph": show(p), "written": t, "read_back": show(back...), "err": fmt.Sprint(err)})
	}
	samples = append(samples, map[string]interface{}{"encoder_structs": fmt.Sprintf("%q", []S{{"", ""}, {"a\n a", "a"}}), "note": "A is required:\"true\" and always written, B is omitted when empty"})
	{
		var b bytes.Buffer
		enc, _ := control.NewEncoder(&b)
		enc.Encode([]S{mixedPool[0], mixedPool[1]})
		enc.Encode(T{"x\n#y", ""})
		enc.Encode(&[]S{mixedPool[5]})
		samples = append(samples, map[string]interface{}{"encoder_mixed_calls": "Encode([]S{{a,\"\"},{\"a\\n a\",b}}); Encode(T{\"x\\n#y\",\"\"}); Encode(&[]S{{e,f}})", "written": b.String()})
	}
	for _, v := range []string{"\tleading tab", "\tmake install\n\tmake clean\n", "a\n\t\tb\n\t\n \tc"} {
		p := control.Paragraph{Order: []string{"Source", "Rules"}, Values: map[string]string{"Source": "foo", "Rules": v}}
		t, _ := write(p)
		back, err := (&worker{}).read(t)
		samples = append(samples, map[string]interface{}{"paragraph": show(p), "written": t, "read_back": show(back...), "err": fmt.Sprint(err)})
	}
	{
		var b bytes.Buffer
		enc, _ := control.NewEncoder(&b)
		enc.Encode(O{"a", ""})
		enc.Encode(O{})
		enc.Encode(&P{"", "d"})
		back, err := (&worker{}).read(b.String())
		samples = append(samples, map[string]interface{}{"encoder_with_field_less_struct": "Encode(O{a,\"\"}); Encode(O{}); Encode(&P{\"\",d})", "written": b.String(), "read_back": show(back...), "err": fmt.Sprint(err)})
	}
	samples = append(samples, map[string]interface{}{"model_document": docs[7]}, map[string]interface{}{"model_document": docs[len(docs)-3]})

	out := map[string]interface{}{
		"bound": fmt.Sprintf("(1) Paragraphs with 1 field (A) over all %d values and with 2 fields (B then A) over all pairs of %d values. Values = line sequences of length 1..4 (pairs: 1..%d) over {\"\", \"a\", \" a\", \".\", \"a \", \" \"} joined by \"\\n\", with and without a trailing \"\\n\", de-duplicated as strings; values whose first line is empty (or only blanks) and that have further lines are included since the WriteTo repair of this session (%d were left out before, wrongly). Each paragraph goes through 3 cycles of WriteTo + NewParagraphReader.All. ", len(vals), len(pairVals), map[bool]int{true: 4, false: 3}[thorough], skipped) +
			"Equality after the first read: same Order, same key set, per field the same logical lines, where logical lines = value minus one trailing \"\\n\", split at \"\\n\", each line right-trimmed of space/tab/CR (the reader trims lines on the right). From the second cycle on (input produced by the reader): same Order, values byte-identical up to one trailing \"\\n\". Texts: text3 == text2 byte for byte, text2 == text1 after right-trimming every line, len(text2) <= len(text1). Every written paragraph text must end in \"\\n\" and contain no empty or whitespace-only line. The value sets include every value ending in 1..3 empty lines (e.g. \"a\\n\\n\", \"a\\n\\n\\n\", \"a\\n a\\n\\n\"; pairs and encoder: 1..2 resp. 1); a read-back that only lacks such empty last lines is reported as trailing-blank-lines-lost. " +
			fmt.Sprintf("(1b) ADDED lines starting with '#': values = first line from %q followed by 1..3 (pairs: 1..2) further lines over %q and %q of which at least one is from the first set (a '#' directly at the start of the line or after 1..2 blanks / a tab of extra indentation), with and without a trailing \"\\n\", de-duplicated as strings: %d values as the only field A, the same %d values as the middle field of {Package: foo, Description: v, Section: misc}, and %d values paired in both orders (B then A) with each of %q; same 3 cycles and the same equalities as (1): every such line has to come back as a line of the value. ", hashFirsts, hashLines, plainLines, len(hashVals), len(hashVals), len(hashPairVals), others) +
			fmt.Sprintf("(1c) ADDED tab-indented lines: values = first line from %q followed by 0..3 (pairs: 0..1) further lines over %q and %q, at least one line of the value (the FIRST or a later one) containing a tab (tab directly at the start, two tabs, blank+tab, tab+blank, a line that is only a tab), with and without a trailing \"\\n\", de-duplicated as strings: %d values as the only field A, the same %d values as the middle field of {Source: foo, Rules: v, Section: misc}, and %d values paired (B then A) with each other and in both orders with each of %q; same 3 cycles and the same equalities as (1): a leading tab of the first line and of every later line has to come back (first-line-indent-lost otherwise). ", tabFirsts, tabLines, plainLines, len(tabVals), len(tabVals), len(tabPairVals), tabOthers) +
			fmt.Sprintf("(2) Encoder: sequences of 1, 2 (all ordered pairs) of %d structs S{A string `required:\"true\"`; B string} and 3 (all ordered triples of an evenly spaced subset of %d of them); A over the %d values of 1..2 lines, B over those plus \"\"%s; written with NewEncoder(w).Encode one after another, read back with All and with Unmarshal(&[]S): same number of paragraphs, A always present, B present iff non-empty, same logical lines. ", len(structs), len(triples), len(encVals), map[bool]string{true: "", false: " (quick: every (A,B) grid point with (i+j)%7==0 plus all B==\"\")"}[thorough]) +
			fmt.Sprintf("(2b) ADDED mixed Encode calls on one Encoder: every sequence of 2 and of 3 calls over the %d argument kinds %v (struct value, pointer to struct, slice and pointer to slice with 0, 1, 2 elements; []0 is a nil slice, *[]0 points to an empty one), every assignment of the struct types S{A required; B} / T{C required; D} to the calls (2^len), and %d rotations of the value pool %q handed out in writing order (values include multi-line, empty-line, indented-first-line and '#'-line values): no Encode error; the text reads back (All) as exactly as many paragraphs as structs were encoded, in order, with the field names of the respective type and the same logical lines; when all calls use S also Unmarshal(&[]S) gives that many structs with the same lines; sequences of empty slices only must write nothing (counted as encoder-mixed-trivial, not as evaluations). ", len(callKinds), kindNames(), len(mixedPool), mixedPool) +
			fmt.Sprintf("(2c) ADDED structs that convert to a paragraph WITHOUT fields: every sequence of 2 and of 3 elements with at least one field-less element at any position (%d sequences) over the %d elements {O{}, P{}, struct{control.Paragraph}{} (all field-less)} + {O, P} x member values %q, for O{A; B} / P{C; D} without required members (a member is written iff non-empty); each sequence on one Encoder as one Encode call per struct by value and by pointer, and for sequences of one struct type also as control.Marshal of the slice and (3 elements) as slice of the first two + struct and struct + slice of the last two: no Encode error; the text reads back (All) without error as exactly as many paragraphs as encoded structs have at least one field, in order, with those fields and the same logical lines (a lost separator around a field-less paragraph gives a duplicate-field error or merged paragraphs); when all structs with fields are O also Unmarshal(&[]O) gives that many structs with the same lines; sequences of field-less structs only must read back as 0 paragraphs (counted as encoder-empty-trivial, not as evaluations). ", emptySeqs, len(elems), emptyPool) +
			"(3) C07 model documents (fields 'Name:'+[' '+first], first line in {\"\",\"x\",\"x y \"}, 0..2 continuation lines from {\"  x\",\"\\tz\",\" .\",\" x \"}; LF/CRLF; with/without final newline): M1 = 1 paragraph of 1..2 fields named A,B with a '# c' comment at no/every line position, and with one leading blank line; M2 = 2 one-field paragraphs separated by 1..2 blank lines. Each document accepted by the reader is written through the encoder (struct{control.Paragraph}) and read again: identical paragraphs (values byte-identical up to one trailing \"\\n\"), and a second write gives the same text.",
		"rule":                fmt.Sprintf("Nested exhaustive enumeration of the stated domains (1), (1b), (1c), (2), (2b), (2c), (3); every case runs the real WriteTo/Encoder/ParagraphReader/Unmarshal. evaluations by part: %v. distinct_nontrivial = distinct (part, input) pairs by 64-bit FNV hash; every case is non-trivial (at least one field written and read back; model documents count only when the reader accepted them and returned >= 1 paragraph).", parts),
		"failure_counts":      counts,
		"evaluations":         evals,
		"distinct_nontrivial": distinct,
		"exhaustive":          true,
		"samples":             samples,
		"failures":            kept,
	}
	enc := json.NewEncoder(os.Stdout)
	enc.SetEscapeHTML(false)
	enc.Encode(out)
}
