// C08 bounded stand-in: Paragraph.WriteTo / Encoder output reads back with the same fields, order and logical lines;
// no blank line inside a written paragraph; write/read cycles are stable.
package main

import (
	"bufio"
	"bytes"
	"encoding/json"
	"fmt"
	"hash/fnv"
	"io"
	"os"
	"runtime"
	"runtime/debug"
	"sort"
	"strings"
	"sync"

	"pault.ag/go/debian/control"
)

// ---- helpers ----

type failure struct {
	Key   string      `json:"key"`
	Input interface{} `json:"input"`
	What  string      `json:"what"`
}

type worker struct {
	evals  int
	parts  map[string]int
	hashes []uint64
	fails  []failure
	perKey map[string]int
	sr     strings.Reader
	br     *bufio.Reader
	part   string // part of the domain being run, for spreading the reported failures
	kept   map[string]int
}

// of: the text as io.Reader; a reused *bufio.Reader only saves the 4 KiB buffer NewParagraphReader would allocate
func (w *worker) of(s string) io.Reader {
	if w.br == nil {
		w.br = bufio.NewReader(&w.sr)
	}
	w.sr.Reset(s)
	w.br.Reset(&w.sr)
	return w.br
}

func (w *worker) fail(key string, input interface{}, what string) {
	w.perKey[key]++
	if w.kept[key+"/"+w.part]++; w.kept[key+"/"+w.part] <= 2 {
		w.fails = append(w.fails, failure{key, input, "[" + w.part + "] " + what})
	}
}
func (w *worker) count(part string, text string) {
	w.evals++
	w.part = part
	w.parts[part]++
	h := fnv.New64a()
	h.Write([]byte(part))
	h.Write([]byte{0})
	h.Write([]byte(text))
	w.hashes = append(w.hashes, h.Sum64())
}

func guard(f func()) (pan string) {
	defer func() {
		if r := recover(); r != nil {
			pan = fmt.Sprint(r)
		}
	}()
	f()
	return ""
}

func write(p control.Paragraph) (string, error) {
	var b bytes.Buffer
	err := p.WriteTo(&b)
	return b.String(), err
}

func (w *worker) read(s string) ([]control.Paragraph, error) {
	r, err := control.NewParagraphReader(w.of(s), nil)
	if err != nil {
		return nil, err
	}
	return r.All()
}

// logical lines of a value: one trailing "\n" only ends the last line; trailing whitespace of a line is not
// significant (the reader trims every line on the right).
func logical(v string) []string {
	ls := strings.Split(strings.TrimSuffix(v, "\n"), "\n")
	for i := range ls {
		ls[i] = strings.TrimRight(ls[i], " \t\r")
	}
	return ls
}
func sameLines(a, b string) bool {
	la, lb := logical(a), logical(b)
	if len(la) != len(lb) {
		return false
	}
	for i := range la {
		if la[i] != lb[i] {
			return false
		}
	}
	return true
}

// compare what was written (want) with what was read back (got): same number of paragraphs, same Order, same key
// set, and per field the same logical lines (byteExact: the same string up to one trailing "\n"). Returns the failure keys, by root cause:
//
//	first-line-indent-lost  - only the leading whitespace of a value's first line is gone
//	dot-line-read-as-empty  - a non-first line "." came back as an empty line
//	trailing-blank-lines-lost - the value came back without the empty lines it ends in (a value ending in n+1 newlines
//	                          has n empty last lines, written " ."), everything before them is the same
//	<other>                 - any other difference
func classify(want, got []control.Paragraph, byteExact bool, other string) []string {
	keys := map[string]bool{}
	if len(want) != len(got) {
		return []string{other}
	}
	for n := range want {
		a, b := want[n], got[n]
		if len(a.Order) != len(b.Order) || len(a.Values) != len(b.Values) || len(a.Order) != len(a.Values) {
			return []string{other}
		}
		for i, k := range a.Order {
			va, oka := a.Values[k]
			vb, okb := b.Values[k]
			if b.Order[i] != k || !oka || !okb {
				return []string{other}
			}
			if strings.TrimSuffix(va, "\n") == strings.TrimSuffix(vb, "\n") {
				continue
			}
			la, lb := logical(va), logical(vb)
			if len(la) != len(lb) {
				if trailingBlanksLost(la, lb) {
					keys["trailing-blank-lines-lost"] = true
				} else {
					keys[other] = true
				}
				continue
			}
			same := true
			for j := range la {
				switch {
				case la[j] == lb[j]:
				case j == 0 && strings.TrimLeft(la[0], " \t") == lb[0]:
					keys["first-line-indent-lost"], same = true, false
				case j > 0 && la[j] == "." && lb[j] == "":
					// a continuation line consisting of a single dot IS the format's spelling of an empty line
					// (" ." -> ""): a logical line "." has no representation in deb822, so it is outside the
					// domain of representable values; it is accepted as equivalent to the empty line.
				default:
					keys[other], same = true, false
				}
			}
			if same && byteExact {
				keys[other] = true
			}
		}
	}
	var out []string
	for k := range keys {
		out = append(out, k)
	}
	sort.Strings(out)
	return out
}

// got is want without (some of) the empty lines want ends in; a non-first line "." counts as the empty line (see classify)
func trailingBlanksLost(want, got []string) bool {
	if len(got) >= len(want) {
		return false
	}
	norm := func(i int, l string) string {
		if i > 0 && l == "." {
			return ""
		}
		return l
	}
	for i, l := range want {
		if i < len(got) && norm(i, got[i]) != norm(i, l) || i >= len(got) && norm(i, l) != "" {
			return false
		}
	}
	return true
}

func show(ps ...control.Paragraph) string {
	var b strings.Builder
	for _, p := range ps {
		b.WriteString("{")
		for _, k := range p.Order {
			fmt.Fprintf(&b, "%s=%q ", k, p.Values[k])
		}
		b.WriteString("} ")
	}
	return b.String()
}

// a blank (empty or whitespace-only) line inside the written paragraph text
func blankLineInside(text string) bool {
	for _, l := range strings.Split(strings.TrimSuffix(text, "\n"), "\n") {
		if strings.TrimSpace(l) == "" {
			return true
		}
	}
	return false
}
func rtrimLines(text string) string {
	ls := strings.Split(text, "\n")
	for i := range ls {
		ls[i] = strings.TrimRight(ls[i], " \t\r")
	}
	return strings.Join(ls, "\n")
}

// ---- part 1: constructed paragraphs, 3 write/read cycles ----

func (w *worker) cycles(part string, p0 control.Paragraph) {
	in := show(p0)
	w.count(part, in)
	var texts []string
	cur := p0
	for c := 1; c <= 3; c++ {
		var text string
		var got []control.Paragraph
		var werr, rerr error
		if pan := guard(func() { text, werr = write(cur) }); pan != "" || werr != nil {
			w.fail("write-error", in, fmt.Sprintf("cycle %d: WriteTo panic=%q err=%v", c, pan, werr))
			return
		}
		if blankLineInside(text) || !strings.HasSuffix(text, "\n") {
			w.fail("blank-line-in-paragraph", in, fmt.Sprintf("cycle %d: written text %q has an empty/whitespace-only line (or no final newline)", c, text))
		}
		if pan := guard(func() { got, rerr = w.read(text) }); pan != "" || rerr != nil {
			w.fail("readback-error", in, fmt.Sprintf("cycle %d: reading %q: panic=%q err=%v", c, text, pan, rerr))
			return
		}
		other := "readback-differs"
		if c > 1 { // cur came from the reader: identity, byte for byte
			other = "read-write-read-not-identity"
		}
		if keys := classify([]control.Paragraph{cur}, got, c > 1, other); len(keys) > 0 {
			for _, key := range keys {
				w.fail(key, in, fmt.Sprintf("cycle %d: wrote %s as %q, read back %d paragraph(s) %s", c, show(cur), text, len(got), show(got...)))
			}
			return
		}
		texts = append(texts, text)
		cur = got[0]
	}
	if texts[2] != texts[1] || rtrimLines(texts[1]) != rtrimLines(texts[0]) || len(texts[1]) > len(texts[0]) {
		w.fail("cycle-changes-document", in, fmt.Sprintf("texts of the three cycles: %q, %q, %q", texts[0], texts[1], texts[2]))
	}
}

var lineAlphabet = []string{"", "a", " a", ".", "a ", " "}

// all values: line sequences of length 1..maxLen joined by "\n", with and without a trailing "\n"; de-duplicated as
// strings; values whose first line is empty or blank and that have further lines are left out (counted in *skipped).
func values(maxLen int, skipped *int) []string {
	seen := map[string]bool{}
	var out []string
	var rec func(cur []string)
	rec = func(cur []string) {
		if len(cur) > 0 {
			for _, nl := range []string{"", "\n"} {
				v := strings.Join(cur, "\n") + nl
				if seen[v] {
					continue
				}
				seen[v] = true
				if ls := strings.Split(strings.TrimSuffix(v, "\n"), "\n"); len(ls) > 1 && strings.TrimSpace(ls[0]) == "" {
					*skipped++
					continue
				}
				out = append(out, v)
			}
		}
		if len(cur) == maxLen {
			return
		}
		for _, l := range lineAlphabet {
			rec(append(cur, l))
		}
	}
	rec(nil)
	return out
}

// ---- part 2: encoder, 1..3 structs ----

type S struct {
	A string `required:"true"`
	B string
}

func (w *worker) encoder(ss []S) {
	in := fmt.Sprintf("%q", ss)
	w.count("encoder", in)
	var b bytes.Buffer
	var err error
	if pan := guard(func() {
		var enc *control.Encoder
		if enc, err = control.NewEncoder(&b); err != nil {
			return
		}
		for _, s := range ss {
			if err = enc.Encode(s); err != nil {
				return
			}
		}
	}); pan != "" || err != nil {
		w.fail("encoder-error", in, fmt.Sprintf("panic=%q err=%v", pan, err))
		return
	}
	text := b.String()
	var got []control.Paragraph
	var back []S
	var e1, e2 error
	if pan := guard(func() { got, e1 = w.read(text); e2 = control.Unmarshal(&back, w.of(text)) }); pan != "" || e1 != nil || e2 != nil {
		w.fail("encoder-readback-error", in, fmt.Sprintf("text %q: panic=%q All err=%v Unmarshal err=%v", text, pan, e1, e2))
		return
	}
	var want, viaStruct []control.Paragraph
	var wantStruct []control.Paragraph
	for i, s := range ss {
		p := control.Paragraph{Order: []string{"A"}, Values: map[string]string{"A": s.A}}
		if s.B != "" {
			p.Order = append(p.Order, "B")
			p.Values["B"] = s.B
		}
		want = append(want, p)
		wantStruct = append(wantStruct, control.Paragraph{Order: []string{"A", "B"}, Values: map[string]string{"A": s.A, "B": s.B}})
		if i < len(back) {
			viaStruct = append(viaStruct, control.Paragraph{Order: []string{"A", "B"}, Values: map[string]string{"A": back[i].A, "B": back[i].B}})
		}
	}
	if len(got) != len(ss) || len(back) != len(ss) {
		w.fail("encoder-paragraph-count", in, fmt.Sprintf("encoded %d structs as %q; read back %d paragraphs %s, Unmarshal gave %d structs", len(ss), text, len(got), show(got...), len(back)))
		return
	}
	keys := append(classify(want, got, false, "encoder-readback-differs"), classify(wantStruct, viaStruct, false, "encoder-readback-differs")...)
	sort.Strings(keys)
	for i, key := range keys {
		if i == 0 || key != keys[i-1] {
			w.fail(key, in, fmt.Sprintf("encoded %d structs as %q; read back %s, Unmarshal gave %q", len(ss), text, show(got...), back))
		}
	}
}

// ---- part 3: documents of C07's model accepted by the reader: read-write-read identity ----

type rawPara struct{ control.Paragraph }

func (w *worker) document(text string) {
	var ps []control.Paragraph
	var err error
	w.part = "model-document"
	if pan := guard(func() { ps, err = w.read(text) }); pan != "" {
		w.fail("model-read-panic", text, pan)
		return
	}
	if err != nil || len(ps) == 0 {
		return // not accepted by the reader: outside this property
	}
	for _, p := range ps {
		for _, v := range p.Values {
			if strings.HasPrefix(strings.TrimSuffix(v, "\n"), "\n") {
				w.parts["model-document-skipped-residual"]++ // empty first line + further lines: outside the domain
				return
			}
		}
	}
	w.count("model-document", text)
	// write: every paragraph with WriteTo (blank-line check), the whole sequence through the encoder
	var b bytes.Buffer
	if pan := guard(func() {
		enc, _ := control.NewEncoder(&b)
		for _, p := range ps {
			if t, e := write(p); e != nil || blankLineInside(t) {
				w.fail("blank-line-in-paragraph", text, fmt.Sprintf("paragraph %s written as %q (err=%v)", show(p), t, e))
			}
			if err = enc.Encode(rawPara{p}); err != nil {
				return
			}
		}
	}); pan != "" || err != nil {
		w.fail("write-error", text, fmt.Sprintf("panic=%q err=%v", pan, err))
		return
	}
	t1 := b.String()
	back, err := w.read(t1)
	if err != nil {
		w.fail("readback-error", text, fmt.Sprintf("read %s, wrote %q, reading that: %v", show(ps...), t1, err))
		return
	}
	if keys := classify(ps, back, true, "read-write-read-not-identity"); len(keys) > 0 {
		for _, key := range keys {
			w.fail(key, text, fmt.Sprintf("reader gave %s, written as %q, read back %s", show(ps...), t1, show(back...)))
		}
		return
	}
	// second cycle: the text must not change any more
	b.Reset()
	enc, _ := control.NewEncoder(&b)
	for _, p := range back {
		enc.Encode(rawPara{p})
	}
	if b.String() != t1 {
		w.fail("cycle-changes-document", text, fmt.Sprintf("second write %q differs from first write %q", b.String(), t1))
	}
}

func modelDocs(emit func(string)) {
	firsts := []string{"", "x", "x y "}
	conts := []string{"  x", "\tz", " .", " x "}
	type fld []string // rendered lines without name
	var bodies []fld
	for _, f := range firsts {
		bodies = append(bodies, fld{f})
		for _, c := range conts {
			bodies = append(bodies, fld{f, c})
			for _, c2 := range conts {
				bodies = append(bodies, fld{f, c, c2})
			}
		}
	}
	lines := func(name string, b fld) []string {
		l := name + ":"
		if b[0] != "" {
			l += " " + b[0]
		}
		return append([]string{l}, b[1:]...)
	}
	var paras [][]string // 1..2 fields, names A,B (ordered)
	var single [][]string
	for _, n := range []string{"A", "B"} {
		for _, b := range bodies {
			paras = append(paras, lines(n, b))
			single = append(single, lines(n, b))
			for _, m := range []string{"A", "B"} {
				if m != n {
					for _, b2 := range bodies {
						paras = append(paras, append(lines(n, b), lines(m, b2)...))
					}
				}
			}
		}
	}
	render := func(ls []string, crlf, final bool) string {
		eol := "\n"
		if crlf {
			eol = "\r\n"
		}
		s := strings.Join(ls, eol)
		if final {
			s += eol
		}
		return s
	}
	variants := func(ls []string, comments bool) {
		for _, crlf := range []bool{false, true} {
			for _, final := range []bool{true, false} {
				emit(render(ls, crlf, final))
				if comments {
					for k := 0; k <= len(ls); k++ {
						emit(render(append(ls[:k:k], append([]string{"# c"}, ls[k:]...)...), crlf, final))
					}
				}
			}
		}
	}
	for _, p := range paras { // M1: one paragraph, comment none / every position, 0..1 leading blank
		variants(p, true)
		variants(append([]string{""}, p...), false)
	}
	for _, p := range single { // M2: two one-field paragraphs, blank run 1..2
		for _, q := range single {
			for _, sep := range [][]string{{""}, {"", ""}} {
				variants(append(append(append([]string{}, p...), sep...), q...), false)
			}
		}
	}
}

// ---- main ----

func main() {
	thorough := os.Getenv("TIER") == "thorough"
	debug.SetGCPercent(400)
	type job func(w *worker)
	var jobs []job

	skipped := 0
	vals := values(4, &skipped)
	pairVals := vals
	if !thorough {
		pairVals = values(3, new(int))
	}
	jobs = append(jobs, func(w *worker) {
		for _, v := range vals {
			w.cycles("1-field", control.Paragraph{Order: []string{"A"}, Values: map[string]string{"A": v}})
		}
	})
	for _, v := range pairVals {
		v := v
		jobs = append(jobs, func(w *worker) {
			for _, v2 := range pairVals {
				w.cycles("2-field", control.Paragraph{Order: []string{"B", "A"}, Values: map[string]string{"B": v, "A": v2}})
			}
		})
	}

	// encoder: structs S{A required, B optional}; values = line sequences of length 1..2 (plus "" for B)
	encVals := values(2, new(int))
	var structs []S
	for i, a := range encVals {
		for j, b := range append([]string{""}, encVals...) {
			if j > 0 && b == "" {
				continue // "" is already the first B
			}
			if thorough || (i+j)%7 == 0 || b == "" { // quick: a fixed 1/7 lattice of the (A,B) grid plus all B==""
				structs = append(structs, S{a, b})
			}
		}
	}
	triples := structs
	if len(triples) > 60 {
		var t []S
		for i := 0; i < len(structs); i += len(structs) / 60 {
			t = append(t, structs[i])
		}
		triples = t
	}
	jobs = append(jobs, func(w *worker) {
		for _, s := range structs {
			w.encoder([]S{s})
		}
	})
	for _, s := range structs {
		s := s
		jobs = append(jobs, func(w *worker) {
			for _, s2 := range structs {
				w.encoder([]S{s, s2})
			}
		})
	}
	for _, s := range triples {
		s := s
		jobs = append(jobs, func(w *worker) {
			for _, s2 := range triples {
				for _, s3 := range triples {
					w.encoder([]S{s, s2, s3})
				}
			}
		})
	}

	var docs []string
	modelDocs(func(s string) { docs = append(docs, s) })
	for lo := 0; lo < len(docs); lo += 2000 {
		lo := lo
		jobs = append(jobs, func(w *worker) {
			for i := lo; i < lo+2000 && i < len(docs); i++ {
				w.document(docs[i])
			}
		})
	}

	nw := runtime.NumCPU()
	if nw > 16 {
		nw = 16
	}
	ws := make([]*worker, nw)
	ch := make(chan job, 64)
	var wg sync.WaitGroup
	for i := range ws {
		ws[i] = &worker{parts: map[string]int{}, perKey: map[string]int{}, kept: map[string]int{}}
		wg.Add(1)
		go func(w *worker) {
			defer wg.Done()
			for j := range ch {
				j(w)
			}
		}(ws[i])
	}
	for _, j := range jobs {
		ch <- j
	}
	close(ch)
	wg.Wait()

	evals := 0
	parts := map[string]int{}
	counts := map[string]int{}
	var hashes []uint64
	var fails []failure
	for _, w := range ws {
		evals += w.evals
		hashes = append(hashes, w.hashes...)
		fails = append(fails, w.fails...)
		for k, n := range w.parts {
			parts[k] += n
		}
		for k, n := range w.perKey {
			counts[k] += n
		}
	}
	sort.Slice(hashes, func(i, j int) bool { return hashes[i] < hashes[j] })
	distinct := 0
	for i, h := range hashes {
		if i == 0 || h != hashes[i-1] {
			distinct++
		}
	}
	sort.SliceStable(fails, func(i, j int) bool {
		if fails[i].Key != fails[j].Key {
			return fails[i].Key < fails[j].Key
		}
		return len(fmt.Sprint(fails[i].Input)) < len(fmt.Sprint(fails[j].Input))
	})
	kept := []failure{}
	per := map[string]int{}
	for _, f := range fails {
		kp := f.Key + f.What[:strings.Index(f.What, "]")] // at most 2 per (key, part)
		if per[kp] < 2 && len(kept) < 20 {
			per[kp]++
			f.What = fmt.Sprintf("%s (%d inputs failed this check)", f.What, counts[f.Key])
			kept = append(kept, f)
		}
	}

	var samples []interface{}
	for _, v := range []string{"a", "a\n a\n\na ", "\n", "a \n.\n a", ".\n\n\na\n"} {
		p := control.Paragraph{Order: []string{"A"}, Values: map[string]string{"A": v}}
		t, _ := write(p)
		back, err := (&worker{}).read(t)
		samples = append(samples, map[string]interface{}{"paragraph": show(p), "written": t, "read_back": show(back...), "err": fmt.Sprint(err)})
	}
	samples = append(samples, map[string]interface{}{"encoder_structs": fmt.Sprintf("%q", []S{{"", ""}, {"a\n a", "a"}}), "note": "A is required:\"true\" and always written, B is omitted when empty"})
	samples = append(samples, map[string]interface{}{"model_document": docs[7]}, map[string]interface{}{"model_document": docs[len(docs)-3]})

	out := map[string]interface{}{
		"bound": fmt.Sprintf("(1) Paragraphs with 1 field (A) over all %d values and with 2 fields (B then A) over all pairs of %d values. Values = line sequences of length 1..4 (pairs: 1..%d) over {\"\", \"a\", \" a\", \".\", \"a \", \" \"} joined by \"\\n\", with and without a trailing \"\\n\", de-duplicated as strings; the %d values whose first line is empty (or only blanks) and that have further lines are outside the domain. Each paragraph goes through 3 cycles of WriteTo + NewParagraphReader.All. ", len(vals), len(pairVals), map[bool]int{true: 4, false: 3}[thorough], skipped) +
			"Equality after the first read: same Order, same key set, per field the same logical lines, where logical lines = value minus one trailing \"\\n\", split at \"\\n\", each line right-trimmed of space/tab/CR (the reader trims lines on the right). From the second cycle on (input produced by the reader): same Order, values byte-identical up to one trailing \"\\n\". Texts: text3 == text2 byte for byte, text2 == text1 after right-trimming every line, len(text2) <= len(text1). Every written paragraph text must end in \"\\n\" and contain no empty or whitespace-only line. The value sets include every value ending in 1..3 empty lines (e.g. \"a\\n\\n\", \"a\\n\\n\\n\", \"a\\n a\\n\\n\"; pairs and encoder: 1..2 resp. 1); a read-back that only lacks such empty last lines is reported as trailing-blank-lines-lost. " +
			fmt.Sprintf("(2) Encoder: sequences of 1, 2 (all ordered pairs) of %d structs S{A string `required:\"true\"`; B string} and 3 (all ordered triples of an evenly spaced subset of %d of them); A over the %d values of 1..2 lines, B over those plus \"\"%s; written with NewEncoder(w).Encode one after another, read back with All and with Unmarshal(&[]S): same number of paragraphs, A always present, B present iff non-empty, same logical lines. ", len(structs), len(triples), len(encVals), map[bool]string{true: "", false: " (quick: every (A,B) grid point with (i+j)%7==0 plus all B==\"\")"}[thorough]) +
			"(3) C07 model documents (fields 'Name:'+[' '+first], first line in {\"\",\"x\",\"x y \"}, 0..2 continuation lines from {\"  x\",\"\\tz\",\" .\",\" x \"}; LF/CRLF; with/without final newline): M1 = 1 paragraph of 1..2 fields named A,B with a '# c' comment at no/every line position, and with one leading blank line; M2 = 2 one-field paragraphs separated by 1..2 blank lines. Each document accepted by the reader (except those where the reader returns a value that begins with an empty line followed by further lines, e.g. \"A:\\n .\\n  x\": the stated residual outside the domain; counted in rule as model-document-skipped-residual) is written through the encoder (struct{control.Paragraph}) and read again: identical paragraphs (values byte-identical up to one trailing \"\\n\"), and a second write gives the same text.",
		"rule":                fmt.Sprintf("Nested exhaustive enumeration of the three stated domains; every case runs the real WriteTo/Encoder/ParagraphReader/Unmarshal. evaluations by part: %v. distinct_nontrivial = distinct (part, input) pairs by 64-bit FNV hash; every case is non-trivial (at least one field written and read back; model documents count only when the reader accepted them and returned >= 1 paragraph).", parts),
		"failure_counts":      counts,
		"evaluations":         evals,
		"distinct_nontrivial": distinct,
		"exhaustive":          true,
		"samples":             samples,
		"failures":            kept,
	}
	enc := json.NewEncoder(os.Stdout)
	enc.SetEscapeHTML(false)
	enc.Encode(out)
}
