// Bounded stand-in for C19: control.OrderDSCForBuild returns a permutation respecting every build-dependency edge
// (first applicable alternative per relation), errors exactly on cycles, and is deterministic.
package main

import (
	"bufio"
	"encoding/json"
	"fmt"
	"hash/fnv"
	"math/rand"
	"os"
	"runtime"
	"strconv"
	"strings"
	"sync"

	"pault.ag/go/debian/control"
	"pault.ag/go/debian/dependency"
)

type failure struct {
	Key   string      `json:"key"`
	Input interface{} `json:"input"`
	What  string      `json:"what"`
}

var (
	mu       sync.Mutex
	failures []failure
	failKeys = map[string]bool{}
	distinct = map[uint64]struct{}{}
	evals    int
	samples  []interface{}
	cyclicN  int
)

func fail(key string, input interface{}, what string) {
	mu.Lock()
	defer mu.Unlock()
	if failKeys[key] || len(failures) >= 20 {
		return
	}
	failKeys[key] = true
	failures = append(failures, failure{key, input, what})
}

var fields = []string{"Build-Depends", "Build-Depends-Arch", "Build-Depends-Indep"}

func srcName(i int) string { return "p" + string(rune('a'+i)) }

// binaries of source i when it has nb of them
func binaries(i, nb int) []string {
	s := srcName(i)
	return []string{s, "lib" + s, s + "-doc"}[:nb]
}

// ways to write a relation whose first applicable alternative on amd64 is package b
var edgeForms = []string{
	"%s",
	"%s (>= 1.0)",
	"zz-other [!amd64] | %s",
	"${misc:Depends} | %s",
	"%s [amd64 i386]",
	"%s [!i386] | zz-other",
	"zz-other [i386 armhf] | ${foo:Depends} | %s (>= 2) | zz-other2",
}

// ways to mention package b in a relation that must NOT create an edge on amd64
var decoyForms = []string{
	"zz-other | %s",
	"%s [!amd64] | zz-other",
	"%s [i386]",
	"zz-other [amd64] | %s",
	"${misc:Depends} | zz-other (>= 1) | %s",
}

type graph struct {
	n     int
	edges [][2]int // {u,v}: v build-depends on a binary of u, so u has to come first
}

func (g graph) cyclic() bool {
	indeg := make([]int, g.n)
	for _, e := range g.edges {
		indeg[e[1]]++
	}
	done, removed := 0, make([]bool, g.n)
	for progress := true; progress; {
		progress = false
		for v := 0; v < g.n; v++ {
			if !removed[v] && indeg[v] == 0 {
				removed[v], progress = true, true
				done++
				for _, e := range g.edges {
					if e[0] == v {
						indeg[e[1]]--
					}
				}
			}
		}
	}
	return done < g.n
}

func fromMask(n int, mask uint64) graph {
	g := graph{n: n}
	bit := 0
	for u := 0; u < n; u++ {
		for v := 0; v < n; v++ {
			if u != v {
				if mask&(1<<bit) != 0 {
					g.edges = append(g.edges, [2]int{u, v})
				}
				bit++
			}
		}
	}
	return g
}

// realise renders the .dsc texts (in input order) for the graph with seeded choices.
func realise(g graph, r *rand.Rand) (texts []string, order []int, nbin []int) {
	has := map[[2]int]bool{}
	for _, e := range g.edges {
		has[e] = true
	}
	nbin = make([]int, g.n)
	for i := range nbin {
		nbin[i] = 1 + r.Intn(3)
	}
	texts = make([]string, g.n)
	for v := 0; v < g.n; v++ {
		rel := map[string][]string{"Build-Depends": {"debhelper (>= 9)"}}
		for u := 0; u < g.n; u++ {
			if u == v {
				continue
			}
			b := binaries(u, nbin[u])[r.Intn(nbin[u])]
			f := fields[r.Intn(3)]
			if has[[2]int{u, v}] {
				rel[f] = append(rel[f], fmt.Sprintf(edgeForms[r.Intn(len(edgeForms))], b))
			} else if r.Intn(3) == 0 {
				rel[f] = append(rel[f], fmt.Sprintf(decoyForms[r.Intn(len(decoyForms))], b))
			}
		}
		bins := binaries(v, nbin[v])
		binLine := strings.Join(bins, ", ")
		if len(bins) == 3 && r.Intn(2) == 0 {
			binLine = bins[0] + ", " + bins[1] + ",\n " + bins[2] // folded over two lines
		}
		arch := "any"
		if nbin[v] == 3 {
			arch = "any all"
		}
		s := srcName(v)
		t := "Format: 3.0 (quilt)\nSource: " + s + "\nBinary: " + binLine + "\nArchitecture: " + arch + "\nVersion: 1.0-1\nMaintainer: A B <a@b>\nStandards-Version: 3.9.3\n"
		for _, f := range fields {
			if len(rel[f]) > 0 {
				sep := ", "
				if r.Intn(4) == 0 {
					sep = ",\n "
				}
				t += f + ": " + strings.Join(rel[f], sep) + "\n"
			}
		}
		t += "Package-List:\n"
		for _, b := range bins {
			t += " " + b + " deb misc optional arch=any\n"
		}
		t += "Checksums-Sha256:\n e3b0c44298fc1c149afbf4c8996fb92427ae41e4649b934ca495991b7852b855 0 " + s + "_1.0.orig.tar.gz\n"
		t += "Files:\n d41d8cd98f00b204e9800998ecf8427e 0 " + s + "_1.0.orig.tar.gz\n"
		texts[v] = t
	}
	order = r.Perm(g.n)
	return
}

func runOrder(dscs []control.DSC, arch dependency.Arch) (names []string, err error, pan interface{}) {
	defer func() { pan = recover() }()
	out, err := control.OrderDSCForBuild(dscs, arch)
	for _, d := range out {
		names = append(names, d.Source)
	}
	return
}

func check(g graph, seed int64, arch dependency.Arch, keepSample bool) {
	r := rand.New(rand.NewSource(seed))
	texts, order, nbin := realise(g, r)
	var input []string
	for _, i := range order {
		input = append(input, texts[i])
	}
	in := map[string]interface{}{"dsc_texts_in_input_order": input, "arch": "amd64", "edges_before_after": edgeNames(g)}
	h := fnv.New64a()
	fmt.Fprint(h, g.n, g.edges, input)
	mu.Lock()
	evals++
	if len(g.edges) > 0 {
		distinct[h.Sum64()] = struct{}{}
	}
	if g.cyclic() {
		cyclicN++
	}
	if keepSample {
		samples = append(samples, map[string]interface{}{"edges_before_after": edgeNames(g), "cyclic": g.cyclic(), "dsc_texts_in_input_order": input})
	}
	mu.Unlock()

	var dscs []control.DSC
	for _, i := range order {
		d, err, pan := parse(texts[i], srcName(i)+"_1.0-1.dsc")
		if pan != nil {
			fail("parse-panic", in, fmt.Sprint("ParseDsc panic: ", pan))
			return
		}
		if err != nil {
			fail("parse-error", in, "ParseDsc rejected "+srcName(i)+": "+err.Error())
			return
		}
		if want := binaries(i, nbin[i]); d.Source != srcName(i) || strings.Join(d.Binaries, "|") != strings.Join(want, "|") {
			fail("parse-binaries", in, fmt.Sprintf("parsed Source=%q Binaries=%q, written %q %q", d.Source, d.Binaries, srcName(i), want))
			return
		}
		dscs = append(dscs, *d)
	}
	var first string
	for run := 0; run < 3; run++ {
		names, err, pan := runOrder(append([]control.DSC{}, dscs...), arch)
		if pan != nil {
			fail("order-panic", in, fmt.Sprint("panic: ", pan))
			return
		}
		outcome := "order " + strings.Join(names, " ")
		if err != nil {
			outcome = "error"
		}
		if run == 0 {
			first = outcome
		} else if outcome != first {
			fail("nondeterministic", in, fmt.Sprintf("run 1 gave %q, run %d gave %q", first, run+1, outcome))
		}
		if err != nil {
			if !g.cyclic() {
				fail("error-on-dag", in, "error although the build-dependency graph has no cycle: "+err.Error())
			}
			continue
		}
		if g.cyclic() {
			fail("cycle-not-reported", in, "order "+strings.Join(names, " ")+" returned although the build-dependencies contain a cycle")
			continue
		}
		pos := map[string]int{}
		for i, n := range names {
			pos[n] = i
		}
		perm := len(names) == g.n && len(pos) == g.n
		for i := 0; i < g.n; i++ {
			if _, ok := pos[srcName(i)]; !ok {
				perm = false
			}
		}
		if !perm {
			fail("not-a-permutation", in, fmt.Sprintf("result %v is not a permutation of the %d input sources", names, g.n))
			continue
		}
		for _, e := range g.edges {
			if pos[srcName(e[0])] > pos[srcName(e[1])] {
				fail("edge-violated", in, fmt.Sprintf("%s build-depends on a binary of %s but is ordered before it: %v", srcName(e[1]), srcName(e[0]), names))
				break
			}
		}
	}
}

func edgeNames(g graph) []string {
	out := []string{}
	for _, e := range g.edges {
		out = append(out, srcName(e[0])+"<"+srcName(e[1]))
	}
	return out
}

func parse(text, path string) (d *control.DSC, err error, pan interface{}) {
	defer func() { pan = recover() }()
	d, err = control.ParseDsc(bufio.NewReader(strings.NewReader(text)), path)
	return
}

type job struct {
	g      graph
	seed   int64
	sample bool
}

func main() {
	tier := os.Getenv("TIER")
	seed, _ := strconv.ParseInt(os.Getenv("VERIF_SEED"), 10, 64)
	rng := rand.New(rand.NewSource(seed + 19))
	a, err := dependency.ParseArch("amd64")
	if err != nil {
		fail("parse-arch", "amd64", err.Error())
		a = &dependency.Arch{}
	}
	reals, maxN, sampled := 6, 5, 60000
	if tier == "thorough" {
		reals, maxN, sampled = 40, 7, 400000
	}
	var jobs []job
	exhaustive := 0
	for n := 1; n <= 4; n++ {
		for mask := uint64(0); mask < 1<<(n*(n-1)); mask++ {
			exhaustive++
			for k := 0; k < reals; k++ {
				jobs = append(jobs, job{fromMask(n, mask), rng.Int63(), false})
			}
		}
	}
	// sampled graphs over 5..maxN sources: random edge sets of varying density, half of them forced acyclic (edges along a random order)
	for i := 0; i < sampled; i++ {
		n := 5 + rng.Intn(maxN-4)
		p := 0.05 + 0.5*rng.Float64()
		perm := rng.Perm(n)
		dag := i%2 == 0
		g := graph{n: n}
		for u := 0; u < n; u++ {
			for v := 0; v < n; v++ {
				if u != v && rng.Float64() < p && (!dag || perm[u] < perm[v]) {
					g.edges = append(g.edges, [2]int{u, v})
				}
			}
		}
		jobs = append(jobs, job{g, rng.Int63(), false})
	}
	for _, i := range []int{reals * 3, reals * 40, reals * 69, reals * 1500, reals * 4000, len(jobs) - 2, len(jobs) - 1} {
		jobs[i].sample = true
	}
	workers := runtime.NumCPU()
	var wg sync.WaitGroup
	for w := 0; w < workers; w++ {
		wg.Add(1)
		go func(w int) {
			defer wg.Done()
			for i := w; i < len(jobs); i += workers {
				check(jobs[i].g, jobs[i].seed, *a, jobs[i].sample)
			}
		}(w)
	}
	wg.Wait()
	if failures == nil {
		failures = []failure{}
	}
	out := map[string]interface{}{
		"bound": fmt.Sprintf("build-dependency graphs: every edge set (no self-edges) over 1..4 sources (%d edge sets, DAG and cyclic) x %d seeded realisations each, plus %d sampled edge sets over 5..%d sources (half forced acyclic); %d of the cases are cyclic. "+
			"Realisation: 1..3 binaries per source (Binary: pa, libpa, pa-doc; 3-element lists folded over two lines half the time), each edge a build-dependency on one of the target's binaries in one of Build-Depends / -Arch / -Indep written in one of %d forms "+
			"(plain, versioned, after an alternative excluded by [!amd64], behind a substvar alternative, with admitting arch lists, mixed), non-edges mentioned in 1/3 of the cases in one of %d forms that must not count (first applicable alternative outside the set, arch list excluding amd64), "+
			"relations sometimes folded; sources given in a seeded random input order; arch amd64; each case run 3 times", exhaustive, reals, sampled, maxN, cyclicN, len(edgeForms), len(decoyForms)),
		"rule":                "each source rendered as .dsc text, parsed with control.ParseDsc, ordered with OrderDSCForBuild. Oracle = the harness's own edge set: error iff it has a cycle (Kahn), otherwise result is a permutation of the input sources with every edge u<v respected; the three runs must agree exactly. Distinct = distinct (edge set, rendered texts, input order); cases without any edge count as trivial",
		"evaluations":         evals,
		"distinct_nontrivial": len(distinct),
		"exhaustive":          false,
		"samples":             samples,
		"failures":            failures,
	}
	json.NewEncoder(os.Stdout).Encode(out)
}
