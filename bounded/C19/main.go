// Bounded stand-in for C19: control.OrderDSCForBuild returns a permutation respecting every build-dependency edge
// (first applicable alternative per relation), errors exactly on cycles, and is deterministic.
package main

import (
	"bufio"
	"encoding/json"
	"fmt"
	"hash/fnv"
	"math/rand"
	"os"
	"runtime"
	"strconv"
	"strings"
	"sync"

	"pault.ag/go/debian/control"
	"pault.ag/go/debian/dependency"
)

type failure struct {
	Key   string      `json:"key"`
	Input interface{} `json:"input"`
	What  string      `json:"what"`
}

var (
	mu         sync.Mutex
	failures   []failure
	failKeys   = map[string]bool{}
	distinct   = map[uint64]struct{}{}
	evals      int
	samples    []interface{}
	cyclicN    int
	famN       = map[int]int{} // cases per name family
	collidingN int             // cases (families >= 1) in which two edges with colliding name pairs are both present
)

func fail(key string, input interface{}, what string) {
	mu.Lock()
	defer mu.Unlock()
	if failKeys[key] || len(failures) >= 20 {
		return
	}
	failKeys[key] = true
	failures = append(failures, failure{key, input, what})
}

var fields = []string{"Build-Depends", "Build-Depends-Arch", "Build-Depends-Indep"}

// naming of one case: the source names by index and the scheme of their binary names.
//
//	family 0 (the original scheme): sources pa, pb, ...; binaries pa, libpa, pa-doc.
//	family >= 1: source names from nameFamilies[family] - names that are prefixes / suffixes of each other and whose
//	concatenations coincide for different (provider, dependent) pairs, with and without a separator character -
//	binaries s (or s+"1"), s+"-dev", s+"-doc".
type naming struct {
	family int
	src    []string
	first1 bool // first binary is s+"1" instead of s (no binary carries the source's name)
}

// Every family is ordered so that already its first 3 (unary: 2) names contain two different ordered pairs (u,v) != (x,y)
// with u+v == x+y (abut, unary) resp. u+sep+v == x+sep+y (dash, dot, plus); longer prefixes contain more of them.
var nameFamilies = [][]string{
	nil, // family 0: srcName0
	// abut: foo+barfoo == foobar+foo, bar+foobar == barfoo+bar, lib+foobar == libfoo+bar, foo+libfoo == foolib+foo
	{"foo", "foobar", "barfoo", "bar", "lib", "libfoo", "foolib"},
	// unary: every two pairs with the same total length collide (aa+aaaaaaaa == aaaa+aaaaaa, aa+aaaa == aaaa+aa, ...)
	{"aa", "aaaa", "aaaaaa", "aaaaaaaa", "aaa", "aaaaa", "aaaaaaa"},
	// dash / dot / plus: collisions of provider+SEP+dependent: aa-(bb-aa) == (aa-bb)-aa, cc-(aa-bb) == (cc-aa)-bb, ...
	{"aa", "aa-bb", "bb-aa", "bb", "cc", "cc-aa", "aa-cc"},
	{"aa", "aa.bb", "bb.aa", "bb", "cc", "cc.aa", "aa.cc"},
	{"aa", "aa+bb", "bb+aa", "bb", "cc", "cc+aa", "aa+cc"},
}
var familyNames = []string{"original", "abut", "unary", "dash", "dot", "plus"}

func srcName0(i int) string { return "p" + string(rune('a'+i)) }

// mkNaming chooses the names of a case from its seed; family 0 does not consume randomness (the original cases are unchanged).
func mkNaming(family, n int, seed int64) naming {
	nm := naming{family: family, src: make([]string, n)}
	if family == 0 {
		for i := range nm.src {
			nm.src[i] = srcName0(i)
		}
		return nm
	}
	r := rand.New(rand.NewSource(seed ^ 0x5eed19))
	fam := nameFamilies[family]
	pick := make([]int, len(fam))
	for i := range pick {
		pick[i] = i
	}
	if r.Intn(3) == 0 { // a random n-subset instead of the first n names
		pick = r.Perm(len(fam))
	}
	for i, j := range r.Perm(n) { // names assigned to the graph's indices in a seeded order
		nm.src[i] = fam[pick[j]]
	}
	nm.first1 = r.Intn(2) == 0
	return nm
}

func (nm naming) name(i int) string { return nm.src[i] }

// binaries of source i when it has nb of them
func (nm naming) binaries(i, nb int) []string {
	s := nm.src[i]
	if nm.family == 0 {
		return []string{s, "lib" + s, s + "-doc"}[:nb]
	}
	b0 := s
	if nm.first1 {
		b0 = s + "1"
	}
	return []string{b0, s + "-dev", s + "-doc"}[:nb]
}

// number of pairs of different edges (u,v) != (x,y) of g whose (provider, dependent) names collide when concatenated with
// one of the separators "", "-", ".", "+"
func (nm naming) collidingEdgePairs(g graph) int {
	c := 0
	for _, sep := range []string{"", "-", ".", "+"} {
		seen := map[string]int{}
		for _, e := range g.edges {
			k := nm.src[e[0]] + sep + nm.src[e[1]]
			c += seen[k]
			seen[k]++
		}
	}
	return c
}

// ways to write a relation whose first applicable alternative on amd64 is package b
var edgeForms = []string{
	"%s",
	"%s (>= 1.0)",
	"zz-other [!amd64] | %s",
	"${misc:Depends} | %s",
	"%s [amd64 i386]",
	"%s [!i386] | zz-other",
	"zz-other [i386 armhf] | ${foo:Depends} | %s (>= 2) | zz-other2",
	// a multiarch qualifier says which architecture's build of the binary is wanted; it is a build-dependency on that
	// binary all the same
	"%s:native",
	"%s:any (>= 1.0)",
	"%s:i386 [amd64]",
}

// ways to mention package b in a relation that must NOT create an edge on amd64
var decoyForms = []string{
	"zz-other | %s",
	"%s [!amd64] | zz-other",
	"%s [i386]",
	"zz-other [amd64] | %s",
	"${misc:Depends} | zz-other (>= 1) | %s",
}

type graph struct {
	n     int
	edges [][2]int // {u,v}: v build-depends on a binary of u, so u has to come first
}

func (g graph) cyclic() bool {
	indeg := make([]int, g.n)
	for _, e := range g.edges {
		indeg[e[1]]++
	}
	done, removed := 0, make([]bool, g.n)
	for progress := true; progress; {
		progress = false
		for v := 0; v < g.n; v++ {
			if !removed[v] && indeg[v] == 0 {
				removed[v], progress = true, true
				done++
				for _, e := range g.edges {
					if e[0] == v {
						indeg[e[1]]--
					}
				}
			}
		}
	}
	return done < g.n
}

func fromMask(n int, mask uint64) graph {
	g := graph{n: n}
	bit := 0
	for u := 0; u < n; u++ {
		for v := 0; v < n; v++ {
			if u != v {
				if mask&(1<<bit) != 0 {
					g.edges = append(g.edges, [2]int{u, v})
				}
				bit++
			}
		}
	}
	return g
}

// realise renders the .dsc texts (in input order) for the graph with seeded choices.
// With dup, a third of the edges is written a second time (another binary of the provider and/or another field), as a
// source build-depending on two binaries of one other source does.
func realise(g graph, r *rand.Rand, nm naming, dup bool) (texts []string, order []int, nbin []int) {
	has := map[[2]int]bool{}
	for _, e := range g.edges {
		has[e] = true
	}
	nbin = make([]int, g.n)
	for i := range nbin {
		nbin[i] = 1 + r.Intn(3)
	}
	texts = make([]string, g.n)
	for v := 0; v < g.n; v++ {
		rel := map[string][]string{"Build-Depends": {"debhelper (>= 9)"}}
		for u := 0; u < g.n; u++ {
			if u == v {
				continue
			}
			b := nm.binaries(u, nbin[u])[r.Intn(nbin[u])]
			f := fields[r.Intn(3)]
			if has[[2]int{u, v}] {
				rel[f] = append(rel[f], fmt.Sprintf(edgeForms[r.Intn(len(edgeForms))], b))
				if dup && r.Intn(3) == 0 {
					b2 := nm.binaries(u, nbin[u])[r.Intn(nbin[u])]
					f2 := fields[r.Intn(3)]
					rel[f2] = append(rel[f2], fmt.Sprintf(edgeForms[r.Intn(len(edgeForms))], b2))
				}
			} else if r.Intn(3) == 0 {
				rel[f] = append(rel[f], fmt.Sprintf(decoyForms[r.Intn(len(decoyForms))], b))
			}
		}
		bins := nm.binaries(v, nbin[v])
		binLine := strings.Join(bins, ", ")
		if len(bins) == 3 && r.Intn(2) == 0 {
			binLine = bins[0] + ", " + bins[1] + ",\n " + bins[2] // folded over two lines
		}
		arch := "any"
		if nbin[v] == 3 {
			arch = "any all"
		}
		s := nm.name(v)
		t := "Format: 3.0 (quilt)\nSource: " + s + "\nBinary: " + binLine + "\nArchitecture: " + arch + "\nVersion: 1.0-1\nMaintainer: A B <a@b>\nStandards-Version: 3.9.3\n"
		for _, f := range fields {
			if len(rel[f]) > 0 {
				sep := ", "
				if r.Intn(4) == 0 {
					sep = ",\n "
				}
				t += f + ": " + strings.Join(rel[f], sep) + "\n"
			}
		}
		t += "Package-List:\n"
		for _, b := range bins {
			t += " " + b + " deb misc optional arch=any\n"
		}
		t += "Checksums-Sha256:\n e3b0c44298fc1c149afbf4c8996fb92427ae41e4649b934ca495991b7852b855 0 " + s + "_1.0.orig.tar.gz\n"
		t += "Files:\n d41d8cd98f00b204e9800998ecf8427e 0 " + s + "_1.0.orig.tar.gz\n"
		texts[v] = t
	}
	order = r.Perm(g.n)
	return
}

func runOrder(dscs []control.DSC, arch dependency.Arch) (names []string, err error, pan interface{}) {
	defer func() { pan = recover() }()
	out, err := control.OrderDSCForBuild(dscs, arch)
	for _, d := range out {
		names = append(names, d.Source)
	}
	return
}

func check(g graph, seed int64, family int, arch dependency.Arch, keepSample bool) {
	r := rand.New(rand.NewSource(seed))
	nm := mkNaming(family, g.n, seed)
	srcName := nm.name
	binaries := nm.binaries
	texts, order, nbin := realise(g, r, nm, family != 0)
	if family != 0 { // the harness's own naming must be unambiguous: all source names and all binary names distinct
		seenS, seenB := map[string]bool{}, map[string]bool{}
		for i := 0; i < g.n; i++ {
			if seenS[srcName(i)] {
				fail("harness-bug", nm.src, "duplicate source name "+srcName(i))
				return
			}
			seenS[srcName(i)] = true
			for _, b := range binaries(i, nbin[i]) {
				if seenB[b] {
					fail("harness-bug", nm.src, "binary name "+b+" built by two sources")
					return
				}
				seenB[b] = true
			}
		}
	}
	var input []string
	for _, i := range order {
		input = append(input, texts[i])
	}
	in := map[string]interface{}{"dsc_texts_in_input_order": input, "arch": "amd64", "edges_before_after": edgeNames(g, nm), "name_family": familyNames[family]}
	h := fnv.New64a()
	fmt.Fprint(h, g.n, g.edges, input)
	mu.Lock()
	evals++
	if len(g.edges) > 0 {
		distinct[h.Sum64()] = struct{}{}
	}
	if g.cyclic() {
		cyclicN++
	}
	famN[family]++
	if family != 0 {
		// both edges of a colliding pair present: the situation in which mixing up (provider, dependent) pairs shows
		if both := nm.collidingEdgePairs(g); both > 0 {
			collidingN++
		}
	}
	if keepSample {
		samples = append(samples, map[string]interface{}{"edges_before_after": edgeNames(g, nm), "cyclic": g.cyclic(), "name_family": familyNames[family], "dsc_texts_in_input_order": input})
	}
	mu.Unlock()

	var dscs []control.DSC
	for _, i := range order {
		d, err, pan := parse(texts[i], srcName(i)+"_1.0-1.dsc")
		if pan != nil {
			fail("parse-panic", in, fmt.Sprint("ParseDsc panic: ", pan))
			return
		}
		if err != nil {
			fail("parse-error", in, "ParseDsc rejected "+srcName(i)+": "+err.Error())
			return
		}
		if want := binaries(i, nbin[i]); d.Source != srcName(i) || strings.Join(d.Binaries, "|") != strings.Join(want, "|") {
			fail("parse-binaries", in, fmt.Sprintf("parsed Source=%q Binaries=%q, written %q %q", d.Source, d.Binaries, srcName(i), want))
			return
		}
		dscs = append(dscs, *d)
	}
	var first string
	for run := 0; run < 3; run++ {
		names, err, pan := runOrder(append([]control.DSC{}, dscs...), arch)
		if pan != nil {
			fail("order-panic", in, fmt.Sprint("panic: ", pan))
			return
		}
		outcome := "order " + strings.Join(names, " ")
		if err != nil {
			outcome = "error"
		}
		if run == 0 {
			first = outcome
		} else if outcome != first {
			fail("nondeterministic", in, fmt.Sprintf("run 1 gave %q, run %d gave %q", first, run+1, outcome))
		}
		if err != nil {
			if !g.cyclic() {
				fail("error-on-dag", in, "error although the build-dependency graph has no cycle: "+err.Error())
			}
			continue
		}
		if g.cyclic() {
			fail("cycle-not-reported", in, "order "+strings.Join(names, " ")+" returned although the build-dependencies contain a cycle")
			continue
		}
		pos := map[string]int{}
		for i, n := range names {
			pos[n] = i
		}
		perm := len(names) == g.n && len(pos) == g.n
		for i := 0; i < g.n; i++ {
			if _, ok := pos[srcName(i)]; !ok {
				perm = false
			}
		}
		if !perm {
			fail("not-a-permutation", in, fmt.Sprintf("result %v is not a permutation of the %d input sources", names, g.n))
			continue
		}
		for _, e := range g.edges {
			if pos[srcName(e[0])] > pos[srcName(e[1])] {
				fail("edge-violated", in, fmt.Sprintf("%s build-depends on a binary of %s but is ordered before it: %v", srcName(e[1]), srcName(e[0]), names))
				break
			}
		}
	}
}

func famCounts() []string {
	out := []string{}
	for f := 1; f < len(nameFamilies); f++ {
		out = append(out, fmt.Sprintf("%s:%d", familyNames[f], famN[f]))
	}
	return out
}

func edgeNames(g graph, nm naming) []string {
	out := []string{}
	for _, e := range g.edges {
		out = append(out, nm.name(e[0])+"<"+nm.name(e[1]))
	}
	return out
}

func parse(text, path string) (d *control.DSC, err error, pan interface{}) {
	defer func() { pan = recover() }()
	d, err = control.ParseDsc(bufio.NewReader(strings.NewReader(text)), path)
	return
}

type job struct {
	g      graph
	seed   int64
	sample bool
	family int
}

func main() {
	tier := os.Getenv("TIER")
	seed, _ := strconv.ParseInt(os.Getenv("VERIF_SEED"), 10, 64)
	rng := rand.New(rand.NewSource(seed + 19))
	a, err := dependency.ParseArch("amd64")
	if err != nil {
		fail("parse-arch", "amd64", err.Error())
		a = &dependency.Arch{}
	}
	reals, maxN, sampled := 6, 5, 60000
	famReals, famSampled := 1, 15000
	if tier == "thorough" {
		reals, maxN, sampled = 40, 7, 400000
		famReals, famSampled = 8, 100000
	}
	var jobs []job
	exhaustive := 0
	for n := 1; n <= 4; n++ {
		for mask := uint64(0); mask < 1<<(n*(n-1)); mask++ {
			exhaustive++
			for k := 0; k < reals; k++ {
				jobs = append(jobs, job{fromMask(n, mask), rng.Int63(), false, 0})
			}
		}
	}
	// sampled graphs over 5..maxN sources: random edge sets of varying density, half of them forced acyclic (edges along a random order)
	for i := 0; i < sampled; i++ {
		n := 5 + rng.Intn(maxN-4)
		p := 0.05 + 0.5*rng.Float64()
		perm := rng.Perm(n)
		dag := i%2 == 0
		g := graph{n: n}
		for u := 0; u < n; u++ {
			for v := 0; v < n; v++ {
				if u != v && rng.Float64() < p && (!dag || perm[u] < perm[v]) {
					g.edges = append(g.edges, [2]int{u, v})
				}
			}
		}
		jobs = append(jobs, job{g, rng.Int63(), false, 0})
	}
	// name families 1..: the same two domains again with colliding / nested names (own random stream: the original cases above are unchanged)
	rng2 := rand.New(rand.NewSource(seed + 1919))
	nf := len(nameFamilies) - 1
	for n := 2; n <= 4; n++ {
		for mask := uint64(0); mask < 1<<(n*(n-1)); mask++ {
			for fam := 1; fam <= nf; fam++ {
				for k := 0; k < famReals; k++ {
					jobs = append(jobs, job{fromMask(n, mask), rng2.Int63(), n == 4 && mask == 34 && fam == 1 && k == 0, fam}) // sample: edges 0<2, 1<3
				}
			}
		}
	}
	for i := 0; i < famSampled; i++ {
		n := 5 + rng2.Intn(maxN-4)
		p := 0.05 + 0.5*rng2.Float64()
		perm := rng2.Perm(n)
		dag := i%4 != 0 // three quarters forced acyclic: a lost edge shows as a wrong order there
		g := graph{n: n}
		for u := 0; u < n; u++ {
			for v := 0; v < n; v++ {
				if u != v && rng2.Float64() < p && (!dag || perm[u] < perm[v]) {
					g.edges = append(g.edges, [2]int{u, v})
				}
			}
		}
		jobs = append(jobs, job{g, rng2.Int63(), false, 1 + i%nf})
	}
	jobs[len(jobs)-3].sample = true
	for _, i := range []int{reals * 3, reals * 40, reals * 69, reals * 1500, reals * 4000, len(jobs) - 2, len(jobs) - 1} {
		jobs[i].sample = true
	}
	workers := runtime.NumCPU()
	var wg sync.WaitGroup
	for w := 0; w < workers; w++ {
		wg.Add(1)
		go func(w int) {
			defer wg.Done()
			for i := w; i < len(jobs); i += workers {
				check(jobs[i].g, jobs[i].seed, jobs[i].family, *a, jobs[i].sample)
			}
		}(w)
	}
	wg.Wait()
	if failures == nil {
		failures = []failure{}
	}
	out := map[string]interface{}{
		"bound": fmt.Sprintf("build-dependency graphs: every edge set (no self-edges) over 1..4 sources (%d edge sets, DAG and cyclic) x %d seeded realisations each, plus %d sampled edge sets over 5..%d sources (half forced acyclic); %d of the cases are cyclic. "+
			"Realisation: 1..3 binaries per source (Binary: pa, libpa, pa-doc; 3-element lists folded over two lines half the time), each edge a build-dependency on one of the target's binaries in one of Build-Depends / -Arch / -Indep written in one of %d forms "+
			"(plain, versioned, after an alternative excluded by [!amd64], behind a substvar alternative, with admitting arch lists, mixed, with a multiarch qualifier :native / :any / :i386), non-edges mentioned in 1/3 of the cases in one of %d forms that must not count (first applicable alternative outside the set, arch list excluding amd64), "+
			"relations sometimes folded; sources given in a seeded random input order; arch amd64; each case run 3 times. "+
			"ADDED name families (the cases above keep the names pa, pb, ...: %d cases): every edge set over 2..4 sources x %d realisation(s) for each of %d families of source names, plus %d sampled edge sets over 5..%d sources (3/4 forced acyclic) spread over the families (%v cases per family). "+
			"Families = names that are prefixes/suffixes of each other and for which different (provider, dependent) pairs give the same string when joined without or with a separator: "+
			"abut %q (foo+barfoo == foobar+foo, lib+foobar == libfoo+bar, ...), unary %q (all pairs of equal total length), dash %q, dot and plus likewise with '.' and '+' (aa-(bb-aa) == (aa-bb)-aa, ...); "+
			"per case the first n names of the family (1/3 of the cases: a random n-subset) assigned to the graph's sources in a seeded order; binaries s (half of the cases s+\"1\", so that no binary has the source's name), s-dev, s-doc, all source and binary names of a case pairwise distinct (checked); "+
			"in these cases a third of the edges is written twice (a second build-dependency on the same or another binary of the same provider, in the same or another field). "+
			"%d of the name-family cases contain two edges whose name pairs collide under one of the separators \"\", '-', '.', '+'",
			exhaustive, reals, sampled, maxN, cyclicN, len(edgeForms), len(decoyForms),
			famN[0], famReals, len(nameFamilies)-1, famSampled, maxN, famCounts(), nameFamilies[1], nameFamilies[2], nameFamilies[3], collidingN),
		"rule":                "each source rendered as .dsc text, parsed with control.ParseDsc, ordered with OrderDSCForBuild. Oracle = the harness's own edge set: error iff it has a cycle (Kahn), otherwise result is a permutation of the input sources with every edge u<v respected; the three runs must agree exactly. Distinct = distinct (edge set, rendered texts, input order); cases without any edge count as trivial. The oracle does not depend on the names: the name families only change the rendered Source/Binary/Build-Depends texts",
		"evaluations":         evals,
		"distinct_nontrivial": len(distinct),
		"exhaustive":          false,
		"samples":             samples,
		"failures":            failures,
	}
	json.NewEncoder(os.Stdout).Encode(out)
}
