package main

// C18: every text parser returns normally on arbitrary bytes - a value or an error, never a usable value together
// with an error, no panic, no hang - and its outcome is a function of the input alone (repeated and concurrent calls).
// Bounded stand-in: per entry point all short byte strings over a parser-specific alphabet plus all single-byte
// mutations and truncations of valid seed documents, each parsed twice by one of 16 workers; the seeds again from 64
// goroutines at once; in the thorough tier the concurrent part once more under the race detector.

import (
	"bufio"
	"bytes"
	"encoding/json"
	"fmt"
	"io"
	"os"
	"os/exec"
	"path/filepath"
	"reflect"
	"strings"
	"sync"
	"time"

	"pault.ag/go/debian/changelog"
	"pault.ag/go/debian/control"
	"pault.ag/go/debian/dependency"
	"pault.ag/go/debian/version"
)

// ---- entry points ----------------------------------------------------------------------------------------

type outcome struct {
	val    interface{} // what was returned (for Next: the list of steps)
	err    string
	failed bool   // err != nil
	both   string // non-empty: a usable value came together with an error (or another protocol violation)
}

// usable: a non-nil pointer, a non-empty slice or map, a non-zero struct.
func usable(v interface{}) bool {
	r := reflect.ValueOf(v)
	switch r.Kind() {
	case reflect.Invalid:
		return false
	case reflect.Ptr, reflect.Interface:
		return !r.IsNil()
	case reflect.Slice, reflect.Map:
		return r.Len() > 0
	}
	return !r.IsZero()
}

func res(v interface{}, err error) outcome {
	o := outcome{val: v}
	if err != nil {
		o.err, o.failed = err.Error(), true
		if usable(v) {
			o.both = fmt.Sprintf("error %q together with the usable value %s", err, render(v))
		}
	}
	return o
}

func render(v interface{}) string { return clip(fmt.Sprintf("%+v", v), 300) }

// deep renders a value with everything it points to (to notice results that share memory with later calls).
func deep(v interface{}) string {
	b, err := json.Marshal(v)
	if err != nil {
		return fmt.Sprintf("%+v", v)
	}
	return string(b)
}

func clip(s string, n int) string {
	if len(s) > n {
		s = s[:n] + "..."
	}
	return s
}

type step struct { // one call of Next
	P   *control.Paragraph
	Err string
}

func (s step) String() string {
	if s.P == nil {
		return "(nil, " + s.Err + ")"
	}
	return fmt.Sprintf("(&%+v, %s)", *s.P, s.Err)
}

type entry struct {
	name  string
	alpha string // alphabet of the exhaustive part
	seeds []string
	run   func(in []byte) outcome
}

func rd(in []byte) *bufio.Reader { return bufio.NewReader(bytes.NewReader(in)) }

const controlAlpha = "aA: \t\n\r#.-\x00\xff"

var entries = []entry{
	{"version.Parse", "01a:-~.+ \n\x00\xff", versionSeeds, func(in []byte) outcome { return res(version.Parse(string(in))) }},
	{"dependency.ParseArch", "anyl- \t\n!\x00\xff", archSeeds, func(in []byte) outcome { return res(dependency.ParseArch(string(in))) }},
	{"dependency.ParseArchitectures", "anyl- \t\n!\x00\xff", archListSeeds, func(in []byte) outcome { return res(dependency.ParseArchitectures(string(in))) }},
	{"dependency.Parse", "a1 ,|()[]<>!${}:=\t\n\x00\xff", dependencySeeds, func(in []byte) outcome { return res(dependency.Parse(string(in))) }},
	{"ParagraphReader.All", controlAlpha, controlSeeds, func(in []byte) outcome {
		pr, err := control.NewParagraphReader(bytes.NewReader(in), nil)
		if err != nil || pr == nil {
			return res(pr, err)
		}
		return res(pr.All())
	}},
	{"ParagraphReader.Next", controlAlpha, controlSeeds, func(in []byte) outcome {
		pr, err := control.NewParagraphReader(bytes.NewReader(in), nil)
		if err != nil || pr == nil {
			return res(pr, err)
		}
		var steps []step
		o := outcome{}
		for { // Next until it reports an error (io.EOF at the end); every paragraph consumes at least two bytes
			p, err := pr.Next()
			if r := res(p, err); r.both != "" && o.both == "" {
				o.both = fmt.Sprintf("call %d of Next: %s", len(steps)+1, r.both)
			}
			if err != nil {
				steps = append(steps, step{p, err.Error()})
				if err != io.EOF {
					o.err, o.failed = err.Error(), true
				}
				break
			}
			steps = append(steps, step{p, ""})
			if len(steps) > len(in)+2 {
				o.both = fmt.Sprintf("Next returned %d paragraphs from %d bytes without reaching io.EOF", len(steps), len(in))
				break
			}
		}
		o.val = steps
		return o
	}},
	{"control.ParseDsc", controlAlpha, controlSeeds, func(in []byte) outcome { return res(control.ParseDsc(rd(in), "/x/y.dsc")) }},
	{"control.ParseChanges", controlAlpha, controlSeeds, func(in []byte) outcome { return res(control.ParseChanges(rd(in), "/x/y.changes")) }},
	{"control.ParseControl", controlAlpha, controlSeeds, func(in []byte) outcome { return res(control.ParseControl(rd(in), "/x/control")) }},
	{"control.ParseBinaryIndex", controlAlpha, controlSeeds, func(in []byte) outcome { return res(control.ParseBinaryIndex(rd(in))) }},
	{"control.ParseSourceIndex", controlAlpha, controlSeeds, func(in []byte) outcome { return res(control.ParseSourceIndex(rd(in))) }},
	{"changelog.Parse", "a1 ();=,-\n:\t\x00\xff", changelogSeeds, func(in []byte) outcome { return res(changelog.Parse(bytes.NewReader(in))) }},
	{"changelog.ParseOne", "a1 ();=,-\n:\t\x00\xff", changelogSeeds, func(in []byte) outcome { return res(changelog.ParseOne(rd(in))) }},
}

// ---- cases -------------------------------------------------------------------------------------------------

var substitutes = []byte{0x00, '\n', ':', ' ', 0xff}

// mutants: every deletion, duplication and substitution of one byte, every truncation; without repetitions and
// without the strings of the exhaustive part.
func mutants(e *entry, maxLen int) (out []mutant) {
	seen := map[string]bool{}
	for k, s := range e.seeds {
		add := func(op string, i int, m string) {
			if !seen[m] && !(len(m) <= maxLen && strings.Trim(m, e.alpha) == "") {
				seen[m] = true
				out = append(out, mutant{fmt.Sprintf("seed%d:%s@%d", k, op, i), m})
			}
		}
		add("whole", 0, s)
		for i := 0; i < len(s); i++ {
			add("cut", i, s[:i])
			add("del", i, s[:i]+s[i+1:])
			add("dup", i, s[:i+1]+s[i:])
			for _, c := range substitutes {
				add(fmt.Sprintf("sub%02x", c), i, s[:i]+string([]byte{c})+s[i+1:])
			}
		}
	}
	return
}

type mutant struct{ id, s string } // id: seed number, operation, byte offset

func nth(alpha string, i int64, n int) []byte { // the i-th string of length n
	b := make([]byte, n)
	for k := n - 1; k >= 0; k-- {
		b[k] = alpha[i%int64(len(alpha))]
		i /= int64(len(alpha))
	}
	return b
}

func same(a, b outcome) bool {
	return a.failed == b.failed && a.err == b.err && a.both == b.both && reflect.DeepEqual(a.val, b.val)
}

// one case: parse twice, compare, enforce value-xor-error.
func check(e *entry, id string, in []byte, t *tally) outcome {
	keepIn := append([]byte{}, in...)
	first := e.run(in)
	snapshot := deep(first.val)
	second := e.run(in)
	if deep(first.val) != snapshot {
		failKey("aliased/"+e.name, id, string(in), fmt.Sprintf("the value returned by the first call changed during the second call: from %s to %s", clip(snapshot, 300), clip(deep(first.val), 300)))
	}
	t.evals += 2
	t.cases++
	if first.failed {
		t.errors++
	} else {
		t.values++
	}
	if !bytes.Equal(in, keepIn) {
		failKey("input-modified/"+e.name, id, string(keepIn), "the parser wrote into its input")
	}
	if first.both != "" {
		failKey("value-and-error/"+e.name, id, string(in), first.both)
	}
	if !same(first, second) {
		failKey("unstable/"+e.name, id, string(in), fmt.Sprintf("first call: %s, error %q; second call: %s, error %q", render(first.val), first.err, render(second.val), second.err))
	}
	if wanted(e.name + id) {
		s := map[string]interface{}{"entry": e.name, "case": id, "input": clip(string(in), 160)}
		if first.failed {
			s["error"] = first.err
		} else {
			s["value"] = render(first.val)
		}
		keep(fmt.Sprint(e.name, first.failed), e.name+id, s)
	}
	return first
}

// enumerate runs the exhaustive part and the mutants of every entry point through the 16 workers.
func enumerate(length func(e *entry) int, withMutants bool) (nMut int64) {
	for k := range entries {
		e := &entries[k]
		maxLen := length(e)
		size := int64(1)
		for n := 0; n <= maxLen; n++ {
			n := n
			sweep(size, func(i int64) string { return fmt.Sprintf("%s(%q)", e.name, nth(e.alpha, i, n)) },
				func(i int64, t *tally) { in := nth(e.alpha, i, n); check(e, fmt.Sprintf("%q", in), in, t) })
			size *= int64(len(e.alpha))
		}
		if withMutants {
			m := mutants(e, maxLen)
			nMut += int64(len(m))
			sweep(int64(len(m)), func(i int64) string { return fmt.Sprintf("%s(%s) %q", e.name, m[i].id, m[i].s) },
				func(i int64, t *tally) { check(e, m[i].id, []byte(m[i].s), t) })
		}
	}
	return
}

// together parses every seed of every entry point from 64 goroutines at once and compares with the sequential outcome.
func together() (n int64) {
	type job struct {
		e      *entry
		id, in string
		want   outcome
	}
	var jobs []job
	var t tally
	for k := range entries {
		for i, s := range entries[k].seeds {
			id := fmt.Sprintf("seed%d", i)
			jobs = append(jobs, job{&entries[k], id, s, check(&entries[k], id, []byte(s), &t)})
		}
	}
	const goroutines = 64
	finished := make(chan bool)
	go func() {
		var wg sync.WaitGroup
		start := make(chan bool)
		for g := 0; g < goroutines; g++ {
			wg.Add(1)
			go func(g int) {
				defer wg.Done()
				<-start
				for k := range jobs {
					j := jobs[(k+g*13)%len(jobs)] // every goroutine starts somewhere else
					id := j.id
					guard(j.e.name+"("+id+")", func() {
						if got := j.e.run([]byte(j.in)); !same(got, j.want) {
							failKey("concurrent/"+j.e.name, id, j.in, fmt.Sprintf("goroutine %d of %d: %s, error %q; sequentially: %s, error %q",
								g, goroutines, render(got.val), got.err, render(j.want.val), j.want.err))
						}
					})
				}
			}(g)
		}
		close(start)
		wg.Wait()
		close(finished)
	}()
	select {
	case <-finished:
	case <-time.After(120 * time.Second):
		fail("hang", "concurrent part", "64 goroutines parsing the seed documents have not finished after 120 s")
	}
	mu.Lock()
	total.add(&t)
	total.evals += goroutines * int64(len(jobs))
	mu.Unlock()
	return goroutines * int64(len(jobs))
}

func main() {
	if os.Getenv("C18_MODE") == "race" { // built with -race by race.sh or by the thorough tier: concurrency part only
		enumerate(func(*entry) int { return 2 }, true)
		together()
		for class, n := range counts { // value-and-error is the business of the normal run
			if !strings.HasPrefix(class, "value-and-error/") {
				fmt.Println("RACE-RUN-FAILURES", class, n, byClass[class][0].Key, byClass[class][0].What)
			}
		}
		fmt.Printf("RACE-OK evaluations=%d\n", total.evals) // the race runtime makes the exit status 66 if it saw a race
		return
	}
	length := func(e *entry) int { // quick: 4; thorough: 6, and 5 for the 22-byte alphabet of dependency.Parse
		switch {
		case !thorough:
			return 4
		case len(e.alpha) > 15:
			return 5
		}
		return 6
	}
	nMut := enumerate(length, true)
	nTogether := together()
	race := "race detector: not used in this tier (see race.sh)"
	if thorough {
		race = raceRun()
	}
	var alphas []string
	nSeeds := 0
	for _, e := range entries {
		alphas = append(alphas, fmt.Sprintf("%s 0..%d over %q", e.name, length(&e), e.alpha))
		nSeeds += len(e.seeds)
	}
	evaluations, distinct = total.evals, total.cases
	emit(fmt.Sprintf("13 entry points; for each all byte strings up to a length over its alphabet (%s) and the %d distinct mutants of its "+
		"seed documents (%d seeds in all: every deletion, duplication and substitution by 0x00, '\\n', ':', ' ', 0xff of one byte, "+
		"every truncation; the 7 control documents - dsc, clear-signed dsc, changes, debian/control, Packages, Sources, free-form - go to "+
		"all 7 control entry points); %d concurrent parses of the seeds (64 goroutines x %d seed cases); %s",
		strings.Join(alphas, "; "), nMut, nSeeds, nTogether, nSeeds, race),
		fmt.Sprintf("exhaustive enumeration in index order by %d worker goroutines sharing only the index counter; every input is parsed twice "+
			"in a row: both calls must return (panic = failure, 5 s without result = hang), agree (reflect.DeepEqual on the values, equal "+
			"error text), the first value must not change during the second call (JSON rendering before and after) and they must never give err != nil together with a non-nil pointer, non-empty slice or non-zero struct; ParagraphReader.Next "+
			"is called until it fails and must reach io.EOF within len(input)+2 calls; the input bytes must be left unchanged; the seeds "+
			"are then parsed by 64 goroutines at once and compared with the sequential outcome. evaluations = parser calls; "+
			"distinct_nontrivial = distinct (entry point, input) cases, of which %d returned a value and %d an error",
			workerCount, total.values, total.errors), true)
}

// raceRun builds this harness with -race in a scratch directory and runs its concurrency part.
func raceRun() string {
	repo := os.Getenv("REPO")
	src, _ := filepath.Glob("*.go")
	if repo == "" || len(src) == 0 {
		return "race detector: not used (REPO unset or harness sources not in the working directory)"
	}
	tmp, err := os.MkdirTemp("", "c18-race-")
	if err != nil {
		return "race detector: not used (" + err.Error() + ")"
	}
	defer os.RemoveAll(tmp)
	for _, f := range append(src, filepath.Join(repo, "go.sum")) {
		b, _ := os.ReadFile(f)
		os.WriteFile(filepath.Join(tmp, filepath.Base(f)), b, 0o644)
	}
	os.WriteFile(filepath.Join(tmp, "go.mod"), []byte("module boundedharness\n\ngo 1.19\n\nrequire pault.ag/go/debian v0.0.0\n\nreplace pault.ag/go/debian => "+repo+"\n"), 0o644)
	build := exec.Command("go", "build", "-race", "-o", "race.bin", ".")
	build.Dir = tmp
	if out, err := build.CombinedOutput(); err != nil {
		return "race detector: not used (go build -race fails: " + strings.TrimSpace(string(out)) + ")"
	}
	run := exec.Command(filepath.Join(tmp, "race.bin"))
	run.Dir = tmp
	run.Env = append(os.Environ(), "C18_MODE=race")
	out, err := run.CombinedOutput()
	text, summary := string(out), "no RACE-OK line"
	if i := strings.LastIndex(text, "RACE-OK"); i >= 0 {
		summary = strings.TrimSpace(text[i:])
	}
	switch {
	case strings.Contains(text, "DATA RACE"):
		fail("race", "concurrency part under -race", clip(text, 3000))
	case err != nil || summary == "no RACE-OK line":
		fail("race-run", "concurrency part under -race", fmt.Sprintf("the -race build did not finish: %v: %s", err, clip(text, 3000)))
	case strings.Contains(text, "RACE-RUN-FAILURES"):
		fail("race-run", "concurrency part under -race", "failures under the -race build: "+clip(text, 3000))
	}
	return "race detector: USED (go build -race; strings of length 0..2, all mutants and the 64-goroutine part rerun): " + summary
}
