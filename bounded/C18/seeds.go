package main

// Valid seed documents of every parser; the harness mutates them byte by byte.

var versionSeeds = []string{"1.0", "1:2.3~rc1-4", "0:1.0+b1-0ubuntu1", " 1.2.3-1 ", "2.718281828-1", "1-2-3", "9223372036854775807:1a"}

var archSeeds = []string{"amd64", "any", "all", "linux-any", "kfreebsd-amd64", "gnu-linux-amd64", "any-i386"}

var archListSeeds = []string{"amd64 i386", "any", "linux-any kfreebsd-any all", " amd64\ti386\n", "gnu-linux-amd64 any-any-any", "all  source"}

var dependencySeeds = []string{
	"foo",
	"foo, bar | baz",
	"foo (>= 1.0~rc1-1) [amd64 !i386] <!stage1 cross>",
	"foo:any (<< 2:1.0), ${shlibs:Depends}, ${misc:Depends}",
	"libc6 (>= 2.14) | libc6.1 [!linux-any], zlib1g (= 1:1.2.3.4)",
	"a [linux-any] <a b> <!c>",
	"foo\n ,\tbar (>> 1)",
	"debhelper (>= 9), r-base-dev (>= 3.2.0), cdbs",
}

const dscSeed = `Format: 3.0 (quilt)
Source: fbautostart
Binary: fbautostart, fbautostart-dbg
Architecture: any all
Version: 1:2.718281828-1
Maintainer: Paul Tagliamonte <paultag@ubuntu.com>
Uploaders: A B <a@b.c>, C D <c@d.e>
Homepage: https://launchpad.net/fbautostart
Standards-Version: 3.9.3
Build-Depends: debhelper (>= 9), libfoo-dev [linux-any] <!nocheck>
Package-List:
 fbautostart deb misc optional arch=any
Checksums-Sha1:
 bc36310c15edc9acf48f0a1daf548bcc6f861372 92748 fbautostart_2.718281828.orig.tar.gz
Checksums-Sha256:
 bb2fdfd4a38505905222ee02d8236a594bdf6eaefca23462294cacda631745c1 92748 fbautostart_2.718281828.orig.tar.gz
Files:
 06495f9b23b1c9b1bf35c2346cb48f63 92748 fbautostart_2.718281828.orig.tar.gz
 f58c0e0bf4d56461e776232484c07301 2356 fbautostart_2.718281828-1.debian.tar.xz
`

// clear-signed (the signature is not checked without a keyring, only the armour is read)
const signedSeed = `-----BEGIN PGP SIGNED MESSAGE-----
Hash: SHA256

Format: 1.0
Source: hy
Binary: hy
Architecture: source
Version: 0.11.0-4
Maintainer: T G <t@debian.org>
- --dashed: value
Files:
 42d61a06f37db6f2d2fc6c35b2d4e683 2170 hy_0.11.0-4.dsc

-----BEGIN PGP SIGNATURE-----
Version: GnuPG v1

iQIcBAEBCgAGBQJWSrgkAAoJEANqnCW/NX3UEjQP/ikiMZWvhco6jz9ObT/Q1FbK
/FevdZ9cGw/0bCyun86t
=dtCZ
-----END PGP SIGNATURE-----
`

const changesSeed = `Format: 1.8
Date: Mon, 16 Nov 2015 21:15:55 -0800
Source: hy
Binary: hy python-hy
Architecture: source amd64
Version: 0.11.0-4
Distribution: unstable
Urgency: medium
Maintainer: Tianon Gravi <tianon@debian.org>
Changed-By: Tianon Gravi <tianon@debian.org>
Description:
 hy         - Lisp frontend to Python (metapackage)
Closes: 805204 805205
Changes:
 hy (0.11.0-4) unstable; urgency=medium
 .
   * Fix FTBFS (Closes: #805204).
Checksums-Sha1:
 cbb00b96ba8ad4f27f8f6f6ceb626f0857c1d985 2170 hy_0.11.0-4.dsc
Checksums-Sha256:
 2c91c414f8c7a0556372c94301b8786801a05b29aafeceb2e308e037d47d5ddc 2170 hy_0.11.0-4.dsc
Files:
 42d61a06f37db6f2d2fc6c35b2d4e683 2170 python optional hy_0.11.0-4.dsc
 aa8bfae41ef33a85e0f08f21e0a5e67b 7536 python optional hy_0.11.0-4.debian.tar.xz
`

const controlSeed = `Source: fbautostart
Section: misc
Priority: optional
Maintainer: Paul Tagliamonte <paultag@ubuntu.com>
Uploaders: A B <a@b.c>,
 C D <c@d.e>
Build-Depends: debhelper (>= 9), foo [!amd64] | bar
Standards-Version: 3.9.3

# a comment
Package: fbautostart
Architecture: any
Essential: yes
Depends: ${shlibs:Depends}, ${misc:Depends}
Description: XDG compliant autostarting app for Fluxbox
 The fbautostart app was designed to have little to no overhead.
 .
 This package contains support for GNOME and KDE.

Package: fbautostart-doc
Architecture: all
Breaks: fbautostart (<< 2)
Description: documentation
`

const binaryIndexSeed = `Package: android-tools-fastboot
Source: android-tools (4.2.2)
Version: 4.2.2+git20130529-5.1
Installed-Size: 184
Maintainer: Android tools Maintainer <android-tools-devel@lists.alioth.debian.org>
Architecture: amd64
Multi-Arch: foreign
Depends: libc6 (>= 2.14), zlib1g (>= 1:1.2.3.4)
Description: Android Fastboot protocol CLI tool
Tag: devel::debugger, role::program
Section: devel
Priority: extra
Filename: pool/main/a/android-tools/android-tools-fastboot_4.2.2+git20130529-5.1_amd64.deb
Size: 56272
MD5sum: cd858b3257b250747822ebeea6c69f4a
SHA256: c094b7e53eb030957cdfab865f68c817d65bf6a1345b10d2982af38d042c3e84

Package: androidsdk-ddms
Version: 22.2+git20130830~92d25d6-1
Installed-Size: 211
Architecture: all
Build-Ids: 0123 4567
Size: 132048
`

const sourceIndexSeed = `Package: fbasics
Binary: r-cran-fbasics
Version: 3011.87-2
Maintainer: Dirk Eddelbuettel <edd@debian.org>
Build-Depends: debhelper (>= 7.0.0), r-base-dev (>= 3.2.0), cdbs
Architecture: any
Standards-Version: 3.9.6
Format: 1.0
Files:
 8bb6eda1e01be26c5446d21c64420e7f 1818 fbasics_3011.87-2.dsc
Checksums-Sha256:
 0a4f8cc793903e366a84379a651bf1a4542d50823b4bd4e038efcdb85a1af95e 1818 fbasics_3011.87-2.dsc
Directory: pool/main/f/fbasics

Package: fbautostart
Binary: fbautostart
Version: 2.718281828-1
Architecture: any all
Files:
 9d610c30f96623cff07bd880e5cca12f 1899 fbautostart_2.718281828-1.dsc
`

const plainSeed = "Key: value\r\nOther:\n continued\n\t.\n .\n# comment\nLast : x:y\n\n\nSecond: paragraph\n"

var controlSeeds = []string{dscSeed, signedSeed, changesSeed, controlSeed, binaryIndexSeed, sourceIndexSeed, plainSeed}

var changelogSeeds = []string{
	`hello (2.10-1) unstable; urgency=low

  * New upstream release.
  * Another change

 -- Santiago Vila <sanvila@debian.org>  Sun, 22 Mar 2015 11:56:00 +0100

hello (2.9-2) unstable testing; urgency=low, binary-only=yes

  * Apply patch from Reuben Thomas to fix typos (Closes: #767172).

 -- Santiago Vila <sanvila@debian.org>  Thu, 06 Nov 2014 12:03:40 +0100
`,
	"a (1) x; u=l\n\n  * c\n\n -- A <a@b>  Mon, 02 Jan 2006 15:04:05 -0700\n",
	"\n\nlibfoo2.0 (1:2.3~rc1-4) experimental; urgency=medium\n  * no blank lines\n -- B C <b@c.d>  Tue, 03 Jan 2006 00:00:00 +0000",
	"x+y-z (0.5) unstable; urgency=high\n\n  * change with sub-items:\n    - item one\n\n  [ Someone ]\n  * other\n\n -- X <x@y.z>  Wed, 31 Dec 2014 23:59:59 +0530\n\n",
	"p (1-1) d; k=v\r\n\r\n  * crlf\r\n\r\n -- N <n@m>  Fri, 13 Feb 2009 23:31:30 +0000\r\n",
}
