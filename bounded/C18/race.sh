#!/bin/sh
# Runs the concurrency part of the C18 harness (16 workers on short strings and all seed mutants, then 64 goroutines
# on the seed documents) under the Go race detector. usage: race.sh [repo]   (default /repo)
# Prints RACE-OK, or the race report / the failures.
export GOFLAGS=-mod=mod GOPROXY=off GOSUMDB=off GOTOOLCHAIN=local
repo=${1:-/repo}
here=$(cd "$(dirname "$0")" && pwd)
tmp=$(mktemp -d /tmp/c18-race-XXXXXX)
trap 'rm -rf "$tmp"' EXIT
cp "$here"/*.go "$tmp"/ && cp "$repo/go.sum" "$tmp"/ || exit 2
printf 'module boundedharness\n\ngo 1.19\n\nrequire pault.ag/go/debian v0.0.0\n\nreplace pault.ag/go/debian => %s\n' "$repo" > "$tmp/go.mod"
cd "$tmp" || exit 2
C18_MODE=race REPO=$repo go run -race . > out.txt 2>&1
rc=$?
if [ $rc -eq 0 ] && grep -q '^RACE-OK' out.txt && ! grep -q -e 'DATA RACE' -e 'RACE-RUN-FAILURES' out.txt; then
	grep '^RACE-OK' out.txt
	exit 0
fi
cat out.txt
echo "RACE-FAILED (exit status $rc)"
exit 1
