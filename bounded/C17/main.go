// Bounded stand-in for C17: changelog.Parse / ParseOne return exactly the entries written in a dpkg changelog;
// truncated or malformed input gives an error or all entries, never a silently shortened list.
package main

import (
	"bufio"
	"encoding/json"
	"fmt"
	"io"
	"math/rand"
	"os"
	"runtime"
	"sort"
	"strconv"
	"strings"
	"sync"
	"time"

	"pault.ag/go/debian/changelog"
)

// ---- model ----

type entry struct {
	Source, Version, Dists string
	Options                [][2]string
	Body                   []string // verbatim change lines (without the surrounding blank lines)
	Maint                  string
	When                   time.Time
	Zone                   string
}

type model struct {
	Entries []entry
	Blank   []int // blank lines between entry i and i+1 (1..2)
	FinalNL bool
}

var (
	sources = []string{"hello", "libfoo2.0", "x+y-z"}
	vers    = []string{"1.0-1", "2:1.2~rc1-3", "0.5"}
	maints  = []string{"A B <a@b>", "Jane Q. Doe <jane@example.org>", "X -- Y <x--y@y.z>"}
	dists   = []string{"unstable", "unstable testing"}
	opts    = [][][2]string{{{"urgency", "low"}}, {{"urgency", "medium"}, {"binary-only", "yes"}, {"x-origin", "vendor=acme"}}}
	bodies  = [][]string{
		{"  * change"},
		{"  * first change", "", "  * second change", "  ", "  * third change after an indentation-only line"},
		{"  * change with sub-items:", "    - item one", "    - item two"},
	}
	zones = []string{"+0000", "-0700"}
)

func zoneOffset(z string) int {
	h, _ := strconv.Atoi(z[1:3])
	m, _ := strconv.Atoi(z[3:5])
	s := h*3600 + m*60
	if z[0] == '-' {
		s = -s
	}
	return s
}

// the k-th entry of a changelog with per-entry choice c in 0..23
func mkEntry(k, c int) entry {
	z := zones[c%2]
	when := time.Date(2006+k, time.Month(1+5*k), 2+11*k, 15-k, 4+k, 5*k, 0, time.FixedZone("", zoneOffset(z)))
	return entry{sources[k], vers[k], dists[(c/2)%2], opts[(c/4)%2], bodies[c/8], maints[k], when, z}
}

var wd = []string{"Sun", "Mon", "Tue", "Wed", "Thu", "Fri", "Sat"}
var mon = []string{"Jan", "Feb", "Mar", "Apr", "May", "Jun", "Jul", "Aug", "Sep", "Oct", "Nov", "Dec"}

// own rendering of the date (RFC 5322 form used by dpkg), independent of package time's layouts
func date(e entry) string {
	t := e.When
	return fmt.Sprintf("%s, %02d %s %04d %02d:%02d:%02d %s", wd[t.Weekday()], t.Day(), mon[t.Month()-1], t.Year(), t.Hour(), t.Minute(), t.Second(), e.Zone)
}

func header(e entry) string {
	var o []string
	for _, kv := range e.Options {
		o = append(o, kv[0]+"="+kv[1])
	}
	return fmt.Sprintf("%s (%s) %s; %s", e.Source, e.Version, e.Dists, strings.Join(o, ", "))
}

func trailer(e entry) string { return " -- " + e.Maint + "  " + date(e) }

// render returns the text and, for each entry, the offset just after its trailer line (excluding the newline).
// mut, if non-nil, may rewrite the header/trailer of entry mutAt.
func render(m model, mutAt int, mut func(h, t string) (string, string)) (string, []int) {
	var b strings.Builder
	var ends []int
	for i, e := range m.Entries {
		h, t := header(e), trailer(e)
		if mut != nil && i == mutAt {
			h, t = mut(h, t)
		}
		b.WriteString(h + "\n\n" + strings.Join(e.Body, "\n") + "\n\n" + t)
		ends = append(ends, b.Len())
		if i < len(m.Entries)-1 {
			b.WriteString("\n" + strings.Repeat("\n", m.Blank[i]))
		} else if m.FinalNL {
			b.WriteString("\n")
		}
	}
	return b.String(), ends
}

// ---- bookkeeping ----

type failure struct {
	Key   string      `json:"key"`
	Input interface{} `json:"input"`
	What  string      `json:"what"`
}

var (
	mu       sync.Mutex
	failures []failure
	failKeys = map[string]bool{}
)

func fail(key string, input interface{}, what string) {
	mu.Lock()
	defer mu.Unlock()
	if failKeys[key] || len(failures) >= 20 {
		return
	}
	failKeys[key] = true
	failures = append(failures, failure{key, input, what})
}

// ---- running the code under test ----

func parseAll(text string) (es changelog.ChangelogEntries, err error, panicked interface{}) {
	defer func() { panicked = recover() }()
	es, err = changelog.Parse(strings.NewReader(text))
	return
}

// parseOneLoop: ParseOne until it reports an error; io.EOF is the regular end of input.
func parseOneLoop(text string) (es changelog.ChangelogEntries, err error, panicked interface{}) {
	defer func() { panicked = recover() }()
	r := bufio.NewReader(strings.NewReader(text))
	for i := 0; i < 10; i++ {
		e, err := changelog.ParseOne(r)
		if err == io.EOF {
			return es, nil, nil
		}
		if err != nil {
			return es, err, nil
		}
		if e == nil {
			return es, fmt.Errorf("ParseOne returned (nil, nil)"), nil
		}
		es = append(es, *e)
	}
	return es, fmt.Errorf("ParseOne keeps returning entries"), nil
}

var parsers = []struct {
	name string
	f    func(string) (changelog.ChangelogEntries, error, interface{})
}{{"Parse", parseAll}, {"ParseOne", parseOneLoop}}

// compare a parsed entry with the model; "" if equal
func diff(got changelog.ChangelogEntry, want entry) string {
	if got.Source != want.Source {
		return fmt.Sprintf("Source=%q, written %q", got.Source, want.Source)
	}
	if got.Version.String() != want.Version {
		return fmt.Sprintf("Version=%q, written %q", got.Version.String(), want.Version)
	}
	// epoch / upstream / revision from the text: epoch before the first ':', revision after the last '-'
	v, epoch, rev := want.Version, uint(0), ""
	if i := strings.Index(v, ":"); i >= 0 {
		n, _ := strconv.Atoi(v[:i])
		epoch, v = uint(n), v[i+1:]
	}
	if i := strings.LastIndex(v, "-"); i >= 0 {
		v, rev = v[:i], v[i+1:]
	}
	if got.Version.Epoch != epoch || got.Version.Version != v || got.Version.Revision != rev {
		return fmt.Sprintf("Version=%+v, written %q", got.Version, want.Version)
	}
	if got.Target != want.Dists {
		return fmt.Sprintf("Target=%q, written %q", got.Target, want.Dists)
	}
	if len(got.Arguments) != len(want.Options) {
		return fmt.Sprintf("Arguments=%v, written %v", got.Arguments, want.Options)
	}
	for _, kv := range want.Options {
		if v, ok := got.Arguments[kv[0]]; !ok || v != kv[1] {
			return fmt.Sprintf("Arguments=%v, written %v", got.Arguments, want.Options)
		}
	}
	// verbatim change text; the blank lines that separate it from header and trailer may or may not be included
	if strings.Trim(got.Changelog, "\n") != strings.Join(want.Body, "\n") {
		return fmt.Sprintf("Changelog=%q, written %q", got.Changelog, strings.Join(want.Body, "\n"))
	}
	if got.ChangedBy != want.Maint {
		return fmt.Sprintf("ChangedBy=%q, written %q", got.ChangedBy, want.Maint)
	}
	if !got.When.Equal(want.When) {
		return fmt.Sprintf("When=%v, written %s", got.When, date(want))
	}
	if _, off := got.When.Zone(); off != zoneOffset(want.Zone) {
		return fmt.Sprintf("When zone offset=%d s, written %s", off, want.Zone)
	}
	return ""
}

type counters struct{ evals, distinct int }

// full model check
func checkModel(m model, text string, c *counters) {
	for _, p := range parsers {
		c.evals++
		es, err, pan := p.f(text)
		in := map[string]interface{}{"text": text, "parser": p.name}
		switch {
		case pan != nil:
			fail("model-panic-"+p.name, in, fmt.Sprint("panic: ", pan))
		case err != nil:
			fail("model-error-"+p.name, in, "well-formed changelog rejected: "+err.Error())
		case len(es) != len(m.Entries):
			fail("model-count-"+p.name, in, fmt.Sprintf("%d entries returned, %d blocks written", len(es), len(m.Entries)))
		default:
			for i := range es {
				if d := diff(es[i], m.Entries[i]); d != "" {
					fail("model-field-"+p.name+"-"+strings.SplitN(d, "=", 2)[0], in, fmt.Sprintf("entry %d: %s", i, d))
				}
			}
		}
	}
}

func blank(s string) bool { return strings.Trim(s, " \t\r\n") == "" }

// every prefix text[:L] for from <= L <= len(text)
func checkPrefixes(m model, text string, ends []int, from int, c *counters) {
	for L := from; L <= len(text); L++ {
		prefix := text[:L]
		k := 0
		for k < len(ends) && ends[k] <= L {
			k++
		}
		start := 0
		if k > 0 {
			start = ends[k-1]
		}
		clean := blank(prefix[start:]) // nothing but blank text after the last complete entry
		started := k
		if !clean {
			started = k + 1
		}
		c.distinct++
		for _, p := range parsers {
			c.evals++
			es, err, pan := p.f(prefix)
			if pan != nil {
				fail("prefix-panic-"+p.name, map[string]interface{}{"text": prefix, "parser": p.name}, fmt.Sprint("panic: ", pan))
				continue
			}
			if err != nil {
				continue // an error is always an acceptable answer to truncated input
			}
			in := map[string]interface{}{"text": prefix, "parser": p.name, "cut_at": L, "of": len(text)}
			if !clean || len(es) != k {
				key := "prefix-count-" + p.name
				if len(es) < started {
					key = "prefix-silently-shortened-" + p.name
				}
				fail(key, in, fmt.Sprintf("err == nil with %d entries; the prefix holds %d complete entries and %d started blocks (expected an error, or exactly the complete entries when nothing else follows)", len(es), k, started))
				continue
			}
			for i := range es {
				if d := diff(es[i], m.Entries[i]); d != "" {
					fail("prefix-field-"+p.name+"-"+strings.SplitN(d, "=", 2)[0], in, fmt.Sprintf("entry %d: %s", i, d))
				}
			}
		}
	}
}

// malformed variants of one entry
var mutations = []struct {
	name string
	f    func(h, t string) (string, string)
}{
	{"trailer-single-space", func(h, t string) (string, string) { return h, strings.Replace(t, ">  ", "> ", 1) }},
	{"trailer-bad-weekday", func(h, t string) (string, string) {
		i := strings.Index(t, ">  ") + 3
		return h, t[:i] + "Xyz" + t[i+3:]
	}},
	{"trailer-bad-month", func(h, t string) (string, string) {
		i := strings.Index(t, ">  ") + 3 + 8
		return h, t[:i] + "Foo" + t[i+3:]
	}},
	{"trailer-no-date", func(h, t string) (string, string) { return h, t[:strings.Index(t, ">  ")+1] }},
	{"header-no-parens", func(h, t string) (string, string) {
		return strings.Replace(strings.Replace(h, "(", "", 1), ")", "", 1), t
	}},
}

func checkMalformed(m model, c *counters) {
	for at := range m.Entries {
		for _, mu := range mutations {
			text, _ := render(m, at, mu.f)
			c.distinct++
			for _, p := range parsers {
				c.evals++
				es, err, pan := p.f(text)
				in := map[string]interface{}{"text": text, "parser": p.name, "malformed_entry": at, "mutation": mu.name}
				if pan != nil {
					fail("malformed-panic-"+mu.name+"-"+p.name, in, fmt.Sprint("panic: ", pan))
				} else if err == nil && len(es) != len(m.Entries) {
					fail("malformed-"+mu.name+"-"+p.name, in, fmt.Sprintf("err == nil with %d entries for %d blocks (entry %d is malformed: %s)", len(es), len(m.Entries), at, mu.name))
				}
			}
		}
	}
}

type rendering struct {
	m    model
	text string
	ends []int
}

func lcp(a, b string) int {
	i := 0
	for i < len(a) && i < len(b) && a[i] == b[i] {
		i++
	}
	return i
}

func main() {
	tier := os.Getenv("TIER")
	seed, _ := strconv.ParseInt(os.Getenv("VERIF_SEED"), 10, 64)
	rng := rand.New(rand.NewSource(seed + 17))

	// all models
	var all []rendering
	for n := 1; n <= 3; n++ {
		choices := 1
		for i := 0; i < n; i++ {
			choices *= 24
		}
		for c := 0; c < choices; c++ {
			for bl := 0; bl < 1<<(n-1); bl++ {
				for nl := 0; nl < 2; nl++ {
					m := model{FinalNL: nl == 1}
					for k, cc := 0, c; k < n; k, cc = k+1, cc/24 {
						m.Entries = append(m.Entries, mkEntry(k, cc%24))
					}
					for k := 0; k < n-1; k++ {
						m.Blank = append(m.Blank, 1+(bl>>k)&1)
					}
					text, ends := render(m, -1, nil)
					all = append(all, rendering{m, text, ends})
				}
			}
		}
	}
	// renderings whose every prefix is tried: all for thorough; for quick all with <=2 entries and a seeded sample with 3
	limit3 := 10000
	var trunc []rendering
	var three []int
	for i, r := range all {
		if len(r.m.Entries) < 3 || tier == "thorough" {
			trunc = append(trunc, r)
		} else {
			three = append(three, i)
		}
	}
	if tier != "thorough" {
		rng.Shuffle(len(three), func(i, j int) { three[i], three[j] = three[j], three[i] })
		for _, i := range three[:limit3] {
			trunc = append(trunc, all[i])
		}
	}
	// sorted, so that a prefix shared with an earlier rendering is exactly one not longer than the common prefix with the predecessor
	sort.Slice(trunc, func(i, j int) bool { return trunc[i].text < trunc[j].text })

	workers := runtime.NumCPU()
	cs := make([]counters, 3*workers)
	var wg sync.WaitGroup
	run := func(slot, n int, f func(i int, c *counters)) {
		for w := 0; w < workers; w++ {
			wg.Add(1)
			go func(w int) {
				defer wg.Done()
				for i := w; i < n; i += workers {
					f(i, &cs[slot*workers+w])
				}
			}(w)
		}
		wg.Wait()
	}
	run(0, len(all), func(i int, c *counters) { c.distinct++; checkModel(all[i].m, all[i].text, c) })
	run(1, len(trunc), func(i int, c *counters) {
		from := 0
		if i > 0 {
			if trunc[i].text == trunc[i-1].text {
				return
			}
			from = lcp(trunc[i].text, trunc[i-1].text) + 1
		}
		checkPrefixes(trunc[i].m, trunc[i].text, trunc[i].ends, from, c)
	})
	run(2, len(trunc), func(i int, c *counters) { checkMalformed(trunc[i].m, c) })

	tot := make([]counters, 3)
	for i, c := range cs {
		tot[i/workers].evals += c.evals
		tot[i/workers].distinct += c.distinct
	}
	var samples []interface{}
	for _, i := range []int{0, 47, 48 + 5*4 + 2, 48 + 300*4 + 1, len(all) - 1} {
		samples = append(samples, map[string]interface{}{"kind": "model rendering", "text": all[i].text})
	}
	r := trunc[len(trunc)/2]
	samples = append(samples, map[string]interface{}{"kind": "prefix (cut inside the last trailer)", "text": r.text[:r.ends[len(r.ends)-1]-3]})
	mt, _ := render(all[50].m, 1, mutations[0].f)
	samples = append(samples, map[string]interface{}{"kind": "malformed: " + mutations[0].name + " in entry 1", "text": mt})
	mt, _ = render(all[50].m, 0, mutations[4].f)
	samples = append(samples, map[string]interface{}{"kind": "malformed: " + mutations[4].name + " in entry 0", "text": mt})

	mu.Lock()
	if failures == nil {
		failures = []failure{}
	}
	sel := "all of them"
	if tier != "thorough" {
		sel = fmt.Sprintf("all with <=2 entries and %d seeded samples with 3 entries", limit3)
	}
	out := map[string]interface{}{
		"bound": fmt.Sprintf("entry-list models: 1..3 entries x per entry {1 | 3 options, one value containing '='} (one maintainer containing '--') x {unstable | unstable testing} x 3 body shapes (one line; three lines around an empty line and an indentation-only line; indented sub-items) x zone {+0000,-0700}, "+
			"x blank-line runs 1..2 between entries x final newline present/absent = %d renderings, each parsed with Parse and with a ParseOne loop and compared field by field with the model; "+
			"every prefix (cut at every byte) of %d renderings (%s) = %d distinct prefixes; %d malformed variants (%d mutations: trailer with single space, bad weekday, bad month, no date, header without parentheses; applied to each entry position of those renderings)",
			len(all), len(trunc), sel, tot[1].distinct, tot[2].distinct, len(mutations)),
		"rule": "oracle = the model that was rendered (dates rendered by the harness, not by time.Format). Changelog text is compared after trimming the blank separator lines only. Prefix rule: err != nil is always fine; err == nil requires that the text after the last complete trailer line is blank and that exactly the complete entries are returned, equal to the model. " +
			"Malformed rule: err != nil or as many entries as blocks. Distinct = distinct input texts (prefixes are deduplicated through the sorted order: only prefixes longer than the common prefix with the predecessor are run); every input is non-trivial except the empty prefix. An evaluation is one parser run (2 per input).",
		"evaluations":         tot[0].evals + tot[1].evals + tot[2].evals,
		"distinct_nontrivial": tot[0].distinct + tot[1].distinct + tot[2].distinct - 1,
		"exhaustive":          tier == "thorough",
		"samples":             samples,
		"failures":            failures,
	}
	json.NewEncoder(os.Stdout).Encode(out)
}
