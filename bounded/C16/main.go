package main

// C16 (package deb): debsig verification covers the package content that was actually loaded.
// Bounded stand-in: small signed .deb files are built in memory (armodel.go, pgp.go), tampered with in every way of
// the stated domain and put through the real deb.Load + (*Deb).CheckDebsig with every keyring composition.

import (
	"bytes"
	"fmt"
	"io"
	"strings"
	"sync/atomic"

	"golang.org/x/crypto/openpgp"
	"pault.ag/go/debian/deb"
)

const (
	mustVerify = iota // succeeds exactly with a keyring holding the signer, and returns the signer
	mustFail          // Load or CheckDebsig fails with every keyring
	sigAltered        // fails, or the altered signature member is still a valid signature for the reference verifier
)

type tcase struct {
	class, id, desc string
	ms              []member // the archive: debian-binary, control.*, data.*, then the signature member unless moved
	role            string   // role asked for
	signer          string   // "A" or "B": who signed
	expect, loads   int
	m, o            int // class "corrupt": the byte o of member m is replaced by every value of `values`
}

var (
	keyA, keyB *openpgp.Entity
	rings      []keyring
	pkgs       = [][]member{debMembers("foo", true, true), debMembers("foo", false, true), debMembers("foo", true, false)}
	values     func(c byte) []byte // replacement values for the byte c
	stillValid int64
)

func sign(e *openpgp.Entity, ms []member) []byte {
	var sig bytes.Buffer
	if err := openpgp.DetachSign(&sig, e, bytes.NewReader(signedBytes(ms)), pgpConfig); err != nil {
		panic(err)
	}
	return sig.Bytes()
}

// signedBytes is what a debsig signature covers: the debian-binary, control.* and data.* contents, concatenated.
func signedBytes(ms []member) (b []byte) {
	for _, prefix := range []string{"debian-binary", "control.", "data."} {
		for _, m := range ms {
			if strings.HasPrefix(m.name, prefix) {
				b = append(b, m.data...)
			}
		}
	}
	return b
}

func with(ms []member, extra member, pos int) []member {
	return append(append(append([]member{}, ms[:pos]...), extra), ms[pos:]...)
}

func cases() (l []tcase) {
	step, phase := 7, int(uint64(seed)%7)
	if thorough {
		step, phase = 1, 0
	}
	for pi, p := range pkgs {
		for _, role := range []string{"origin", "maint"} {
			id := fmt.Sprintf("%s+%s/%s", p[1].name, p[2].name, role)
			add := func(class, sub, desc string, ms []member, ask, signer string, expect, loads int) {
				l = append(l, tcase{class: class, id: id + sub, desc: desc, ms: ms, role: ask, signer: signer, expect: expect, loads: loads})
			}
			signed := with(p, file("_gpg"+role, sign(keyA, p)), 3)
			add("positive", "", "signed by A as "+role, signed, role, "A", mustVerify, 1)
			add("positive", "/sig-second", "signed by A as "+role+", signature member right after debian-binary", with(p, signed[3], 1), role, "A", mustVerify, 1)
			add("positive", "/byB", "signed by B as "+role, with(p, file("_gpg"+role, sign(keyB, p)), 3), role, "B", mustVerify, 1)
			for _, other := range []string{"origin", "maint", "archive", ""} {
				if other != role {
					add("role", "/ask-"+other, fmt.Sprintf("signed by A as %s, role %q asked for", role, other), signed, other, "A", mustFail, 1)
				}
			}
			add("role", "/unsigned", "no signature member at all", p, role, "A", mustFail, 1)
			foreign := pkgs[(pi+1)%len(pkgs)]
			add("foreign-sig", "", "signature by A over another package "+names(foreign), with(p, file("_gpg"+role, sign(keyA, foreign)), 3), role, "A", mustFail, 1)
			for m := range signed { // single-byte corruption inside the three signed members and the signature member
				for o := phase; o < len(signed[m].data); o += step {
					expect := mustFail
					if m == 3 {
						expect = sigAltered
					}
					l = append(l, tcase{"corrupt", fmt.Sprintf("%s/%s+%d", id, signed[m].name, o), "", signed, role, "A", expect, 1, m, o})
				}
			}
			for m := 1; m <= 2; m++ { // a decoy second control.* / data.* member, before or after the real one
				kind := strings.SplitN(signed[m].name, ".", 2)[0]
				evil := tarball("./control", controlFile("evil"))
				if kind == "data" {
					evil = tarball("./evil", "evil\n")
				}
				for _, decoy := range []member{file(kind+".tar", evil), file(kind+".tar.gz", gz(evil)), file(kind+".tar.xz", []byte("other content"))} {
					for _, pos := range []int{m, m + 1} {
						if decoy.name != signed[m].name {
							add("decoy", fmt.Sprintf("/%s@%d", decoy.name, pos), fmt.Sprintf("decoy member %s inserted at position %d of %s", decoy.name, pos, names(signed)),
								with(signed, decoy, pos), role, "A", mustFail, 5)
						}
					}
				}
			}
		}
	}
	return l
}

// readPayload reads the first file of the package payload as the loader exposes it.
func readPayload(d *deb.Deb) string {
	h, err := d.Data.Next()
	if err != nil {
		return fmt.Sprintf("no file (%v)", err)
	}
	body, err := io.ReadAll(d.Data)
	if err != nil {
		return fmt.Sprintf("%s: %v", h.Name, err)
	}
	return fmt.Sprintf("%s %q", h.Name, body)
}

var signedPayload = fmt.Sprintf("%s %q", payloadPath, payload)

// check expands the case (a corruption case stands for every replacement value) and runs every variant.
func check(c tcase) {
	if c.class != "corrupt" {
		variant(c, c.id, c.desc, c.ms)
		return
	}
	old := c.ms[c.m].data[c.o]
	for _, v := range values(old) {
		ms := append([]member{}, c.ms...)
		ms[c.m].data = append([]byte{}, ms[c.m].data...)
		ms[c.m].data[c.o] = v
		variant(c, fmt.Sprintf("%s:=%02x", c.id, v), fmt.Sprintf("signed by A as %s, byte %d of member %s: %#02x -> %#02x", c.role, c.o, c.ms[c.m].name, old, v), ms)
	}
}

func variant(c tcase, cid, desc string, ms []member) {
	b := archive(ms, true)
	if first(b) {
		atomic.AddInt64(&distinct, 1)
	}
	want := map[string]*openpgp.Entity{"A": keyA, "B": keyB}[c.signer]
	in := func() interface{} { return blob(desc+"; members "+names(ms), b) }
	for _, k := range rings {
		for n := 0; n < c.loads; n++ {
			atomic.AddInt64(&evaluations, 1)
			id := cid + "/" + k.name
			bad := func(class, what string, args ...interface{}) { fail(class, id, in(), fmt.Sprintf(what, args...)) }
			d, err := deb.Load(bytes.NewReader(b), "x.deb")
			var who *openpgp.Entity
			if err == nil {
				defer d.Close()
				if d0, err := deb.Load(bytes.NewReader(b), "x.deb"); c.expect == mustVerify && err == nil { // what a load exposes without any signature check
					if got := readPayload(d0); d0.Control.Package != "foo" || got != signedPayload {
						bad("exposed", "loaded package exposes Package %q and payload %s, expected \"foo\" and %s", d0.Control.Package, got, signedPayload)
					}
					d0.Close()
				}
				who, err = d.CheckDebsig(k.list, c.role)
				if (err == nil) != (who != nil) {
					bad("value-xor-error", "CheckDebsig returns signer %v with error %v", who != nil, err)
				}
				if err == nil && c.expect == mustVerify { // again on the same Deb
					if _, err2 := d.CheckDebsig(k.list, c.role); err2 != nil {
						bad("rejects-valid", "second CheckDebsig(%s, %q) on the same Deb: %v", k.name, c.role, err2)
					}
				}
			}
			if n == 0 && (sampled(id, 900*uint64(len(values(0)))) || c.class != "corrupt" && sampled(id, 12)) {
				keep(c.class, id, map[string]interface{}{"id": id, "case": desc, "members": names(ms), "keyring": k.name, "role": c.role, "result": fmt.Sprint(err)})
			}
			if err != nil {
				if c.expect == mustVerify && strings.Contains(k.name, c.signer) {
					bad("rejects-valid", "valid signature by %s, keyring %s: %v", c.signer, k.name, err)
				}
				continue
			}
			got := "another key"
			if who != nil && who.PrimaryKey != nil && who.PrimaryKey.KeyId == want.PrimaryKey.KeyId {
				got = c.signer
			}
			switch {
			case !strings.Contains(k.name, c.signer):
				bad("unrelated-keyring", "verification succeeds (signer %s) with keyring %s, which does not hold the signing key %s", got, k.name, c.signer)
			case got != c.signer:
				bad("wrong-signer", "returned signer is %s, expected %s", got, c.signer)
			case c.expect == mustFail:
				bad("accepts-"+c.class, "Load and CheckDebsig(%s, %q) succeed, expected an error (%s)", k.name, c.role, desc)
			case c.expect == sigAltered: // only fine if the altered member still is a valid signature over the three signed members
				_, ref := openpgp.CheckDetachedSignature(k.list, bytes.NewReader(signedBytes(ms)), bytes.NewReader(ms[3].data))
				if ref != nil {
					bad("accepts-corrupt", "CheckDebsig succeeds although the reference verifier rejects the altered signature (%v)", ref)
				} else if atomic.AddInt64(&stillValid, 1); k.name == "{A}" {
					keep("altered signature that is still valid", id, map[string]interface{}{"id": id, "case": desc, "keyring": k.name, "result": "verifies, and the reference verifier accepts it as well",
						"signature": fmt.Sprintf("%x", ms[3].data)})
				}
			case c.expect == mustVerify: // the payload the caller reads after the check is still the signed one
				if got := readPayload(d); got != signedPayload {
					bad("payload-after-verify", "after the successful CheckDebsig(%s, %q) Deb.Data delivers %s, the signed payload is %s", k.name, c.role, got, signedPayload)
				}
			}
		}
	}
}

func main() {
	keyA, keyB = newKey("A"), newKey("B")
	rings = keyrings(keyA, keyB)
	values = func(c byte) []byte { return []byte{c ^ 1} }
	every := "every 7th offset (phase VERIF_SEED mod 7) XOR 0x01"
	if thorough {
		every = "every offset set to each of the 255 other byte values"
		values = func(c byte) (l []byte) {
			for v := 0; v < 256; v++ {
				if byte(v) != c {
					l = append(l, byte(v))
				}
			}
			return l
		}
	}
	l := cases()
	run(int64(len(l)), func(i int64) (string, interface{}) { return l[i].id, l[i].desc + " " + names(l[i].ms) }, func(i int64) {
		check(l[i])
		stat("cases "+l[i].class, 1)
	})
	stat("signature member altered, still a valid signature for the reference verifier (evaluations)", int(stillValid))
	emit(fmt.Sprintf("%d .deb files built in memory (control.tar.gz+data.tar.gz, control.tar+data.tar.gz, control.tar.gz+data.tar) x roles {origin, maint}, "+
		"signed with openpgp.DetachSign over debian-binary||control.*||data.* by a fresh 1024-bit RSA key A (also by B, and with the signature member "+
		"placed second); keyrings {A}, {B}, {A,B}, {} for every case; single-byte corruption: %s, inside debian-binary, control.*, data.* and "+
		"_gpg<role>; decoy second control.*/data.* member (stored tar with other content, its gzip, or junk named .tar.xz) directly before or after "+
		"the real one, each loaded 5 times; roles not present (the other role, archive, empty) and an unsigned package; a valid signature by A over "+
		"another package", len(pkgs), every),
		"every case is written out as an ar archive, loaded with deb.Load and checked with CheckDebsig(keyring, role). Success is allowed only when the "+
			"keyring holds the signing key, the returned entity has the signer's key id, and the case is not a tampered one. Positive cases: "+
			"Control.Package and the payload read from Deb.Data are the signed ones when read before the check, CheckDebsig succeeds again on the same "+
			"Deb, and Deb.Data still delivers the signed payload afterwards. A corrupted signature member may still verify only if "+
			"openpgp.CheckDetachedSignature, called by the harness on the untouched three members, accepts it too (encoding-only change). "+
			"evaluations = (archive, keyring, load) triples; distinct_nontrivial = distinct archive byte strings (64-bit hash set)", thorough)
}
