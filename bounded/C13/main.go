package main

// C13 (package deb): the ar reader returns every member of a well-formed archive with exact metadata and bytes.
// Bounded stand-in: every archive of a member-list model is written out by armodel.go and read with the real
// deb.LoadAr / (*Ar).Next; every field, the data of every member (read after the iteration finished, interleaved,
// and again after Seek) and the end of archive (exactly io.EOF, twice) are compared with the model.

import (
	"bytes"
	"fmt"
	"io"
	"strconv"
	"strings"
	"sync/atomic"

	"pault.ag/go/debian/deb"
)

var (
	nameSet = []string{"a", "debian-binary", "control.tar.gz", "sixteen-chars-xx", "with/"}
	sizeSet = []int{0, 1, 2, 3, 7, 8}
	fillSet = []string{"set", "blank"} // numeric columns: all set, or all blank (the size column too when it is 0)
	maxN    = 3
)

const pattern = "`\n\x00!<arch>\n\xff`\n 60 \n\n`" // member data is cut from this: "\n", "`", NUL, 0xff, a magic look-alike

type option struct {
	name       string
	size, fill int
}

var options []option

// build makes the j-th member of an archive from an option.
func build(o option, j int) member {
	data := make([]byte, o.size)
	for k := range data {
		data[k] = pattern[(5*j+k)%len(pattern)]
	}
	m := member{name: o.name, data: data, size: strconv.Itoa(o.size)}
	switch fillSet[o.fill] {
	case "set":
		m.mtime, m.uid, m.gid, m.mode = strconv.Itoa(1700000000+j), strconv.Itoa(1000+j), strconv.Itoa(100+j), []string{"100644", "100755", "40755", "644"}[j%4]
	case "blank":
		if o.size == 0 {
			m.size = ""
		}
	case "max":
		m.mtime, m.uid, m.gid, m.mode = "999999999999", "999999", "999999", "77777777"
	}
	return m
}

func num(s string) int64 { // a blank column reads as 0
	n, _ := strconv.ParseInt(s, 10, 64)
	return n
}

func decode(n int, idx int64) []member {
	ms := make([]member, n)
	for j := n - 1; j >= 0; j-- {
		ms[j] = build(options[idx%int64(len(options))], j)
		idx /= int64(len(options))
	}
	return ms
}

func check(id string, ms []member, padLast bool) {
	atomic.AddInt64(&evaluations, 1)
	b := archive(ms, padLast)
	if len(ms) > 0 && first(b) {
		atomic.AddInt64(&distinct, 1)
	}
	in := blob(fmt.Sprintf("members %s, last member padded: %v", names(ms), padLast), b)
	bad := func(class, what string, args ...interface{}) { fail(class, id, in, fmt.Sprintf(what, args...)) }

	ar, err := deb.LoadAr(bytes.NewReader(b))
	if err != nil || ar == nil {
		bad("load", "LoadAr fails on a well-formed archive: %v", err)
		return
	}
	got := []*deb.ArEntry{}
	for j := range ms {
		e, err := ar.Next()
		if err != nil || e == nil {
			bad("next", "Next() for member %d of %d returns (%v, %v), expected the member", j, len(ms), e, err)
			return
		}
		got = append(got, e)
	}
	for k := 0; k < 2; k++ {
		if e, err := ar.Next(); e != nil || err != io.EOF {
			bad("eof", "Next() number %d after the last member returns (%v, %v), expected (nil, io.EOF)", k+1, e, err)
		}
	}
	// everything below happens after the iterator has reached the end
	for j, e := range got {
		m := ms[j]
		want := fmt.Sprintf("%q ts=%d uid=%d gid=%d mode=%q size=%d", strings.TrimSuffix(m.name, "/"), num(m.mtime), num(m.uid), num(m.gid), m.mode, len(m.data))
		have := fmt.Sprintf("%q ts=%d uid=%d gid=%d mode=%q size=%d", e.Name, e.Timestamp, e.OwnerID, e.GroupID, e.FileMode, e.Size)
		if have != want {
			bad("fields", "member %d: got %s, expected %s", j, have, want)
		}
		if e.Data == nil {
			bad("data", "member %d has no reader", j)
			return
		}
		if e.Data.Size() != int64(len(m.data)) {
			bad("data", "member %d: reader size %d, expected %d", j, e.Data.Size(), len(m.data))
		}
	}
	heads := make([][]byte, len(got))
	for j := len(got) - 1; j >= 0; j-- { // interleaved: one byte of every member, last member first ...
		heads[j] = make([]byte, 1)
		n, _ := got[j].Data.Read(heads[j])
		heads[j] = heads[j][:n]
	}
	for j, e := range got { // ... then the rest of each, then all of it again after a rewind
		rest, err := io.ReadAll(e.Data)
		if all := append(heads[j], rest...); err != nil || !bytes.Equal(all, ms[j].data) {
			bad("data", "member %d read after the iteration: %q (%v), expected %q", j, all, err, ms[j].data)
		}
		pos, err := e.Data.Seek(0, io.SeekStart)
		again, err2 := io.ReadAll(e.Data)
		if pos != 0 || err != nil || err2 != nil || !bytes.Equal(again, ms[j].data) {
			bad("reread", "member %d after Seek(0,0)=(%d,%v): %q (%v), expected %q", j, pos, err, again, err2, ms[j].data)
		}
	}
	if sampled(id, 50000) || id == "0/0/pad" {
		s := map[string]interface{}{"id": id, "archive": strconv.Quote(string(b)), "returned": []string{}, "end": "io.EOF twice"}
		for _, e := range got {
			s["returned"] = append(s["returned"].([]string), fmt.Sprintf("%q ts=%d uid=%d gid=%d mode=%q size=%d", e.Name, e.Timestamp, e.OwnerID, e.GroupID, e.FileMode, e.Size))
		}
		keep(fmt.Sprint(len(ms), " members"), id, s)
	}
}

func main() {
	if thorough {
		sizeSet = append(sizeSet, 59, 60, 61)
		fillSet = append(fillSet, "max")
	}
	for _, n := range nameSet {
		for s := range sizeSet {
			for f := range fillSet {
				options = append(options, option{n, sizeSet[s], f})
			}
		}
	}
	total := int64(1)
	for n := 0; n <= maxN; n++ {
		n := n
		id := func(i int64) string { return fmt.Sprintf("%d/%d", n, i) }
		run(total, func(i int64) (string, interface{}) { return id(i), names(decode(n, i)) }, func(i int64) {
			ms := decode(n, i)
			check(id(i)+"/pad", ms, true)
			if n > 0 && len(ms[n-1].data)%2 == 1 { // an odd last member may also come without its padding byte
				check(id(i)+"/nopad", ms, false)
			}
		})
		total *= int64(len(options))
	}
	emit(fmt.Sprintf("all ar archives of 0..%d members, each member one of %d = %d names %q x %d sizes %v x numeric columns %v "+
		"(set: mtime/uid/gid/mode distinct per position; blank: all spaces, the size column too when the size is 0); data cut from a "+
		"fixed binary pattern containing \"\\n\", \"`\", NUL, 0xff and \"!<arch>\\n\"; an odd last member with and without its padding byte",
		maxN, len(options), len(nameSet), nameSet, len(sizeSet), sizeSet, fillSet),
		"exhaustive enumeration of the member-list model in index order; each archive is written by a model of the format and read "+
			"with deb.LoadAr/Next: member count and order, Name (padding and trailing '/' removed), Timestamp, OwnerID, GroupID, FileMode, "+
			"Size, then (nil, io.EOF) exactly, twice; after that the data of every member is read interleaved (first byte of each, last "+
			"member first, then the rest of each) and once more after Seek(0,0). distinct_nontrivial = distinct archive byte strings "+
			"(64-bit hash set) with at least one member", true)
}
