package main

// Shared plumbing of the bounded stand-ins C11/C13/C15/C16 (the same file is copied into each directory):
// parallel enumeration with panic capture and a 5 s per-case watchdog, failure/sample collection, distinct
// counting and the JSON report.

import (
	"encoding/hex"
	"encoding/json"
	"fmt"
	"hash/fnv"
	"os"
	"runtime"
	"runtime/debug"
	"sort"
	"strconv"
	"strings"
	"sync"
	"sync/atomic"
	"time"
)

type Failure struct {
	Key   string      `json:"key"`
	Input interface{} `json:"input"`
	What  string      `json:"what"`
}

type Report struct {
	Bound       string         `json:"bound"`
	Rule        string         `json:"rule"`
	Evaluations int64          `json:"evaluations"`
	Distinct    int64          `json:"distinct_nontrivial"`
	Exhaustive  bool           `json:"exhaustive"`
	Samples     []interface{}  `json:"samples"`
	Failures    []Failure      `json:"failures"`
	Counts      map[string]int `json:"failure_counts,omitempty"` // all failures per class, not only the listed ones
	Stats       map[string]int `json:"stats,omitempty"`          // measured side counts (cases per class, outcomes)
}

var (
	thorough    = os.Getenv("TIER") == "thorough"
	seed, _     = strconv.ParseInt(os.Getenv("VERIF_SEED"), 10, 64)
	evaluations int64 // cases executed
	distinct    int64 // distinct non-trivial cases (see the rule of each harness)
	mu          sync.Mutex
	byClass     = map[string][]Failure{} // per class: the few failing cases with the smallest id
	counts      = map[string]int{}
	reported    = map[string]bool{}
	stats       = map[string]int{}
	samples     = map[string][]sample{}
	seen        [256]struct {
		sync.Mutex
		m map[uint64]struct{}
	}
)

const (
	perClass = 3               // failures listed per class (the 20 slots then show as many classes as possible)
	caseTime = 5 * time.Second // a case that has not returned after this long is a hang
)

type sample struct {
	h uint64
	v interface{}
}

func hash(s string) uint64 {
	h := fnv.New64a()
	fmt.Fprintf(h, "%d|%s", seed, s)
	return h.Sum64()
}

func less(a, b string) bool { return len(a) < len(b) || len(a) == len(b) && a < b }

// fail records a violation of class `class` by the case `id`; the key class:id is stable between runs.
func fail(class, id string, input interface{}, what string) {
	mu.Lock()
	defer mu.Unlock()
	key := class + ":" + id
	if reported[key] { // one entry per key, however often the case trips over the same thing
		return
	}
	reported[key] = true
	counts[class]++
	l := byClass[class]
	if len(l) == perClass && !less(key, l[len(l)-1].Key) {
		return
	}
	l = append(l, Failure{key, input, what})
	sort.SliceStable(l, func(i, j int) bool { return less(l[i].Key, l[j].Key) })
	if len(l) > perClass {
		l = l[:perClass]
	}
	byClass[class] = l
}

func stat(name string, n int) {
	mu.Lock()
	stats[name] += n
	mu.Unlock()
}

// first reports whether these bytes are seen for the first time (distinct counting, by 64-bit hash).
func first(b []byte) bool {
	h := fnv.New64a()
	h.Write(b)
	k := h.Sum64()
	s := &seen[k&255]
	s.Lock()
	defer s.Unlock()
	if s.m == nil {
		s.m = map[uint64]struct{}{}
	}
	_, dup := s.m[k]
	s.m[k] = struct{}{}
	return !dup
}

// sampled tells cheaply whether the case may become a sample (one case in `oneIn` is offered).
func sampled(id string, oneIn uint64) bool { return hash(id)%oneIn == 0 }

// keep offers a case as a sample of its class; per class the 3 cases with the smallest seeded hash are kept, and
// the report shows up to 9 of them, taken from the classes in turn.
func keep(class, id string, v interface{}) {
	h := hash(id)
	mu.Lock()
	defer mu.Unlock()
	l := append(samples[class], sample{h, v})
	sort.Slice(l, func(i, j int) bool { return l[i].h < l[j].h })
	if len(l) > 3 {
		l = l[:3]
	}
	samples[class] = l
}

// blob writes a binary input out: quoted (readable headers) and in hex; long inputs are cut in the quoted form only.
func blob(desc string, b []byte) map[string]interface{} {
	m := map[string]interface{}{"desc": desc, "len": len(b)}
	if len(b) <= 4096 {
		m["hex"] = hex.EncodeToString(b)
	} else {
		m["hex_head"] = hex.EncodeToString(b[:4096])
	}
	if len(b) <= 400 {
		m["quoted"] = strconv.Quote(string(b))
	}
	return m
}

// Case names one case for the report: a short stable id and the input written out.
type Case func(i int64) (id string, input interface{})

// one runs case i; a panic in the code under test becomes a failure of class "panic".
func one(i int64, name Case, f func(i int64)) {
	defer func() {
		if r := recover(); r != nil {
			where := ""
			for _, l := range strings.Split(string(debug.Stack()), "\n") {
				if strings.HasPrefix(l, "pault.ag/go/debian/") { // innermost frame of the code under test
					where = " in " + l
					break
				}
			}
			id, input := name(i)
			fail("panic", id, input, fmt.Sprintf("panic%s: %v", where, r))
		}
	}()
	f(i)
}

// span runs the cases [lo,hi) in a goroutine of their own and watches it: when one case has not returned after
// 5 s it is reported as a failure of class "hang", the goroutine is abandoned and the index after it is returned.
func span(lo, hi int64, name Case, f func(i int64)) int64 {
	cur, since, dead := lo, time.Now().UnixNano(), int32(0)
	done := make(chan struct{})
	go func() {
		defer close(done)
		for i := lo; i < hi && atomic.LoadInt32(&dead) == 0; i++ {
			atomic.StoreInt64(&cur, i)
			atomic.StoreInt64(&since, time.Now().UnixNano())
			one(i, name, f)
		}
	}()
	tick := time.NewTicker(caseTime / 10)
	defer tick.Stop()
	for {
		select {
		case <-done:
			return hi
		case <-tick.C:
			i, t := atomic.LoadInt64(&cur), atomic.LoadInt64(&since)
			if time.Duration(time.Now().UnixNano()-t) > caseTime && atomic.LoadInt64(&cur) == i {
				atomic.StoreInt32(&dead, 1)
				id, input := name(i)
				fail("hang", id, input, fmt.Sprintf("the case did not return within %v", caseTime))
				return i + 1
			}
		}
	}
}

// run evaluates f(i) for i in [0,n) on all cores, in chunks, every case under recover and the watchdog.
func run(n int64, name Case, f func(i int64)) {
	workers := int64(runtime.NumCPU())
	chunk := n / (workers * 8)
	if chunk > 4096 {
		chunk = 4096
	} else if chunk < 1 {
		chunk = 1
	}
	var next int64
	var wg sync.WaitGroup
	for w := int64(0); w < workers; w++ {
		wg.Add(1)
		go func() {
			defer wg.Done()
			for {
				lo := atomic.AddInt64(&next, chunk) - chunk
				if lo >= n {
					return
				}
				hi := lo + chunk
				if hi > n {
					hi = n
				}
				for lo < hi {
					lo = span(lo, hi, name, f)
				}
			}
		}()
	}
	wg.Wait()
}

func emit(bound, rule string, exhaustive bool) {
	r := Report{Bound: bound, Rule: rule, Evaluations: evaluations, Distinct: distinct, Exhaustive: exhaustive,
		Samples: []interface{}{}, Failures: []Failure{}, Counts: counts, Stats: stats}
	classes := []string{}
	for c := range samples {
		classes = append(classes, c)
	}
	sort.Strings(classes)
	for round := 0; round < 3; round++ {
		for _, c := range classes {
			if round < len(samples[c]) && len(r.Samples) < 9 {
				r.Samples = append(r.Samples, samples[c][round].v)
			}
		}
	}
	classes = classes[:0]
	for c := range byClass {
		classes = append(classes, c)
	}
	sort.Strings(classes)
	for round := 0; round < perClass; round++ { // round-robin over the classes, smallest ids first
		for _, c := range classes {
			if round < len(byClass[c]) && len(r.Failures) < 20 {
				r.Failures = append(r.Failures, byClass[c][round])
			}
		}
	}
	out, _ := json.Marshal(r)
	fmt.Println(string(out))
}
