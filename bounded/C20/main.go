// Bounded stand-in for C20: DSC/Changes Copy, Move, Remove deliver the control file last, report failures,
// keep Filename in step, leave no strays, and never touch files outside the source and destination directories.
package main

import (
	"bytes"
	"crypto/md5"
	"crypto/sha256"
	"encoding/json"
	"fmt"
	"io/fs"
	"os"
	"path/filepath"
	"sort"
	"strings"
	"sync/atomic"

	"pault.ag/go/debian/control"
)

type failure struct {
	Key   string      `json:"key"`
	Input interface{} `json:"input"`
	What  string      `json:"what"`
}

var (
	failures []failure
	failKeys = map[string]bool{}
	evals    int
	distinct = map[string]struct{}{}
	samples  []interface{}
)

func fail(key string, input interface{}, what string) {
	if failKeys[key] || len(failures) >= 20 {
		return
	}
	failKeys[key] = true
	failures = append(failures, failure{key, input, what})
}

// ---- documents ----

var refNames = []string{"pkg_1.0.orig.tar.gz", "pkg_1.0-1.debian.tar.xz", "pkg_1.0-1_amd64.deb"}

func document(kind string, names []string, contents [][]byte) string {
	var sha, files string
	for i, n := range names {
		sha += fmt.Sprintf(" %x %d %s\n", sha256.Sum256(contents[i]), len(contents[i]), n)
		if kind == "dsc" {
			files += fmt.Sprintf(" %x %d %s\n", md5.Sum(contents[i]), len(contents[i]), n)
		} else {
			files += fmt.Sprintf(" %x %d devel optional %s\n", md5.Sum(contents[i]), len(contents[i]), n)
		}
	}
	if len(names) > 0 {
		sha, files = "Checksums-Sha256:\n"+sha, "Files:\n"+files
	}
	if kind == "dsc" {
		return "Format: 3.0 (quilt)\nSource: pkg\nBinary: pkg\nArchitecture: any\nVersion: 1.0-1\nMaintainer: A B <a@b>\nStandards-Version: 3.9.3\nBuild-Depends: debhelper (>= 9)\n" + sha + files
	}
	return "Format: 1.8\nDate: Mon, 02 Jan 2006 15:04:05 -0700\nSource: pkg\nBinary: pkg\nArchitecture: source amd64\nVersion: 1.0-1\nDistribution: unstable\nUrgency: low\n" +
		"Maintainer: A B <a@b>\nChanged-By: A B <a@b>\nDescription:\n pkg - a package\nChanges:\n pkg (1.0-1) unstable; urgency=low\n .\n   * change\n" + sha + files
}

// handle abstracts over *control.DSC and *control.Changes
type handle struct {
	copy, move func(string) error
	remove     func() error
	filename   func() string
}

func open(kind, path string) (h handle, err error) {
	defer func() {
		if r := recover(); r != nil {
			err = fmt.Errorf("panic while parsing: %v", r)
		}
	}()
	if kind == "dsc" {
		d, err := control.ParseDscFile(path)
		if err != nil {
			return h, err
		}
		return handle{d.Copy, d.Move, d.Remove, func() string { return d.Filename }}, nil
	}
	c, err := control.ParseChangesFile(path)
	if err != nil {
		return h, err
	}
	return handle{c.Copy, c.Move, c.Remove, func() string { return c.Filename }}, nil
}

func (h handle) run(op, dest string) (err error, pan interface{}) {
	defer func() { pan = recover() }()
	switch op {
	case "Copy":
		err = h.copy(dest)
	case "Move":
		err = h.move(dest)
	default:
		err = h.remove()
	}
	return
}

// ---- file system helpers ----

func must(err error) {
	if err != nil {
		panic("harness: " + err.Error())
	}
}

func write(path string, data []byte) {
	must(os.MkdirAll(filepath.Dir(path), 0o755))
	must(os.WriteFile(path, data, 0o644))
}

// snapshot maps every path below root (relative) to "dir" or "file:<content>".
func snapshot(root string) map[string]string {
	m := map[string]string{}
	filepath.WalkDir(root, func(p string, d fs.DirEntry, err error) error {
		if err != nil || p == root {
			return nil
		}
		rel, _ := filepath.Rel(root, p)
		if d.IsDir() {
			m[rel] = "dir"
		} else if b, err := os.ReadFile(p); err == nil {
			m[rel] = "file:" + string(b)
		} else {
			m[rel] = "unreadable"
		}
		return nil
	})
	return m
}

func under(rel, dir string) bool { return rel == dir || strings.HasPrefix(rel, dir+"/") }

func keys(m map[string]string, dir string) []string {
	var out []string
	for k := range m {
		if strings.HasPrefix(k, dir+"/") {
			out = append(out, k)
		}
	}
	sort.Strings(out)
	return out
}

// ---- one scenario ----

type scenario struct {
	Kind   string `json:"handle"`
	Op     string `json:"operation"`
	NFiles int    `json:"referenced_files"`
	Inject string `json:"injected_failure"` // none | missing-source | blocked-by-directory | control-blocked-by-directory | control-missing | dest-missing | source-is-directory | control-is-directory
	At     int    `json:"at_file"`          // index of the referenced file the failure is injected at (-1: n/a)
	Evil   string `json:"hostile_name"`     // "" or the listed name that leaves the directory ("ABS/..." is made absolute inside the temp tree)
}

func (s scenario) key() string {
	return fmt.Sprintf("%s-%s-%d-%s-%d-%s", s.Kind, s.Op, s.NFiles, s.Inject, s.At, strings.NewReplacer("/", "_", ".", "d").Replace(s.Evil))
}

func runScenario(base string, s scenario) {
	evals++
	if s.NFiles > 0 || s.Inject != "none" {
		distinct[s.key()] = struct{}{}
	}
	root, err := os.MkdirTemp(base, "s")
	must(err)
	defer os.RemoveAll(root)
	src, dest := filepath.Join(root, "src"), filepath.Join(root, "dest")
	must(os.MkdirAll(filepath.Join(src, "sub"), 0o755))
	if s.Inject != "dest-missing" {
		must(os.Mkdir(dest, 0o755))
	}
	// decoys outside the source directory, and bystanders inside both directories
	write(filepath.Join(root, "evil"), []byte("decoy outside the source directory"))
	write(filepath.Join(root, "abs", "evil"), []byte("decoy at an absolute path"))
	write(filepath.Join(src, "bystander"), []byte("unrelated file in the source directory"))
	if s.Inject != "dest-missing" {
		write(filepath.Join(dest, "bystander"), []byte("unrelated file in the destination"))
	}

	names := append([]string{}, refNames[:s.NFiles]...)
	contents := make([][]byte, s.NFiles)
	for i := range names {
		contents[i] = bytes.Repeat([]byte{byte('A' + i)}, 100+i)
	}
	if s.Evil != "" {
		names[s.At] = strings.Replace(s.Evil, "ABS", filepath.Join(root, "abs"), 1)
		contents[s.At] = []byte("decoy outside the source directory")
		if strings.HasPrefix(s.Evil, "ABS") {
			contents[s.At] = []byte("decoy at an absolute path")
		}
	}
	for i, n := range names {
		if s.Evil == "" || i != s.At {
			write(filepath.Join(src, n), contents[i])
		}
	}
	ctl := "pkg_1.0-1." + s.Kind
	if s.Kind == "changes" {
		ctl = "pkg_1.0-1_amd64.changes"
	}
	text := document(s.Kind, names, contents)
	ctlPath := filepath.Join(src, ctl)
	write(ctlPath, []byte(text))
	in := map[string]interface{}{"scenario": s, "control_file": text}

	h, err := open(s.Kind, ctlPath)
	if err != nil {
		if s.Evil == "" {
			fail("parse-"+s.Kind, in, "valid document rejected: "+err.Error())
		}
		return // a parser that refuses a hostile name confines it trivially
	}
	// inject the failure
	switch s.Inject {
	case "missing-source":
		must(os.Remove(filepath.Join(src, names[s.At])))
	case "blocked-by-directory":
		if s.Op == "Remove" { // the referenced file is a non-empty directory: it cannot be removed
			must(os.Remove(filepath.Join(src, names[s.At])))
			write(filepath.Join(src, names[s.At], "child"), []byte("x"))
		} else {
			write(filepath.Join(dest, names[s.At], "child"), []byte("x"))
		}
	case "control-blocked-by-directory":
		write(filepath.Join(dest, ctl, "child"), []byte("x"))
	case "control-missing":
		must(os.Remove(ctlPath))
	case "source-is-directory":
		// mid-copy read failure: the referenced name is a directory at the source, so opening it for reading works
		// (and so does creating the file in the destination) but the first read fails (EISDIR)
		must(os.Remove(filepath.Join(src, names[s.At])))
		must(os.Mkdir(filepath.Join(src, names[s.At]), 0o755))
	case "control-is-directory":
		// the same failure at the control file itself: the handle's own path is a directory by the time of the call
		must(os.Remove(ctlPath))
		must(os.Mkdir(ctlPath, 0o755))
	}
	before := snapshot(root)
	oldName := h.filename()
	opErr, pan := h.run(s.Op, dest)
	after := snapshot(root)
	if pan != nil {
		fail("panic-"+s.Op, in, fmt.Sprint("panic: ", pan))
		return
	}
	in["returned_error"] = fmt.Sprint(opErr)
	in["tree_after"] = keys(after, "src")
	in["tree_after"] = append(in["tree_after"].([]string), keys(after, "dest")...)
	bad := func(key, what string) { fail(s.Op+"-"+s.Kind+"-"+key, in, what) }

	// confinement: nothing outside src/ and dest/ may change, whatever happened
	for k, v := range before {
		if !under(k, "src") && !under(k, "dest") && after[k] != v {
			bad("outside-touched", fmt.Sprintf("%s outside the source and destination directories was changed or deleted", k))
		}
	}
	for k := range after {
		if _, ok := before[k]; !ok && !under(k, "src") && !under(k, "dest") {
			bad("outside-created", fmt.Sprintf("%s was created outside the source and destination directories", k))
		}
	}
	if s.Evil != "" {
		if opErr == nil {
			bad("hostile-name-accepted", fmt.Sprintf("listed name %q leaves the control file's directory, yet %s returned nil", names[s.At], s.Op))
		}
		if _, ok := after["dest/evil"]; ok {
			bad("outside-file-delivered", fmt.Sprintf("the file named by %q outside the source directory was brought into the destination", names[s.At]))
		}
	}
	if s.Inject == "none" && s.Evil == "" && opErr != nil {
		bad("unexpected-error", "nothing stands in the way, yet: "+opErr.Error())
	}
	if s.Inject == "source-is-directory" || s.Inject == "control-is-directory" {
		what, name := "the control file", ctl
		if s.At >= 0 {
			what, name = "referenced file "+names[s.At], names[s.At]
		}
		if opErr == nil {
			bad("read-failure-not-reported", fmt.Sprintf("%s cannot be read (it is a directory: open succeeds, read fails), yet %s returned nil", what, s.Op))
		}
		// whatever is returned: the unreadable source must not have produced a regular file of that name in the destination
		if strings.HasPrefix(after["dest/"+name], "file:") {
			bad("read-failure-delivered-file", fmt.Sprintf("%s cannot be read, yet a regular file %s (%d bytes) is in the destination", what, name, len(after["dest/"+name])-len("file:")))
		}
	}

	isFile := func(m map[string]string, k string) bool { return strings.HasPrefix(m[k], "file:") }
	if s.Op == "Remove" {
		ctlGone := isFile(before, "src/"+ctl) && !isFile(after, "src/"+ctl)
		for _, n := range names {
			if _, left := after["src/"+n]; left && ctlGone && s.Evil == "" {
				bad("control-removed-before-files", fmt.Sprintf("control file is gone while referenced %s is still there", n))
			}
			if _, left := after["src/"+n]; left && opErr == nil {
				bad("success-but-file-left", fmt.Sprintf("Remove returned nil but %s is still there", n))
			}
		}
		if opErr == nil && isFile(after, "src/"+ctl) {
			bad("success-but-control-left", "Remove returned nil but the control file is still there")
		}
		if after["src/bystander"] != before["src/bystander"] || after["src/sub"] != "dir" {
			bad("bystander-touched", "an unlisted file of the source directory was changed")
		}
		return
	}

	inDest := isFile(after, "dest/"+ctl)
	complete := true
	for i, n := range names {
		if after["dest/"+filepath.Base(n)] != "file:"+string(contents[i]) {
			complete = false
			if inDest {
				bad("control-visible-without-files", fmt.Sprintf("control file is in the destination but referenced %s is not there byte-identical", n))
			}
		}
	}
	if opErr != nil {
		if inDest {
			bad("error-but-control-delivered", "error returned ("+opErr.Error()+") but the control file is in the destination")
		}
		if s.Op == "Move" && isFile(before, "src/"+ctl) && after["src/"+ctl] != before["src/"+ctl] {
			bad("error-but-control-left-source", "Move returned an error ("+opErr.Error()+") but the control file is no longer intact at its source")
		}
		if h.filename() != oldName {
			bad("error-but-filename-changed", fmt.Sprintf("error returned but Filename changed from %q to %q", oldName, h.filename()))
		}
		return
	}
	// success
	if !complete {
		bad("success-but-incomplete", "nil returned but not every referenced file is in the destination byte-identical")
	}
	if after["dest/"+ctl] != "file:"+text {
		bad("success-but-control-missing", "nil returned but the control file is not in the destination byte-identical")
	}
	if filepath.Clean(h.filename()) != filepath.Join(dest, ctl) {
		bad("filename-not-updated", fmt.Sprintf("Filename is %q after success, expected %q", h.filename(), filepath.Join(dest, ctl)))
	}
	want := map[string]bool{"dest/" + ctl: true}
	for _, n := range names {
		want["dest/"+filepath.Base(n)] = true
	}
	for _, k := range keys(after, "dest") {
		if _, was := before[k]; !was && !want[k] {
			bad("stray-in-destination", fmt.Sprintf("stray %s left in the destination after success", k))
		}
	}
	for _, k := range keys(before, "src") {
		moved := s.Op == "Move" && (k == "src/"+ctl || want["dest/"+strings.TrimPrefix(k, "src/")])
		if _, still := after[k]; moved && still {
			bad("moved-file-still-at-source", k+" is still at the source after a successful Move")
		} else if !moved && after[k] != before[k] {
			bad("source-changed", k+" in the source directory was changed by a successful "+s.Op)
		}
	}
}

// ---- order of appearance, observed by a polling watcher ----

func watch(base, kind, op string, nfiles, size int) (polls int64) {
	evals++
	distinct[fmt.Sprintf("watch-%s-%s-%d", kind, op, nfiles)] = struct{}{}
	root, err := os.MkdirTemp(base, "w")
	must(err)
	defer os.RemoveAll(root)
	src, dest := filepath.Join(root, "src"), filepath.Join(root, "dest")
	must(os.Mkdir(dest, 0o755))
	names := refNames[:nfiles]
	contents := make([][]byte, nfiles)
	for i := range names {
		contents[i] = bytes.Repeat([]byte{byte('a' + i), 0, 1, 2}, (size+i*4096)/4)
		write(filepath.Join(src, names[i]), contents[i])
	}
	ctl := "pkg_1.0-1." + kind
	write(filepath.Join(src, ctl), []byte(document(kind, names, contents)))
	in := map[string]interface{}{"handle": kind, "operation": op, "referenced_files": nfiles, "file_size": size}
	h, err := open(kind, filepath.Join(src, ctl))
	if err != nil {
		fail("parse-"+kind, in, "valid document rejected: "+err.Error())
		return
	}
	var stop int32
	done := make(chan string)
	go func() {
		var seen string
		for final := false; ; {
			ents, _ := os.ReadDir(dest)
			polls++
			for _, e := range ents {
				if e.Name() != ctl {
					continue
				}
				for i, n := range names {
					if st, err := os.Stat(filepath.Join(dest, n)); err != nil {
						seen = fmt.Sprintf("control file listed in the destination while %s is absent", n)
					} else if st.Size() < int64(len(contents[i])) {
						seen = fmt.Sprintf("control file listed in the destination while %s has %d of %d bytes", n, st.Size(), len(contents[i]))
					}
				}
			}
			if final || seen != "" {
				break
			}
			final = atomic.LoadInt32(&stop) == 1 // one more look after the operation has returned
		}
		done <- seen
	}()
	opErr, pan := h.run(op, dest)
	atomic.StoreInt32(&stop, 1)
	seen := <-done
	if pan != nil {
		fail("watch-panic", in, fmt.Sprint("panic: ", pan))
	} else if opErr != nil {
		fail("watch-unexpected-error", in, op+" failed: "+opErr.Error())
	} else if seen != "" {
		fail("watch-"+op+"-"+kind+"-control-before-files", in, seen)
	}
	return
}

func main() {
	tier := os.Getenv("TIER")
	base, err := os.MkdirTemp("", "c20-bounded-")
	must(err)
	defer os.RemoveAll(base)

	var scenarios []scenario
	for _, kind := range []string{"dsc", "changes"} {
		for _, op := range []string{"Copy", "Move", "Remove"} {
			for n := 0; n <= 3; n++ {
				scenarios = append(scenarios, scenario{kind, op, n, "none", -1, ""})
				for i := 0; i < n; i++ {
					scenarios = append(scenarios, scenario{kind, op, n, "missing-source", i, ""}, scenario{kind, op, n, "blocked-by-directory", i, ""})
				}
				scenarios = append(scenarios, scenario{kind, op, n, "control-missing", -1, ""})
				if op != "Remove" {
					scenarios = append(scenarios, scenario{kind, op, n, "control-blocked-by-directory", -1, ""}, scenario{kind, op, n, "dest-missing", -1, ""})
				}
				if op == "Copy" { // mid-copy read failure, at each referenced file and at the control file
					for i := 0; i < n; i++ {
						scenarios = append(scenarios, scenario{kind, op, n, "source-is-directory", i, ""})
					}
					scenarios = append(scenarios, scenario{kind, op, n, "control-is-directory", -1, ""})
				}
				for i := 0; i < n; i++ {
					for _, evil := range []string{"../evil", "sub/../../evil", "ABS/evil"} {
						scenarios = append(scenarios, scenario{kind, op, n, "none", i, evil})
					}
				}
			}
		}
	}
	for _, s := range scenarios {
		func() {
			defer func() {
				if r := recover(); r != nil {
					fail("harness-"+s.key(), s, fmt.Sprint(r))
				}
			}()
			runScenario(base, s)
		}()
	}
	for _, i := range []int{1, 9, 24, 30, 75, 95, 150} {
		samples = append(samples, scenarios[i])
	}
	for _, s := range scenarios {
		if (s.Inject == "source-is-directory" && s.NFiles == 3 && s.At == 1 || s.Inject == "control-is-directory" && s.NFiles == 2) && s.Kind == "changes" {
			samples = append(samples, s)
		}
	}

	reps, size := 5, 4<<20
	if tier == "thorough" {
		reps, size = 12, 12<<20
	}
	var polls int64
	watches := 0
	for r := 0; r < reps; r++ {
		for _, kind := range []string{"dsc", "changes"} {
			for _, op := range []string{"Copy", "Move"} {
				for n := 1; n <= 3; n++ {
					polls += watch(base, kind, op, n, size)
					watches++
				}
			}
		}
	}
	samples = append(samples, map[string]interface{}{"kind": "watched run", "handle": "dsc", "operation": "Copy", "referenced_files": 3, "file_size": size})

	if failures == nil {
		failures = []failure{}
	}
	out := map[string]interface{}{
		"bound": fmt.Sprintf("uploads with 0..3 referenced files x {Copy, Move, Remove} x {.dsc, .changes} x {no failure; referenced file i missing at the source; a non-empty DIRECTORY named like referenced file i in the destination (for Remove: in place of the file); "+
			"a non-empty directory named like the control file in the destination; control file deleted after parsing; destination directory missing; "+
			"ADDED mid-copy read failure (Copy only): referenced file i, or the control file itself, is a DIRECTORY at the source by the time of the call, so it opens for reading and the temporary file in the destination is created, but the read fails (EISDIR) - at every referenced file and at the control file, for 0..3 files} x hostile listed names {../evil, sub/../../evil, <abs>/evil} at every position = %d scenarios on the real file system (as uid %d, no permission bits used); "+
			"plus %d watched Copy/Move runs (1..3 files of %d MB, %d repetitions) with a goroutine polling os.ReadDir on the destination (%d polls)", len(scenarios), os.Getuid(), watches, size>>20, reps, polls),
		"rule": "each scenario builds a fresh temp tree (src/, dest/, decoys outside, bystanders inside), parses the control file with ParseDscFile/ParseChangesFile, injects the failure, snapshots the whole tree before and after the call. " +
			"Checks: nothing outside src/ and dest/ changes; hostile name => error and the decoy is not delivered; mid-copy read failure => error returned and no regular file of the unreadable name in the destination; control file a regular file in dest only if every referenced file is there byte-identical; on error control file not in dest, (Move) still intact at source, Filename unchanged; " +
			"on success everything byte-identical in dest, Filename = dest/<name>, no stray entries in dest, sources gone (Move) or untouched (Copy); Remove: control file gone only if all referenced files are gone, nil only if everything is gone. Distinct = distinct scenario tuples; the 0-file no-failure scenarios count as trivial",
		"evaluations":         evals,
		"distinct_nontrivial": len(distinct),
		"exhaustive":          true,
		"samples":             samples,
		"failures":            failures,
	}
	json.NewEncoder(os.Stdout).Encode(out)
}
