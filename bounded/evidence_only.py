#!/usr/bin/env python3
"""Writes evidence/<ID>.json for a property that (so far) has only a bounded stand-in.
usage: evidence_only.py <ID> <tier> <bounded.json> <evidence.json>"""
import json, os, sys, time
pid, tier, bj, out = sys.argv[1:5]
b = json.load(open(bj))
ev = {
 "property_id": pid, "tier": tier, "seed": int(os.environ.get("VERIF_SEED", "0") or 0), "level": "exploration",
 "coverage": {
   "evaluations": int(b.get("evaluations") or 0), "distinct_nontrivial": int(b.get("distinct_nontrivial") or 0),
   "rule": b.get("rule", ""), "samples": b.get("samples") or ["(none)"], "exhaustive": bool(b.get("exhaustive")),
   "bound": b.get("bound", ""), "label": "bounded stand-in on the real code (never counted as proved); no contract obligations are claimed for this property yet",
   "known_findings_hit": b.get("known_findings_hit", 0), "failures": b.get("failures", []),
 },
 "assumptions": ["bounded: only the stated finite domain is covered", "the oracle of the harness is written from the property statement and is trusted"],
 "wall_s": b.get("wall_s", 0.0), "violations": int(b.get("violations") or 0),
}
os.makedirs(os.path.dirname(out), exist_ok=True)
json.dump(ev, open(out, "w"), indent=1)
