package main

// Enumeration with a hang watchdog: every worker publishes the index it is working on; a case that stays
// current for more than `patience` is reported as a hang (the goroutine cannot be killed, so the report is
// written and the process exits).

import (
	"fmt"
	"os"
	"runtime"
	"runtime/debug"
	"strings"
	"sync"
	"sync/atomic"
	"time"
)

const patience = 5 * time.Second

type slot struct {
	cur int64 // index being evaluated, -1 when idle
	_   [7]int64
}

// tally is kept per worker and merged into total when the worker is done.
type tally struct{ evals, distinct, lt, eq, gt, eqDifferent int64 }

var total tally

func (t *tally) add(u *tally) {
	t.evals, t.distinct, t.lt, t.eq, t.gt = t.evals+u.evals, t.distinct+u.distinct, t.lt+u.lt, t.eq+u.eq, t.gt+u.gt
	t.eqDifferent += u.eqDifferent
}

// sweep runs f(i, tally) for i in [0,n) on all cores. describe(i) renders case i for a report. Panics in f are failures.
func sweep(n int64, describe func(i int64) string, f func(i int64, t *tally)) {
	workers := runtime.NumCPU()
	slots := make([]slot, workers)
	for w := range slots {
		slots[w].cur = -1
	}
	done := make(chan struct{})
	go func() { // watchdog
		last := make([]int64, workers)
		since := make([]time.Time, workers)
		for {
			select {
			case <-done:
				return
			case <-time.After(250 * time.Millisecond):
			}
			for w := range slots {
				c := atomic.LoadInt64(&slots[w].cur)
				if c != last[w] || c < 0 {
					last[w], since[w] = c, time.Now()
				} else if time.Since(since[w]) > patience {
					fail("hang", describe(c), fmt.Sprintf("no result after %v (expected: Compare returns)", patience))
					settle()
					emit("aborted by the hang watchdog; evaluations counts the completed sections only", "see failures", false)
					os.Exit(0)
				}
			}
		}
	}()
	const chunk = 2048
	var next int64
	var wg sync.WaitGroup
	for w := 0; w < workers; w++ {
		wg.Add(1)
		go func(s *slot) {
			defer wg.Done()
			var t tally
			for {
				lo := atomic.AddInt64(&next, chunk) - chunk
				if lo >= n {
					break
				}
				hi := lo + chunk
				if hi > n {
					hi = n
				}
				for i := lo; i < hi; i++ {
					atomic.StoreInt64(&s.cur, i)
					try(i, &t, describe, f)
				}
			}
			atomic.StoreInt64(&s.cur, -1)
			mu.Lock()
			total.add(&t)
			mu.Unlock()
		}(&slots[w])
	}
	wg.Wait()
	close(done)
}

// failLazy is fail for checks that may fail millions of times: after `detailed` failures of a class the rest are only counted.
func failLazy(class string, input, what func() string) {
	c, _ := lazy.LoadOrStore(class, new(int64))
	if atomic.AddInt64(c.(*int64), 1) <= detailed {
		fail(class, input(), what())
	}
}

const detailed = 2000

var lazy sync.Map

// settle adds the failures that were only counted to the totals, and the tallies to the report counters.
func settle() {
	lazy.Range(func(class, c interface{}) bool {
		if n := atomic.LoadInt64(c.(*int64)); n > detailed {
			counts[class.(string)] += int(n - detailed)
		}
		return true
	})
	evaluations, distinct = total.evals, total.distinct
}

func try(i int64, t *tally, describe func(i int64) string, f func(i int64, t *tally)) {
	defer func() {
		if r := recover(); r != nil {
			where := ""
			for _, l := range strings.Split(string(debug.Stack()), "\n") {
				if strings.HasPrefix(l, "pault.ag/go/debian/") {
					where = " in " + l
					break
				}
			}
			fail("panic", describe(i), fmt.Sprintf("panic%s: %v", where, r))
		}
	}()
	f(i, t)
}
