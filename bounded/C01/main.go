package main

// C01 (package version): the sign of version.Compare equals that of the dpkg / Debian Policy 5.6.12 order.
// Bounded stand-in: all pairs of short strings over a 10-letter alphabet (as upstream, as revision, mixed),
// epochs, long digit runs - each against a reference written from Policy 5.6.12 as a specification (split into
// runs, compare runs), which is itself cross-checked against the dpkg binary on sampled valid versions.

import (
	"fmt"
	"math/big"
	"math/rand"
	"os/exec"
	"strings"
	"sync"

	"pault.ag/go/debian/version"
)

const alphabet = "019aZ.+~-:"

// ---- oracle: Policy 5.6.12 as a specification ------------------------------------------------------------

// runs is a string cut into alternating runs: nd[0] d[0] nd[1] d[1] ... (nd[k] without digits, d[k] only digits;
// any of them may be empty, an empty digit run counts as zero).
type runs struct {
	nd []string
	d  []*big.Int
}

func digit(c byte) bool { return '0' <= c && c <= '9' }

func split(s string) (r runs) {
	for len(s) > 0 {
		i := 0
		for i < len(s) && !digit(s[i]) {
			i++
		}
		j := i
		for j < len(s) && digit(s[j]) {
			j++
		}
		n := new(big.Int)
		if j > i {
			n.SetString(s[i:j], 10)
		}
		r.nd, r.d, s = append(r.nd, s[:i]), append(r.d, n), s[j:]
	}
	return
}

// weight of position i of a non-digit run (past its end: 0)
func weight(s string, i int) int {
	switch {
	case i >= len(s) || digit(s[i]):
		return 0
	case 'a' <= s[i] && s[i] <= 'z' || 'A' <= s[i] && s[i] <= 'Z':
		return int(s[i])
	case s[i] == '~':
		return -1
	}
	return int(s[i]) + 256
}

var zero = new(big.Int)

func refPart(a, b runs) int {
	for k := 0; k < len(a.nd) || k < len(b.nd); k++ {
		x, y, m, n := "", "", zero, zero
		if k < len(a.nd) {
			x, m = a.nd[k], a.d[k]
		}
		if k < len(b.nd) {
			y, n = b.nd[k], b.d[k]
		}
		for i := 0; i < len(x) || i < len(y); i++ {
			if wx, wy := weight(x, i), weight(y, i); wx != wy {
				return sgn(wx - wy)
			}
		}
		if c := m.Cmp(n); c != 0 {
			return c
		}
	}
	return 0
}

type ver struct { // a version with its parts cut into runs
	v       version.Version
	up, rev runs
}

func mk(epoch uint, up, rev string) ver {
	return ver{version.Version{Epoch: epoch, Version: up, Revision: rev}, split(up), split(rev)}
}

func refCompare(a, b *ver) int {
	switch {
	case a.v.Epoch != b.v.Epoch:
		if a.v.Epoch < b.v.Epoch {
			return -1
		}
		return 1
	case refPart(a.up, b.up) != 0:
		return refPart(a.up, b.up)
	}
	return refPart(a.rev, b.rev)
}

func sgn(x int) int {
	switch {
	case x < 0:
		return -1
	case x > 0:
		return 1
	}
	return 0
}

// ---- checks ------------------------------------------------------------------------------------------------

func show(v version.Version) string { return fmt.Sprintf("{%d %q %q}", v.Epoch, v.Version, v.Revision) }
func pair(a, b *ver) string         { return show(a.v) + " vs " + show(b.v) }

var rel = map[int]string{-1: "<", 0: "=", 1: ">"}

// check compares the library with the oracle on (a, b); counted says whether the pair is new (not part of an earlier section).
func check(a, b *ver, counted, sample bool, t *tally) {
	t.evals++
	want := refCompare(a, b)
	got := version.Compare(a.v, b.v)
	if sgn(got) != want {
		failLazy("sign", func() string { return pair(a, b) }, func() string {
			return fmt.Sprintf("Compare = %d, expected a result %s 0 (Policy order: a %s b)", got, rel[want], rel[want])
		})
	}
	if counted && a.v != b.v {
		t.distinct++
		switch want {
		case -1:
			t.lt++
		case 1:
			t.gt++
		default:
			t.eq++
			t.eqDifferent++
		}
		if sample {
			keep(rel[want], pair(a, b), map[string]interface{}{"a": show(a.v), "b": show(b.v), "Compare": got, "oracle": rel[want]})
		}
	}
}

// product checks all ordered pairs of set; skip(i, j) marks pairs already enumerated by an earlier section.
func product(set []ver, skip func(a, b *ver) bool) {
	n := int64(len(set))
	m := uint64(n*n/256 + 1) // about 256 pairs per section are offered as samples
	sweep(n*n, func(i int64) string { return pair(&set[i/n], &set[i%n]) }, func(i int64, t *tally) {
		a, b := &set[i/n], &set[i%n]
		check(a, b, !skip(a, b), (uint64(i)^uint64(seed))*0x9E3779B97F4A7C15>>20%m == 0, t)
	})
}

func words(alpha string, maxLen int) (out []string) { // all strings over alpha of length 0..maxLen, shortest first
	out = []string{""}
	for lo := 0; len(out[lo]) < maxLen; lo++ {
		for i := 0; i < len(alpha); i++ {
			out = append(out, out[lo]+alpha[i:i+1])
		}
	}
	return
}

func inDomain(s string, maxLen int) bool {
	return len(s) <= maxLen && strings.Trim(s, alphabet) == ""
}

func main() {
	L, mixAlpha := 4, "01a~+-"
	if thorough {
		L, mixAlpha = 5, alphabet
	}
	short := words(alphabet, L)

	// A: upstream pairs, no revision
	set := make([]ver, len(short))
	for i, s := range short {
		set[i] = mk(0, s, "")
	}
	product(set, func(a, b *ver) bool { return false })
	// B: revision pairs under the fixed upstream "1"
	for i, s := range short {
		set[i] = mk(0, "1", s)
	}
	product(set, func(a, b *ver) bool { return a.v.Revision == "" && b.v.Revision == "" })
	// C: upstream and revision both vary
	mixed := words(mixAlpha, 2)
	set = set[:0]
	for _, u := range mixed {
		for _, r := range mixed {
			set = append(set, mk(0, u, r))
		}
	}
	nMixed := len(set)
	product(set, func(a, b *ver) bool {
		return a.v.Revision == "" && b.v.Revision == "" || a.v.Version == "1" && b.v.Version == "1"
	})
	// D: epochs
	big32, big63 := uint64(1)<<32, uint64(1)<<63-1
	epochs := []uint{0, 1, uint(big32), uint(big63)}
	set = set[:0]
	for _, e := range epochs {
		for _, u := range words(alphabet, 1) {
			for _, r := range []string{"", "0", "1"} {
				set = append(set, mk(e, u, r))
			}
		}
	}
	nEpoch := len(set)
	product(set, func(a, b *ver) bool { return a.v.Epoch == 0 && b.v.Epoch == 0 })
	// E: long digit runs
	var long []string
	for _, pre := range []string{"", "1.", "a"} {
		for _, n := range []string{"", "0", "00", "1", "00000000000000000001", "000000000000000000000000000000", "2",
			"4294967295", "4294967296", "9223372036854775807", "9223372036854775808", "09223372036854775808",
			"18446744073709551615", "18446744073709551616", "99999999999999999999", "100000000000000000000",
			"0100000000000000000000", "100000000000000000001", "340282366920938463463374607431768211456",
			"340282366920938463463374607431768211455"} {
			for _, post := range []string{"", "a", ".0", "~"} {
				long = append(long, pre+n+post)
			}
		}
	}
	known := func(a, b string) bool { return inDomain(a, L) && inDomain(b, L) }
	set = set[:0]
	for _, s := range long {
		set = append(set, mk(0, s, ""))
	}
	product(set, func(a, b *ver) bool { return known(a.v.Version, b.v.Version) })
	for i, s := range long {
		set[i] = mk(0, "1", s)
	}
	product(set, func(a, b *ver) bool { return known(a.v.Revision, b.v.Revision) })

	named()
	nDpkg, skipped, used := dpkg()

	settle()
	emit(fmt.Sprintf("version structs built directly; W = all %d strings over {0,1,9,a,Z,.,+,~,-,:} of length 0..%d. "+
		"(A) all W x W pairs of {0,u,\"\"}; (B) all W x W pairs of {0,\"1\",r}; (C) all pairs over the %d versions {0,u,r} with u, r "+
		"strings of length 0..2 over {%s}; (D) all pairs over the %d versions {e,u,r}, e in {0,1,2^32,2^63-1}, u of length 0..1, r in "+
		"{\"\",\"0\",\"1\"}; (E) all pairs over %d strings prefix+number+suffix (prefix \"\",\"1.\",\"a\"; 20 numbers up to 39 digits "+
		"with leading zeros around 2^32, 2^63, 2^64, 10^20, 2^128; suffix \"\",\"a\",\".0\",\"~\") as upstream and as revision of "+
		"upstream \"1\"; (F) the named examples through version.Parse; (G) oracle and library against the dpkg binary on %d sampled "+
		"pairs of valid version strings (dpkg %s; %d further pairs skipped because dpkg warned or refused)",
		len(short), L, nMixed, strings.Join(strings.Split(mixAlpha, ""), ","), nEpoch, len(long), nDpkg, used, skipped),
		fmt.Sprintf("exhaustive enumeration of ordered pairs in index order; for each pair sign(version.Compare(a,b)) must equal an "+
			"independent reference written from Policy 5.6.12 as a specification (cut both strings into alternating non-digit/digit "+
			"runs; non-digit runs compare position by position by weight - digit/end 0, letter ASCII, '~' -1, other ASCII+256; digit "+
			"runs compare as math/big integers; missing runs are empty). Pairs that an earlier section already contains are evaluated "+
			"but not counted. distinct_nontrivial = counted pairs whose two structs differ; of these the oracle orders %d as <, %d as >, "+
			"and %d as equal although the structs differ. Panics are failures; a pair without result after 5 s is a hang",
			total.lt, total.gt, total.eqDifferent), true)
}

// named checks the examples of the statement, through version.Parse.
func named() {
	p := func(s string) *ver {
		v, err := version.Parse(s)
		if err != nil {
			fail("named", s, "version.Parse fails: "+err.Error())
		}
		x := mk(v.Epoch, v.Version, v.Revision)
		return &x
	}
	var t tally
	for _, c := range []struct {
		a, b string
		want int
	}{{"1.0~rc1", "1.0", -1}, {"1.0", "1.0+b1", -1}, {"1.0~rc1", "1.0+b1", -1}, {"1.0", "1.0-0", 0}, {"1.0-0", "1.0", 0},
		{"1.0", "1.0-00", 0}, {"1.0-1", "1.0", 1}, {"1.0", "1.0-~", 1}, {"1:0", "2", 1}, {"1.0+b1", "1.0", 1}, {"1.0", "1.0~rc1", 1}} {
		a, b := p(c.a), p(c.b)
		try(0, &t, func(int64) string { return pair(a, b) }, func(int64, *tally) {
			check(a, b, true, false, &t)
			if got := version.Compare(a.v, b.v); sgn(got) != c.want {
				fail("named", c.a+" vs "+c.b, fmt.Sprintf("Compare = %d, the statement says %s", got, rel[c.want]))
			}
			if refCompare(a, b) != c.want {
				fail("oracle-vs-statement", c.a+" vs "+c.b, "the reference disagrees with the statement")
			}
		})
	}
	total.add(&t)
}

// dpkg cross-checks the oracle (and the library) against `dpkg --compare-versions` on sampled valid versions.
func dpkg() (n, skipped int, used string) {
	bin, err := exec.LookPath("dpkg")
	if err != nil {
		return 0, 0, "not installed: cross-check not run"
	}
	samplesN := 400
	if thorough {
		samplesN = 4000
	}
	rng := rand.New(rand.NewSource(seed + 1))
	part := func(first string, rest string, max int) string {
		b := []byte{first[rng.Intn(len(first))]}
		for k := rng.Intn(max + 1); k > 0; k-- {
			if rng.Intn(12) == 0 {
				b = append(b, []string{"00000000000000000001", "99999999999999999999", "100000000000000000000", "18446744073709551616"}[rng.Intn(4)]...)
			} else {
				b = append(b, rest[rng.Intn(len(rest))])
			}
		}
		return string(b)
	}
	gen := func() string {
		s := []string{"", "", "0:", "1:", "2:"}[rng.Intn(5)] + part("019", "019aZ.+~", 5)
		if len(s) > 1 && s[1] == ':' && rng.Intn(4) == 0 {
			s += "-" + part("19", "01:-.a", 2) // hyphen and colon inside the upstream part
		}
		if rng.Intn(2) == 0 {
			s += "-" + part("019aZ.+~", "019aZ.+~", 3)
		}
		return s
	}
	mutate := func(s string) string { // a neighbour of s: most random pairs differ in the first character already
		b := []byte(s)
		i := rng.Intn(len(b) + 1)
		c := "019aZ.+~"[rng.Intn(8)]
		switch k := rng.Intn(3); {
		case k == 0 && i < len(b):
			b[i] = c
		case k == 1 && i < len(b):
			b = append(b[:i], b[i+1:]...)
		default:
			b = append(b[:i], append([]byte{c}, b[i:]...)...)
		}
		return string(b)
	}
	type job struct{ a, b string }
	var jobs []job
	for len(jobs) < samplesN {
		a := gen()
		b := gen()
		if rng.Intn(3) > 0 {
			b = mutate(a)
		}
		_, ea := version.Parse(a)
		_, eb := version.Parse(b)
		if ea == nil && eb == nil {
			jobs = append(jobs, job{a, b})
		}
	}
	var wg sync.WaitGroup
	var lock sync.Mutex
	var t tally
	sem := make(chan bool, 16)
	for _, j := range jobs {
		j := j
		wg.Add(1)
		sem <- true
		go func() {
			defer func() { <-sem; wg.Done() }()
			var holds []string
			clean := true
			for _, op := range []string{"lt", "eq", "gt"} {
				out, err := exec.Command(bin, "--compare-versions", j.a, op, j.b).CombinedOutput()
				if e, ok := err.(*exec.ExitError); err != nil && (!ok || e.ExitCode() != 1) || len(out) > 0 {
					clean = false // dpkg refuses or warns: not a valid version for dpkg
				} else if err == nil {
					holds = append(holds, op)
				}
			}
			lock.Lock()
			defer lock.Unlock()
			if !clean {
				skipped++
				return
			}
			n++
			va, _ := version.Parse(j.a)
			vb, _ := version.Parse(j.b)
			a, b := mk(va.Epoch, va.Version, va.Revision), mk(vb.Epoch, vb.Version, vb.Revision)
			want := map[int]string{-1: "lt", 0: "eq", 1: "gt"}[refCompare(&a, &b)]
			if len(holds) != 1 || holds[0] != want {
				fail("oracle-vs-dpkg", j.a+" vs "+j.b, fmt.Sprintf("dpkg --compare-versions holds for %v, the reference says %s", holds, want))
			}
			try(0, &t, func(int64) string { return pair(&a, &b) }, func(int64, *tally) { check(&a, &b, false, false, &t) })
			if n <= 3 {
				keep("dpkg", j.a+j.b, map[string]interface{}{"a": j.a, "b": j.b, "dpkg": holds, "oracle": want, "Compare": version.Compare(a.v, b.v)})
			}
		}()
	}
	wg.Wait()
	total.add(&t)
	ver, _ := exec.Command(bin, "--version").Output()
	if f := strings.Fields(string(ver)); len(f) > 6 {
		used = f[6]
	}
	return n, skipped, used
}
