// Bounded stand-in for C12: hashing writers/readers pass bytes through and report true length and digests;
// FileHash verifiers accept a stream iff its digest under the entry's own algorithm equals the recorded hash.
package main

import (
	"bufio"
	"bytes"
	"crypto/md5"
	"crypto/sha1"
	"crypto/sha256"
	"crypto/sha512"
	"encoding/hex"
	"encoding/json"
	"fmt"
	"hash/fnv"
	"io"
	"math/rand"
	"os"
	"strconv"
	"strings"

	"pault.ag/go/debian/control"
	"pault.ag/go/debian/hashio"
)

var algs = []string{"md5", "sha1", "sha256", "sha512"}

// oracle: crypto/* directly
func digest(alg string, b []byte) string {
	switch alg {
	case "md5":
		s := md5.Sum(b)
		return hex.EncodeToString(s[:])
	case "sha1":
		s := sha1.Sum(b)
		return hex.EncodeToString(s[:])
	case "sha256":
		s := sha256.Sum256(b)
		return hex.EncodeToString(s[:])
	}
	s := sha512.Sum512(b)
	return hex.EncodeToString(s[:])
}

type failure struct {
	Key   string      `json:"key"`
	Input interface{} `json:"input"`
	What  string      `json:"what"`
}

var (
	failures    []failure
	failKeys    = map[string]bool{}
	evaluations int
	distinct    = map[uint64]struct{}{}
	samples     []interface{}

	parsedSamples, passSamples int
)

func seen(k string) {
	h := fnv.New64a()
	h.Write([]byte(k))
	distinct[h.Sum64()] = struct{}{}
}

func fail(key string, input interface{}, what string) {
	if failKeys[key] || len(failures) >= 20 {
		return
	}
	failKeys[key] = true
	failures = append(failures, failure{key, input, what})
}

// guard runs f and turns a panic of the code under test into a failure.
func guard(key string, input interface{}, f func()) {
	defer func() {
		if r := recover(); r != nil {
			fail(key+"-panic", input, fmt.Sprint("panic: ", r))
		}
	}()
	f()
}

func content(pattern, n int, seed int64) []byte {
	b := make([]byte, n)
	r := rand.New(rand.NewSource(seed*1000 + int64(n)))
	for i := range b {
		switch pattern {
		case 0:
			b[i] = 0
		case 1:
			b[i] = byte(i + 1)
		case 2:
			b[i] = "ab\n"[i%3]
		default:
			b[i] = byte(r.Intn(256))
		}
	}
	return b
}

// chunkings returns split points (i<=j) cutting n bytes into <=3 pieces: all of them for n<=12, a seeded sample beyond.
func chunkings(n, sample int, r *rand.Rand) [][2]int {
	var out [][2]int
	if n <= 12 {
		for i := 0; i <= n; i++ {
			for j := i; j <= n; j++ {
				out = append(out, [2]int{i, j})
			}
		}
		return out
	}
	out = append(out, [2]int{n, n}, [2]int{0, n}, [2]int{1, n - 1}, [2]int{n / 2, n / 2})
	for len(out) < sample {
		i := r.Intn(n + 1)
		j := i + r.Intn(n+1-i)
		out = append(out, [2]int{i, j})
	}
	return out
}

func pieces(b []byte, c [2]int) [][]byte { return [][]byte{b[:c[0]], b[c[0]:c[1]], b[c[1]:]} }

// algorithm lists: all non-empty subsets, in the canonical and the reversed order
func algLists() [][]string {
	var out [][]string
	seen := map[string]bool{}
	for m := 1; m < 16; m++ {
		var s []string
		for i, a := range algs {
			if m&(1<<i) != 0 {
				s = append(s, a)
			}
		}
		rev := make([]string, len(s))
		for i := range s {
			rev[len(s)-1-i] = s[i]
		}
		for _, l := range [][]string{s, rev} {
			if k := strings.Join(l, ","); !seen[k] {
				seen[k] = true
				out = append(out, l)
			}
		}
	}
	return out
}

// pieceReader hands out the stream piece by piece (empty pieces are delivered as 0-byte reads).
type pieceReader struct{ ps [][]byte }

func (p *pieceReader) Read(b []byte) (int, error) {
	if len(p.ps) == 0 {
		return 0, io.EOF
	}
	n := copy(b, p.ps[0])
	if p.ps[0] = p.ps[0][n:]; len(p.ps[0]) == 0 {
		p.ps = p.ps[1:]
	}
	return n, nil
}

func checkHashers(key string, in interface{}, names []string, hs []*hashio.Hasher, data []byte, dig map[string]string) {
	if len(hs) != len(names) {
		fail(key+"-count", in, fmt.Sprintf("got %d hashers for %d algorithm names", len(hs), len(names)))
		return
	}
	for i, h := range hs {
		if h.Name() != names[i] {
			fail(key+"-name", in, fmt.Sprintf("hasher %d is named %q, expected %q", i, h.Name(), names[i]))
		}
		if h.Size() != int64(len(data)) {
			fail(key+"-size-"+names[i], in, fmt.Sprintf("Size()=%d, stream has %d bytes", h.Size(), len(data)))
		}
		if got := hex.EncodeToString(h.Sum(nil)); got != dig[names[i]] {
			fail(key+"-digest-"+names[i], in, fmt.Sprintf("Sum()=%s, crypto/%s gives %s", got, names[i], dig[names[i]]))
		}
	}
}

func passthrough(data []byte, c [2]int, names []string, dig map[string]string, pat int) {
	in := map[string]interface{}{"content_hex": hex.EncodeToString(data), "split_points": c, "algorithms": names}
	ps := pieces(data, c)
	note := func(mode string) {
		evaluations++
		if len(data) > 0 {
			seen(fmt.Sprintf("%s|%d|%d|%v|%v", mode, pat, len(data), c, names))
		}
	}
	// writers
	guard("writer", in, func() {
		var sink bytes.Buffer
		var w io.Writer
		var hs []*hashio.Hasher
		var err error
		if len(names) == 1 {
			var h *hashio.Hasher
			w, h, err = hashio.NewHasherWriter(names[0], &sink)
			hs = []*hashio.Hasher{h}
		} else {
			w, hs, err = hashio.NewHasherWriters(names, &sink)
		}
		note("w")
		if err != nil {
			fail("writer-construct", in, "constructor error: "+err.Error())
			return
		}
		for _, p := range ps {
			if n, err := w.Write(p); n != len(p) || err != nil {
				fail("writer-write", in, fmt.Sprintf("Write of %d bytes returned (%d, %v)", len(p), n, err))
			}
		}
		if !bytes.Equal(sink.Bytes(), data) {
			fail("writer-passthrough", in, fmt.Sprintf("target received %x", sink.Bytes()))
		}
		checkHashers("writer", in, names, hs, data, dig)
	})
	// readers: (a) source delivers the pieces, (b) consumer reads with piece-sized buffers
	for _, mode := range []string{"ra", "rb"} {
		guard("reader", in, func() {
			var src io.Reader = &pieceReader{append([][]byte{}, ps...)}
			if mode == "rb" {
				src = bytes.NewReader(data)
			}
			var r io.Reader
			var hs []*hashio.Hasher
			var err error
			if len(names) == 1 {
				var h *hashio.Hasher
				r, h, err = hashio.NewHasherReader(names[0], src)
				hs = []*hashio.Hasher{h}
			} else {
				r, hs, err = hashio.NewHasherReaders(names, src)
			}
			note(mode)
			if err != nil {
				fail("reader-construct", in, "constructor error: "+err.Error())
				return
			}
			var got []byte
			if mode == "ra" {
				got, err = io.ReadAll(r)
			} else {
				for _, p := range ps {
					buf := make([]byte, len(p))
					if _, err = io.ReadFull(r, buf); err != nil {
						break
					}
					got = append(got, buf...)
				}
				if err == nil {
					var rest []byte
					rest, err = io.ReadAll(r)
					got = append(got, rest...)
				}
			}
			if err != nil {
				fail("reader-read", in, "read error: "+err.Error())
			}
			if !bytes.Equal(got, data) {
				fail("reader-passthrough", in, fmt.Sprintf("consumer received %x", got))
			}
			checkHashers("reader", in, names, hs, data, dig)
		})
	}
}

// verify feeds stream (in pieces) to the entry's verifier; accepted means Verifier() and Close() both returned nil.
func verify(fh control.FileHash, ps [][]byte) (accepted bool, detail string) {
	v, err := fh.Verifier()
	if err != nil {
		return false, "Verifier(): " + err.Error()
	}
	for _, p := range ps {
		if n, err := v.Write(p); n != len(p) || err != nil {
			return false, fmt.Sprintf("Write returned (%d, %v)", n, err)
		}
	}
	if err := v.Close(); err != nil {
		return false, "Close(): " + err.Error()
	}
	return true, "accepted"
}

// recorded hash variants for content under algorithm alg
func recorded(alg string, data []byte, variant string) string {
	h := digest(alg, data)
	switch variant {
	case "flip":
		i := len(data) % len(h)
		d, _ := strconv.ParseUint(h[i:i+1], 16, 8)
		return h[:i] + strconv.FormatUint(d^1, 16) + h[i+1:]
	case "trunc":
		return h[:len(h)-2]
	case "trunc-odd":
		return h[:len(h)-1]
	case "md5", "sha1", "sha256", "sha512":
		return digest(variant, data)
	}
	return h
}

type entry struct {
	alg, hash, name string
	data            []byte
}

type embedding struct {
	Package string
	control.BestChecksums
}

func fieldText(name string, es []entry) string {
	if len(es) == 0 {
		return ""
	}
	s := name + ":\n"
	for _, e := range es {
		s += fmt.Sprintf(" %s %d %s\n", e.hash, len(e.data), e.name)
	}
	return s
}

func sameList(got []control.FileHash, want []entry) bool {
	if len(got) != len(want) {
		return false
	}
	for i := range got {
		if got[i].Hash != want[i].hash || got[i].Filename != want[i].name || got[i].Size != int64(len(want[i].data)) {
			return false
		}
	}
	return true
}

// checkEntries: the verifier of each parsed entry accepts each candidate stream iff digest_ownalg(stream) == recorded hash.
func checkEntries(key string, para string, got []control.FileHash, want []entry, c [2]int) {
	for i, e := range want {
		streams := map[string][]byte{"recorded-content": e.data, "other-content": append(append([]byte{}, e.data...), 'x')}
		if len(e.data) > 0 {
			streams["shorter-content"] = e.data[:len(e.data)-1]
		}
		for sname, s := range streams {
			in := map[string]interface{}{"paragraph": para, "entry": i, "own_algorithm": e.alg, "stream_hex": hex.EncodeToString(s), "stream": sname, "split_points": c}
			guard(key, in, func() {
				cc := c
				if cc[1] > len(s) {
					cc = [2]int{0, len(s)}
				}
				expect := digest(e.alg, s) == e.hash
				evaluations++
				seen(fmt.Sprintf("%s|%s|%x|%v", key, e.hash, s, cc))
				acc, detail := verify(got[i], pieces(s, cc))
				if acc != expect {
					fail(fmt.Sprintf("%s-%s-accept=%v", key, e.alg, acc), in, fmt.Sprintf("verifier result: %s; %s(stream)=%s, recorded=%s, so expected accept=%v", detail, e.alg, digest(e.alg, s), e.hash, expect))
				}
			})
		}
	}
}

func parsedEntries(data []byte, c [2]int, variant256, variant512 string, layout int) {
	mk := func(alg, variant string) []entry {
		other := append([]byte("other:"), data...)
		return []entry{{alg, recorded(alg, data, variant), "a_1.0.orig.tar.gz", data}, {alg, recorded(alg, other, "equal"), "a_1.0-1.debian.tar.xz", other}}
	}
	var e256, e512 []entry
	if layout != 1 {
		e256 = mk("sha256", variant256)
	}
	if layout != 0 {
		e512 = mk("sha512", variant512)
	}
	para := "Package: a\n" + fieldText("Checksums-Sha256", e256) + fieldText("Checksums-Sha512", e512)
	if layout == 3 { // sha512 field first
		para = "Package: a\n" + fieldText("Checksums-Sha512", e512) + fieldText("Checksums-Sha256", e256)
	}
	in := map[string]interface{}{"paragraph": para}
	if parsedSamples < 4 && len(data) == 5 && variant256 != "equal" && variant512 != "flip" {
		parsedSamples++
		samples = append(samples, map[string]interface{}{"kind": "parsed checksum paragraph", "paragraph": para, "content_hex": hex.EncodeToString(data), "sha256_variant": variant256, "sha512_variant": variant512})
	}
	guard("parse", in, func() {
		var plain control.BestChecksums
		var emb embedding
		if err := control.Unmarshal(&plain, bufio.NewReader(strings.NewReader(para))); err != nil {
			fail("parse-error", in, "Unmarshal into BestChecksums: "+err.Error())
			return
		}
		if err := control.Unmarshal(&emb, bufio.NewReader(strings.NewReader(para))); err != nil {
			fail("parse-error-embedded", in, "Unmarshal into embedding struct: "+err.Error())
			return
		}
		for which, bc := range map[string]*control.BestChecksums{"plain": &plain, "embedded": &emb.BestChecksums} {
			var f256, f512 []control.FileHash
			for _, x := range bc.ChecksumsSha256 {
				f256 = append(f256, x.FileHash)
			}
			for _, x := range bc.ChecksumsSha512 {
				f512 = append(f512, x.FileHash)
			}
			if !sameList(f256, e256) || !sameList(f512, e512) {
				fail("parse-fields-"+which, in, fmt.Sprintf("parsed entries differ from the paragraph: sha256=%+v sha512=%+v", f256, f512))
				continue
			}
			checkEntries("field256-"+which, para, f256, e256, c)
			checkEntries("field512-"+which, para, f512, e512, c)
			// the selector must hand out the entries of one of the secure fields; their own algorithm is that field's
			best := bc.Checksums()
			switch {
			case len(e256) > 0 && sameList(best, e256):
				checkEntries("best-"+which, para, best, e256, c)
			case len(e512) > 0 && sameList(best, e512):
				checkEntries("best-"+which, para, best, e512, c)
			default:
				evaluations++
				fail("best-selection-"+which, in, fmt.Sprintf("Checksums() = %+v is neither the Checksums-Sha256 nor the Checksums-Sha512 list", best))
			}
		}
	})
}

func fromHasher(data []byte, c [2]int) {
	for _, alg := range algs {
		in := map[string]interface{}{"algorithm": alg, "content_hex": hex.EncodeToString(data), "split_points": c}
		guard("fromhasher", in, func() {
			h, err := hashio.NewHasher(alg)
			if err != nil {
				fail("fromhasher-construct", in, err.Error())
				return
			}
			for _, p := range pieces(data, c) {
				if n, err := h.Write(p); n != len(p) || err != nil {
					fail("hasher-write", in, fmt.Sprintf("Write returned (%d, %v)", n, err))
				}
			}
			checkHashers("hasher", in, []string{alg}, []*hashio.Hasher{h}, data, map[string]string{alg: digest(alg, data)})
			fh := control.FileHashFromHasher("pool/a_1.0.orig.tar.gz", *h)
			evaluations++
			if fh.Algorithm != alg || fh.Hash != digest(alg, data) || fh.Size != int64(len(data)) || fh.Filename != "pool/a_1.0.orig.tar.gz" {
				fail("fromhasher-fields-"+alg, in, fmt.Sprintf("FileHashFromHasher = %+v; expected algorithm %s hash %s size %d", fh, alg, digest(alg, data), len(data)))
				return
			}
			variants := []string{"equal", "flip", "trunc", "trunc-odd"}
			for _, o := range algs {
				if o != alg {
					variants = append(variants, o)
				}
			}
			for _, v := range variants {
				e := entry{alg, recorded(alg, data, v), fh.Filename, data}
				g := fh
				g.Hash = e.hash
				checkEntries("fromhasher-"+v, "FileHashFromHasher("+alg+") with recorded hash variant "+v, []control.FileHash{g}, []entry{e}, c)
			}
		})
	}
}

func main() {
	tier := os.Getenv("TIER")
	seed, _ := strconv.ParseInt(os.Getenv("VERIF_SEED"), 10, 64)
	r := rand.New(rand.NewSource(seed + 12))
	sample, vsample := 10, 2
	if tier == "thorough" {
		sample, vsample = 120, 12
	}
	lists := algLists()
	variants := []string{"equal", "flip", "trunc", "trunc-odd", "md5", "sha1", "sha256", "sha512"}
	for n := 0; n <= 64; n++ {
		for pat := 0; pat < 4; pat++ {
			if n == 0 && pat > 0 {
				continue
			}
			data := content(pat, n, seed)
			dig := map[string]string{}
			for _, a := range algs {
				dig[a] = digest(a, data)
			}
			cs := chunkings(n, sample, r)
			for _, c := range cs {
				for _, names := range lists {
					passthrough(data, c, names, dig, pat)
				}
			}
			if passSamples < 4 && n == 7 {
				passSamples++
				samples = append(samples, map[string]interface{}{"kind": "pass-through", "content_hex": hex.EncodeToString(data), "split_points": cs[len(cs)/2], "algorithms": lists[pat*5], "sha1": dig["sha1"]})
			}
			// verifier cases: all chunkings for short contents, a few beyond
			vcs := cs
			if n > 6 {
				vcs = nil
				for k := 0; k < vsample; k++ {
					vcs = append(vcs, cs[r.Intn(len(cs))])
				}
			}
			for ci, c := range vcs {
				fromHasher(data, c)
				for _, v256 := range variants {
					for _, v512 := range variants {
						// a field recording "the hash under another algorithm" must name a different algorithm
						if v256 == "sha256" || v512 == "sha512" {
							continue
						}
						// both variants vary together only on the first chunking; otherwise one field at a time
						if ci > 0 && v256 != "equal" && v512 != "equal" {
							continue
						}
						for layout := 0; layout < 4; layout++ {
							if (layout == 0 && v512 != "equal") || (layout == 1 && v256 != "equal") {
								continue
							}
							parsedEntries(data, c, v256, v512, layout)
						}
					}
				}
			}
		}
	}
	if failures == nil {
		failures = []failure{}
	}
	out := map[string]interface{}{
		"bound": fmt.Sprintf("byte strings of length 0..64 from 4 patterns (zeros, counting, text 'ab\\n', seeded random); chunkings into <=3 pieces: all split points for length<=12, %d sampled beyond; "+
			"all 15 non-empty subsets x 2 orderings of {md5,sha1,sha256,sha512} (%d lists; single name -> NewHasherWriter/Reader, else NewHasherWriters/Readers); writers, readers fed piecewise, readers drained with piece-sized buffers; "+
			"verifiers: entries parsed from paragraphs with only Checksums-Sha256, only Checksums-Sha512, both (either order), into BestChecksums and into a struct embedding it, direct and via Checksums(); entries from FileHashFromHasher for 4 algorithms; "+
			"recorded hash in {equal, one flipped nibble, truncated by 2 and by 1 hex digit, digest of the right content under each other algorithm}; streams in {recorded content, content minus last byte, content plus a byte}", sample, len(lists)),
		"rule":                "oracle: crypto/md5,sha1,sha256,sha512 and hex; a verifier 'accepts' iff Verifier() and Close() both return nil; expected accept iff digest_{field's algorithm}(stream) == recorded text. Distinct = distinct (mode, content, split points, algorithm list) resp. (check, recorded hash, stream, split points); pass-through cases with empty content count as trivial",
		"evaluations":         evaluations,
		"distinct_nontrivial": len(distinct),
		"exhaustive":          false,
		"samples":             samples,
		"failures":            failures,
	}
	json.NewEncoder(os.Stdout).Encode(out)
}
