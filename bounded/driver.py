#!/usr/bin/env python3
"""Runs the bounded stand-in of one property on the real code.

usage: driver.py <ID> <repo> <tier> <out.json>

The harness lives in /verif/bounded/<ID>/ (package main, Go). It is copied to a scratch directory outside /repo and
/verif, given a go.mod that replaces pault.ag/go/debian by <repo>, built and run with TIER=<tier> VERIF_SEED=<seed>.
It prints one JSON object on stdout:
  {"bound": str, "rule": str, "evaluations": int, "distinct_nontrivial": int, "exhaustive": bool,
   "samples": [...], "failures": [{"key": str, "input": any, "what": str}, ...]}
Every failure whose key is listed in known_findings.json (obligation "bounded:<key>") gives a KNOWN-FINDING line,
every other failure a VIOLATION line with a replay file. Results are labelled bounded and never counted as proved.
"""
import json, os, shutil, subprocess, sys, tempfile, time

def main():
    pid, repo, tier, out = sys.argv[1:5]
    here = os.path.dirname(os.path.abspath(__file__))
    src = os.path.join(here, pid)
    t0 = time.time()
    tmp = tempfile.mkdtemp(prefix="govc-bounded-")
    rc = 0
    res = {"violations": 0}
    try:
        work = os.path.join(tmp, "h")
        shutil.copytree(src, work)
        with open(os.path.join(work, "go.mod"), "w") as f:
            f.write("module boundedharness\n\ngo 1.19\n\nrequire pault.ag/go/debian v0.0.0\n\nreplace pault.ag/go/debian => %s\n" % repo)
        shutil.copy(os.path.join(repo, "go.sum"), os.path.join(work, "go.sum"))
        env = dict(os.environ, GOFLAGS="-mod=mod", GOPROXY="off", GOSUMDB="off", GOTOOLCHAIN="local", TIER=tier,
                   VERIF_SEED=os.environ.get("VERIF_SEED", "0"), REPO=repo)
        b = subprocess.run(["go", "build", "-o", os.path.join(tmp, "harness"), "."], cwd=work, env=env, capture_output=True, text=True)
        if b.returncode != 0:
            res = {"violations": 1, "error": "harness does not build against this tree: " + b.stderr[-2000:]}
            print("VIOLATION property=%s replay=%s no-failing-input-found" % (pid, write_replay(pid, "build", res)))
            rc = 1
        else:
            limit = 240 if tier == "quick" else 1500
            try:
                r = subprocess.run([os.path.join(tmp, "harness")], cwd=work, env=env, capture_output=True, text=True, timeout=limit)
                try:
                    res = json.loads(r.stdout)
                except Exception:
                    res = {"failures": [{"key": "harness-crash", "what": "harness produced no JSON (exit %d): %s" % (r.returncode, (r.stderr or r.stdout)[-1500:])}]}
            except subprocess.TimeoutExpired:
                res = {"failures": [{"key": "harness-timeout", "what": "bounded harness did not finish within %ds (hang in the code under test?)" % limit}]}
            known = {}
            try:
                k = json.load(open(os.path.join(here, "..", "known_findings.json")))
                for f in k.get("findings", []):
                    if f.get("property") == pid and f.get("status") != "fixed":
                        known[f["obligation"]] = f
            except Exception:
                pass
            nviol = 0
            hits = 0
            for f in res.get("failures", []):
                key = "bounded:" + f.get("key", "?")
                if key in known:
                    print("KNOWN-FINDING: property=%s %s: %s" % (pid, key, known[key].get("what", "")))
                    hits += 1
                    continue
                nviol += 1
                if nviol <= 5:
                    p = write_replay(pid, "bounded_%d" % nviol, dict(f, property=pid, kind="bounded counterexample on the real code"))
                    print("VIOLATION property=%s replay=%s" % (pid, p))
                    print("  bounded check: %s: %s" % (f.get("key"), f.get("what")))
            res["violations"] = nviol
            res["known_findings_hit"] = hits
            res["failures"] = res.get("failures", [])[:20]
            if nviol:
                rc = 1
    finally:
        shutil.rmtree(tmp, ignore_errors=True)
    res["label"] = "bounded stand-in (never counted as proved)"
    res["wall_s"] = round(time.time() - t0, 2)
    json.dump(res, open(out, "w"), indent=1)
    print("bounded: property=%s evaluations=%s distinct_nontrivial=%s violations=%s wall=%.1fs" % (
        pid, res.get("evaluations"), res.get("distinct_nontrivial"), res.get("violations"), res["wall_s"]))
    sys.exit(rc)

def write_replay(pid, name, content):
    d = os.path.join(os.environ.get("VERIF_OUT") or os.path.join(os.path.dirname(os.path.abspath(__file__)), ".."), "replay", pid)
    os.makedirs(d, exist_ok=True)
    p = os.path.abspath(os.path.join(d, name + ".json"))
    json.dump(content, open(p, "w"), indent=1)
    return p

main()
