package main

// C03 (package version): parse to parts, reject the malformed, render back without loss.
// Bounded stand-in: every string over a 12-letter alphabet up to length 6 / 7 on the real code, against a
// reference parser written from the statement.

import (
	"encoding/json"
	"fmt"
	"strings"
	"sync/atomic"

	"pault.ag/go/debian/version"
)

const alphabet = "019aZ.+~-: !"

// ---- oracle: reference parser written from the statement -------------------------------------------------

const (
	reject = iota
	accept
	unspecified // "1-": an empty revision after a trailing hyphen is neither called well-formed nor listed as rejected
)

type ref struct {
	verdict int
	why     string
	epoch   uint64
	up, rev string
}

func blank(c byte) bool {
	return c == ' ' || c == '\t' || c == '\n' || c == '\r' || c == '\v' || c == '\f'
}
func digit(c byte) bool { return '0' <= c && c <= '9' }
func policy(c byte) bool {
	return digit(c) || 'a' <= c && c <= 'z' || 'A' <= c && c <= 'Z' || c == '.' || c == '+' || c == '~'
}

func refParse(s string) ref {
	for len(s) > 0 && blank(s[0]) { // surrounding whitespace is ignored
		s = s[1:]
	}
	for len(s) > 0 && blank(s[len(s)-1]) {
		s = s[:len(s)-1]
	}
	for i := 0; i < len(s); i++ {
		if blank(s[i]) {
			return ref{why: "embedded whitespace"}
		}
	}
	r := ref{verdict: accept}
	rest := s
	if c := strings.IndexByte(s, ':'); c >= 0 { // epoch: the digits before the first colon
		if c == 0 {
			return ref{why: "non-numeric (empty) epoch"}
		}
		for i := 0; i < c; i++ {
			if !digit(s[i]) {
				return ref{why: "non-numeric or signed epoch"}
			}
			if r.epoch > (1<<63-1-uint64(s[i]-'0'))/10 {
				return ref{why: "oversized epoch"}
			}
			r.epoch = r.epoch*10 + uint64(s[i]-'0')
		}
		if rest = s[c+1:]; rest == "" {
			return ref{why: "nothing after the colon"}
		}
	}
	r.up = rest
	hyphen := strings.LastIndexByte(rest, '-') // revision: the text after the last hyphen
	if hyphen >= 0 {
		r.up, r.rev = rest[:hyphen], rest[hyphen+1:]
	}
	if r.up == "" || !digit(r.up[0]) {
		return ref{why: "upstream does not start with a digit"}
	}
	for i := 0; i < len(r.up); i++ {
		// ':' can only be here when an epoch came first, '-' only when a revision follows
		if c := r.up[i]; !policy(c) && c != '-' && c != ':' {
			return ref{why: "character outside the Policy alphabet in upstream"}
		}
	}
	for i := 0; i < len(r.rev); i++ {
		if !policy(r.rev[i]) {
			return ref{why: "character outside the Policy alphabet in revision"}
		}
	}
	if hyphen >= 0 && r.rev == "" {
		r.verdict = unspecified
	}
	return r
}

// ---- checks ------------------------------------------------------------------------------------------------

type box struct{ V version.Version }

func show(v version.Version) string { return fmt.Sprintf("{%d %q %q}", v.Epoch, v.Version, v.Revision) }

// same checks one round trip: rendering `text` of v was parsed into w (or failed with err).
func same(class, in string, v version.Version, text string, w version.Version, err error) {
	switch {
	case err != nil:
		fail(class, in, fmt.Sprintf("parsed %s, rendered %q, parsing that fails: %v", show(v), text, err))
	case w != v:
		fail(class, in, fmt.Sprintf("parsed %s, rendered %q, parsing that gives %s", show(v), text, show(w)))
	case version.Compare(v, w) != 0:
		fail(class, in, fmt.Sprintf("Compare(%s, reparsed) = %d, expected 0", show(v), version.Compare(v, w)))
	}
}

func check(in string, counted bool) {
	atomic.AddInt64(&evaluations, 1)
	want := refParse(in)
	guard(in, func() {
		v, err := version.Parse(in)
		if err != nil && v != (version.Version{}) {
			fail("value-xor-error", in, fmt.Sprintf("error %q together with the non-zero value %s", err, show(v)))
		}
		if wanted(in) {
			s := map[string]interface{}{"input": in, "oracle": []string{"reject: " + want.why, "accept", "unspecified (empty revision)"}[want.verdict]}
			if err == nil {
				s["parsed"], s["rendered"] = show(v), v.String()
			} else {
				s["error"] = err.Error()
			}
			keep(fmt.Sprint(err == nil), in, s)
		}
		if err != nil {
			if want.verdict == accept {
				fail("rejects-wellformed", in, fmt.Sprintf("error %q, expected {%d %q %q}", err, want.epoch, want.up, want.rev))
			}
			return
		}
		if counted {
			atomic.AddInt64(&distinct, 1)
		}
		if want.verdict == reject {
			fail("accepts-malformed", in, fmt.Sprintf("parsed as %s, expected an error (%s)", show(v), want.why))
		} else if uint64(v.Epoch) != want.epoch || v.Version != want.up || v.Revision != want.rev {
			fail("parts", in, fmt.Sprintf("parsed as %s, expected {%d %q %q}", show(v), want.epoch, want.up, want.rev))
		}
		// the four renderings, each parsed again
		str := v.String()
		w, e := version.Parse(str)
		same("roundtrip-string", in, v, str, w, e)

		ctl, e := v.MarshalControl()
		w = version.Version{}
		if e == nil {
			e = w.UnmarshalControl(ctl)
		}
		same("roundtrip-control", in, v, ctl, w, e)

		txt, e := v.MarshalText()
		w = version.Version{}
		if e == nil {
			e = w.UnmarshalText(txt)
		}
		same("roundtrip-text", in, v, string(txt), w, e)

		for _, j := range []struct {
			class string
			arg   interface{}
		}{{"roundtrip-json", &box{v}}, {"roundtrip-json-byvalue", box{v}}} {
			var b box
			js, e := json.Marshal(j.arg)
			if e == nil {
				e = json.Unmarshal(js, &b)
			}
			same(j.class, in, v, string(js), b.V, e)
		}
	})
}

func nth(i int64, n int) string { // the i-th string of length n over the alphabet
	b := make([]byte, n)
	for k := n - 1; k >= 0; k-- {
		b[k] = alphabet[i%int64(len(alphabet))]
		i /= int64(len(alphabet))
	}
	return string(b)
}

func main() {
	maxLen := 6
	if thorough {
		maxLen = 7
	}
	size := int64(1)
	for n := 0; n <= maxLen; n++ {
		n := n
		parallel(size, func(i int64) { check(nth(i, n), true) })
		if n <= 4 { // wrapped in blanks; wraps made of ' ' only are already strings of the domain above
			for _, lead := range []string{"", " ", "\t", "\n"} {
				for _, trail := range []string{"", " ", "\t", "\n"} {
					if strings.ContainsAny(lead+trail, "\t\n") {
						parallel(size, func(i int64) {
							s := nth(i, n) // the same text arises twice when a ' ' of s could be the wrap: count it once
							dup := lead == "" && strings.HasPrefix(s, " ") || trail == "" && strings.HasSuffix(s, " ")
							check(lead+s+trail, !dup)
						})
					}
				}
			}
		}
		size *= int64(len(alphabet))
	}
	for _, s := range []string{"9223372036854775807:1", "9223372036854775808:1", "-1:1", "+1:1", "0x1:1",
		"18446744073709551615:1", "18446744073709551616:1", "09223372036854775807:1", "-0:1", "1\u00a01"} {
		check(s, true)
	}
	emit(fmt.Sprintf("all %d-letter-alphabet strings over {0,1,9,a,Z,.,+,~,-,:,' ',!} of length 0..%d; each such string of length <= 4 "+
		"wrapped in every leading/trailing combination of \"\", \" \", \"\\t\", \"\\n\"; 10 epoch-limit / non-ASCII-blank strings",
		len(alphabet), maxLen),
		"exhaustive enumeration in index order; every input goes through version.Parse and a reference parser written from the "+
			"statement (accept/reject, epoch/upstream/revision, zero value on error); every input the real parser accepts is rendered "+
			"with String, MarshalControl, MarshalText and encoding/json (struct field, marshalled through a pointer and by value) and "+
			"parsed again (same value, Compare == 0). distinct_nontrivial = distinct inputs accepted by version.Parse; a trailing "+
			"hyphen (empty revision) is left unspecified for accept/reject but its parts and round trips are checked",
		true)
}
