package main

// C05 (package dependency): rendering a parsed dependency reaches a fixpoint in one step and loses nothing;
// architecture names survive ParseArch -> String -> ParseArch.
// Bounded stand-in: every concatenation of up to 5 / 6 tokens of a 16-token alphabet, and every architecture name of
// 1..4 components over {any, all, gnu, linux, a, b, <empty>}, on the real code.

import (
	"fmt"
	"sort"
	"strings"
	"sync"
	"sync/atomic"

	"pault.ag/go/debian/dependency"
)

var tokens = []string{"foo", "b", ",", "|", " ", "\t", ":any", "(>= 1)", "(<< 2)", "[amd64]", "[!i386 !amd64]", "<stage1>", "<!x y>",
	"${s:V}", "\xc3\xa9", "("}

// ---- structural comparison, written out field by field ----------------------------------------------------------

func showArch(a *dependency.Arch) string {
	if a == nil {
		return "none"
	}
	return fmt.Sprintf("(%q,%q,%q)", a.ABI, a.OS, a.CPU)
}

func diffPossi(p, q dependency.Possibility) string {
	if p.Name != q.Name {
		return fmt.Sprintf("name %q became %q", p.Name, q.Name)
	}
	if p.Substvar != q.Substvar {
		return fmt.Sprintf("substvar marker %v became %v", p.Substvar, q.Substvar)
	}
	if (p.Arch == nil) != (q.Arch == nil) || p.Arch != nil && *p.Arch != *q.Arch {
		return fmt.Sprintf("qualifier %s became %s", showArch(p.Arch), showArch(q.Arch))
	}
	if (p.Version == nil) != (q.Version == nil) || p.Version != nil && *p.Version != *q.Version {
		return fmt.Sprintf("version constraint %+v became %+v", p.Version, q.Version)
	}
	var pa, qa dependency.ArchSet // a missing list and an empty list are the same restriction (none)
	if p.Architectures != nil {
		pa = *p.Architectures
	}
	if q.Architectures != nil {
		qa = *q.Architectures
	}
	same := len(pa.Architectures) == len(qa.Architectures) && (len(pa.Architectures) == 0 || pa.Not == qa.Not)
	for i := 0; same && i < len(pa.Architectures); i++ {
		same = pa.Architectures[i] == qa.Architectures[i]
	}
	if !same {
		return fmt.Sprintf("architecture restriction %+v became %+v", pa, qa)
	}
	same = len(p.StageSets) == len(q.StageSets)
	for i := 0; same && i < len(p.StageSets); i++ {
		same = len(p.StageSets[i].Stages) == len(q.StageSets[i].Stages)
		for k := 0; same && k < len(p.StageSets[i].Stages); k++ {
			same = p.StageSets[i].Stages[k] == q.StageSets[i].Stages[k]
		}
	}
	if !same {
		return fmt.Sprintf("profile restriction %+v became %+v", p.StageSets, q.StageSets)
	}
	return ""
}

func diffDep(d, e *dependency.Dependency) string {
	if len(d.Relations) != len(e.Relations) {
		return fmt.Sprintf("%d relations became %d", len(d.Relations), len(e.Relations))
	}
	for i := range d.Relations {
		p, q := d.Relations[i].Possibilities, e.Relations[i].Possibilities
		if len(p) != len(q) {
			return fmt.Sprintf("relation %d: %d alternatives became %d", i, len(p), len(q))
		}
		for k := range p {
			if w := diffPossi(p[k], q[k]); w != "" {
				return fmt.Sprintf("relation %d alternative %d: %s", i, k, w)
			}
		}
	}
	return ""
}

// ---- checks --------------------------------------------------------------------------------------------------------

var (
	hashMu sync.Mutex
	seen   []uint64 // hashes of the accepted inputs, to count the distinct ones
)

func checkDep(in string, local *[]uint64) {
	atomic.AddInt64(&evaluations, 1)
	guard(in, func() {
		d, err := dependency.Parse(in)
		if (err != nil) != (d == nil) {
			fail("value-xor-error", in, fmt.Sprintf("result %v together with error %v", d, err))
		}
		if err != nil || d == nil {
			if wanted(in) {
				keep("rejected", in, map[string]string{"input": in, "error": fmt.Sprint(err)})
			}
			return
		}
		*local = append(*local, hash(in))
		s1 := d.String()
		e, err := dependency.Parse(s1)
		if err != nil || e == nil {
			fail("rendering-rejected", in, fmt.Sprintf("rendered as %q, which the parser rejects: %v", s1, err))
			return
		}
		if w := diffDep(d, e); w != "" {
			fail("structure", in, fmt.Sprintf("rendered as %q; after parsing that: %s", s1, w))
		}
		if s2 := e.String(); s2 != s1 {
			fail("fixpoint", in, fmt.Sprintf("first rendering %q, second rendering %q", s1, s2))
		}
		if wanted(in) {
			keep("accepted", in, map[string]string{"input": in, "rendered": s1})
		}
	})
}

func checkArch(name string) {
	atomic.AddInt64(&evaluations, 1)
	guard(name, func() {
		a, err := dependency.ParseArch(name)
		if err != nil || a == nil {
			return
		}
		atomic.AddInt64(&distinct, 1) // the names are distinct by construction
		s := a.String()
		b, err := dependency.ParseArch(s)
		switch {
		case err != nil || b == nil:
			fail("arch-rendering-rejected", name, fmt.Sprintf("%s rendered as %q, which ParseArch rejects: %v", showArch(a), s, err))
		case *a != *b:
			fail("arch-roundtrip", name, fmt.Sprintf("parsed as %s, rendered as %q, parsed again as %s", showArch(a), s, showArch(b)))
		case b.String() != s:
			fail("arch-fixpoint", name, fmt.Sprintf("first rendering %q, second rendering %q", s, b.String()))
		}
		if wanted(name) || name == "linux-any" || name == "any-a" {
			keep("arch", name, map[string]string{"arch": name, "parsed": showArch(a), "rendered": s})
		}
	})
}

func main() {
	maxLen := 5
	if thorough {
		maxLen = 6
	}
	nt := int64(len(tokens))
	total := int64(1)
	for n := 0; n <= maxLen; n++ {
		n := n
		parallel(total, func(i int64) {
			var sb strings.Builder
			for k := 0; k < n; k++ {
				sb.WriteString(tokens[i%nt])
				i /= nt
			}
			local := []uint64{}
			checkDep(sb.String(), &local)
			if len(local) > 0 {
				hashMu.Lock()
				seen = append(seen, local...)
				hashMu.Unlock()
			}
		})
		total *= nt
	}
	sort.Slice(seen, func(i, j int) bool { return seen[i] < seen[j] })
	for i, h := range seen {
		if i == 0 || h != seen[i-1] {
			distinct++
		}
	}
	depDistinct := distinct

	comps := []string{"any", "all", "gnu", "linux", "a", "b", ""} // "" : names with an empty component ("-a", "a--b", "")
	names := []string{""}
	var build func(prefix string, first bool, left int)
	build = func(prefix string, first bool, left int) {
		for _, c := range comps {
			n := c
			if !first {
				n = prefix + "-" + c
			}
			if n != "" {
				names = append(names, n)
			}
			if left > 1 {
				build(n, false, left-1)
			}
		}
	}
	build("", true, 4)
	parallel(int64(len(names)), func(i int64) { checkArch(names[i]) })

	q := []string{}
	for _, t := range tokens {
		q = append(q, fmt.Sprintf("%q", t))
	}
	emit(fmt.Sprintf("all concatenations of 0..%d tokens from the %d-token alphabet {%s} as input of dependency.Parse; all %d architecture names of "+
		"1..4 components from {%s} joined by '-' as input of ParseArch", maxLen, len(tokens), strings.Join(q, ", "), len(names), strings.Join(comps, ", ")),
		fmt.Sprintf("exhaustive enumeration in index order. Every input the parser accepts is rendered with Dependency.String(), the rendering must "+
			"be accepted and parse to the same structure (names, qualifier triples, operator/number, negation + architecture triples, profile groups, "+
			"substvar markers, compared field by field; a missing and an empty architecture list are the same), and its rendering must equal the "+
			"first one. Architecture names: ParseArch, String, ParseArch must give the same (ABI, OS, CPU) and the same rendering. "+
			"distinct_nontrivial = %d distinct (64-bit hash) inputs accepted by dependency.Parse + %d names accepted by ParseArch; value-xor-error "+
			"and panics are checked on every input", depDistinct, distinct-depDistinct),
		true)
}
