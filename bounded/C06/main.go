package main

// C06 (package dependency, uses version): Arch.Is, ArchSet.Matches, Dependency.GetPossibilities, VersionRelation.SatisfiedBy.
// Bounded stand-in: all pairs of architectures over a 4-letter component alphabet, all short architecture lists, all small
// dependencies built directly as structs, all (operator, number, version) triples over small sets - on the real code,
// against oracles written from the statement.

import (
	"fmt"
	"strings"
	"sync/atomic"

	"pault.ag/go/debian/dependency"
	"pault.ag/go/debian/version"
)

type Arch = dependency.Arch

func show(a Arch) string { return a.ABI + "-" + a.OS + "-" + a.CPU }

// ---- oracle ----------------------------------------------------------------------------------------------------------

var all Arch // the atomic architecture "all"

func wildcard(a Arch) bool { return a != all && (a.ABI == "any" || a.OS == "any" || a.CPU == "any") }

// matches: the statement's answer for a.Is(b); defined=false for wildcard against wildcard (left open by the statement).
func matches(a, b Arch) (result, defined bool) {
	part := func(w, c string) bool { return w == "any" || w == c }
	switch {
	case a == all || b == all: // 'all' matches only 'all'
		return a == b, true
	case wildcard(a) && wildcard(b):
		return false, false
	case wildcard(a): // concrete b against wildcard a: every wildcard component is 'any' or equals the concrete one
		return part(a.ABI, b.ABI) && part(a.OS, b.OS) && part(a.CPU, b.CPU), true
	case wildcard(b):
		return part(b.ABI, a.ABI) && part(b.OS, a.OS) && part(b.CPU, a.CPU), true
	}
	return a == b, true // two concrete architectures
}

// admits: a list admits an architecture iff (some entry matches) != negated; the empty list admits everything.
func admits(not bool, list []Arch, a Arch) bool {
	if len(list) == 0 {
		return true
	}
	some := false
	for _, e := range list {
		m, defined := matches(e, a)
		if !defined {
			m = e.Is(&a) // wildcard against wildcard: whatever Is says (only its symmetry is specified)
		}
		some = some || m
	}
	return some != not
}

func count(n int64) { atomic.AddInt64(&evaluations, n); atomic.AddInt64(&distinct, n) }

// ---- 1. Arch.Is ----------------------------------------------------------------------------------------------------------

func checkIs(archs []Arch) {
	n := int64(len(archs))
	parallel(n*n, func(i int64) {
		a, b := archs[i/n], archs[i%n]
		id := show(a) + " ~ " + show(b)
		count(1)
		guard(id, func() {
			ac, bc := a, b // Is takes pointers: work on copies
			got, back := ac.Is(&bc), bc.Is(&ac)
			if ac != a || bc != b {
				fail("is-mutates", id, "Is changed an operand")
			}
			want, defined := matches(a, b)
			kind := "wildcard/wildcard"
			switch {
			case a == all || b == all:
				kind = "all"
			case defined && (wildcard(a) || wildcard(b)):
				kind = "concrete/wildcard"
			case defined:
				kind = "concrete/concrete"
			}
			if defined && got != want {
				fail("is-"+kind, id, fmt.Sprintf("(%s).Is(%s) = %v, expected %v", show(a), show(b), got, want))
			}
			if got != back {
				fail("is-symmetry", id, fmt.Sprintf("(%s).Is(%s) = %v but swapped = %v", show(a), show(b), got, back))
			}
			if wanted(id) {
				keep("is", id, map[string]interface{}{"a": show(a), "b": show(b), "kind": kind, "Is": got})
			}
		})
	})
}

// ---- 2. ArchSet.Matches ----------------------------------------------------------------------------------------------------

func showList(not bool, l []Arch) string {
	s := []string{}
	for _, a := range l {
		if not {
			s = append(s, "!"+show(a))
		} else {
			s = append(s, show(a))
		}
	}
	return "[" + strings.Join(s, " ") + "]"
}

func checkMatches(entries, archs []Arch, maxLen int) {
	lists := [][]Arch{{}}
	for lo, n := 0, 0; n < maxLen; n++ {
		hi := len(lists)
		for _, l := range lists[lo:hi] {
			for _, e := range entries {
				lists = append(lists, append(append([]Arch{}, l...), e))
			}
		}
		lo = hi
	}
	na := int64(len(archs))
	parallel(int64(len(lists))*2*na, func(i int64) {
		a, not, list := archs[i%na], i/na%2 == 1, lists[i/na/2]
		id := showList(not, list) + " @ " + show(a)
		count(1)
		guard(id, func() {
			set := dependency.ArchSet{Not: not, Architectures: append([]Arch{}, list...)}
			ac := a
			got, want := set.Matches(&ac), admits(not, list, a)
			if got != want {
				fail("matches", id, fmt.Sprintf("%s.Matches(%s) = %v, expected %v", showList(not, list), show(a), got, want))
			}
			if wanted(id) {
				keep("matches", id, map[string]interface{}{"list": showList(not, list), "arch": show(a), "Matches": got})
			}
		})
	})
}

// ---- 3. Dependency.GetPossibilities ------------------------------------------------------------------------------------------

type altKind struct {
	subst bool
	not   bool
	list  []Arch
}

type relCfg struct {
	rel   dependency.Relation
	text  string
	first []int // per target architecture: index of the first non-substvar alternative whose list admits it, or -1
}

func checkPossibilities(kinds []altKind, targets []Arch, maxRel, maxAlt int) {
	// all relations of 1..maxAlt alternatives
	cfgs := []relCfg{}
	var build func(ks []int)
	build = func(ks []int) {
		if len(ks) > 0 {
			c := relCfg{}
			parts := []string{}
			for k, ki := range ks {
				kd := kinds[ki]
				p := dependency.Possibility{Name: fmt.Sprintf("c%d.%d", len(cfgs), k), Substvar: kd.subst, StageSets: []dependency.StageSet{}}
				if kd.subst {
					parts = append(parts, "${"+p.Name+"}")
				} else {
					p.Architectures = &dependency.ArchSet{Not: kd.not, Architectures: append([]Arch{}, kd.list...)}
					if parts = append(parts, p.Name); len(kd.list) > 0 {
						parts[k] += " " + showList(kd.not, kd.list)
					}
				}
				c.rel.Possibilities = append(c.rel.Possibilities, p)
			}
			c.text = strings.Join(parts, " | ")
			for _, t := range targets {
				first := -1
				for k, ki := range ks {
					if kd := kinds[ki]; first < 0 && !kd.subst && admits(kd.not, kd.list, t) {
						first = k
					}
				}
				c.first = append(c.first, first)
			}
			cfgs = append(cfgs, c)
		}
		if len(ks) < maxAlt {
			for ki := range kinds {
				build(append(append([]int{}, ks...), ki))
			}
		}
	}
	build(nil)
	r := int64(len(cfgs))
	total, pow := int64(1), int64(1) // dependencies of 0..maxRel relations
	for n := 1; n <= maxRel; n++ {
		pow *= r
		total += pow
	}
	parallel(total, func(i int64) {
		rels := []int{}
		if i > 0 {
			i--
			size := r
			n := 1
			for i >= size {
				i -= size
				size *= r
				n++
			}
			for ; n > 0; n-- {
				rels = append(rels, int(i%r))
				i /= r
			}
		}
		dep := dependency.Dependency{Relations: make([]dependency.Relation, len(rels))}
		texts := make([]string, len(rels))
		for k, ri := range rels {
			dep.Relations[k] = cfgs[ri].rel
			texts[k] = cfgs[ri].text
		}
		count(int64(len(targets)))
		for ti, t := range targets {
			want := []string{}
			for _, ri := range rels {
				if f := cfgs[ri].first[ti]; f >= 0 {
					want = append(want, cfgs[ri].rel.Possibilities[f].Name)
				}
			}
			id := strings.Join(texts, ", ") + " @ " + show(t)
			guard(id, func() {
				got := []string{}
				for _, p := range dep.GetPossibilities(t) {
					got = append(got, p.Name)
				}
				if strings.Join(got, " ") != strings.Join(want, " ") {
					fail("possibilities", id, fmt.Sprintf("GetPossibilities(%s) = %v, expected %v", show(t), got, want))
				}
				if wanted(id) {
					keep("possibilities", id, map[string]interface{}{"dependency": strings.Join(texts, ", "), "arch": show(t), "selected": got})
				}
			})
		}
	})
}

// ---- 4. VersionRelation.SatisfiedBy ----------------------------------------------------------------------------------------

func checkSatisfied(ops, numbers []string) {
	for _, op := range ops {
		for _, n := range numbers {
			for _, vs := range numbers {
				v, err := version.Parse(vs)
				if err != nil {
					continue // SatisfiedBy takes a parsed version
				}
				id := fmt.Sprintf("%s (%s %s)", vs, op, n)
				count(1)
				guard(id, func() {
					want := false
					if nv, err := version.Parse(n); err == nil { // never when N is unparsable
						c := version.Compare(v, nv)
						switch op { // never when op is unknown
						case "<<":
							want = c < 0
						case "<=":
							want = c <= 0
						case "=":
							want = c == 0
						case ">=":
							want = c >= 0
						case ">>":
							want = c > 0
						}
					}
					got := dependency.VersionRelation{Operator: op, Number: n}.SatisfiedBy(v)
					if got != want {
						fail("satisfied", id, fmt.Sprintf("(%s %s).SatisfiedBy(%s) = %v, expected %v", op, n, vs, got, want))
					}
					if wanted(id + "#") {
						keep("satisfied", id, map[string]interface{}{"constraint": "(" + op + " " + n + ")", "version": vs, "SatisfiedBy": got})
					}
				})
			}
		}
	}
}

func main() {
	a, err := dependency.ParseArch("all")
	if err != nil || a == nil {
		fail("parse-all", "all", fmt.Sprintf("ParseArch(\"all\") failed: %v", err))
		emit("none", "ParseArch(\"all\") failed", false)
		return
	}
	all = *a

	comps := []string{"any", "x", "y", "z"}
	listLen, maxRel, maxAlt := 3, 3, 3
	kinds := []altKind{{subst: true}, {}, {list: []Arch{{"x", "x", "y"}}}, {not: true, list: []Arch{{"x", "x", "y"}}}, {list: []Arch{{"any", "y", "any"}, {"y", "x", "z"}}}}
	numbers := []string{"1.0", "1.0-1", "2:0.1", "1.0~rc1", "1.0+b1", "1.0-0", "garbage!"}
	if thorough {
		comps = append(comps, "w")
		listLen = 4
		kinds = append(kinds, altKind{not: true, list: []Arch{{"any", "any", "y"}, all}})
		numbers = append(numbers, "0", "1", "1.0-1~", "1:0", "1.00", "1.0a", "-1", "", "1.0 1")
	}
	archs := []Arch{all}
	for _, abi := range comps {
		for _, os := range comps {
			for _, cpu := range comps {
				archs = append(archs, Arch{abi, os, cpu})
			}
		}
	}
	checkIs(archs)
	nIs := evaluations

	entries := []Arch{all, {"any", "any", "any"}, {"any", "x", "any"}, {"any", "any", "y"}, {"x", "x", "y"}, {"z", "y", "x"}}
	checkMatches(entries, archs, listLen)
	nMatches := evaluations - nIs

	targets := []Arch{{"x", "x", "y"}, {"z", "y", "x"}, {"y", "x", "z"}, all}
	checkPossibilities(kinds, targets, maxRel, maxAlt)
	nPoss := evaluations - nIs - nMatches

	ops := []string{"<<", "<=", "=", ">=", ">>", "", "<", "=="}
	checkSatisfied(ops, numbers)
	nSat := evaluations - nIs - nMatches - nPoss

	emit(fmt.Sprintf("Is: all ordered pairs of the %d architectures {all} + {%s}^3 (ABI, OS, CPU; structs built directly, all = ParseArch(\"all\")); "+
		"Matches: all lists of 0..%d entries over {all, any-any-any, any-x-any, any-any-y, x-x-y, z-y-x}, negated or not, against each of the %d architectures; "+
		"GetPossibilities: all dependencies of 0..%d relations x 1..%d alternatives, each alternative one of %d kinds (substvar, no list, [x-x-y], [!x-x-y], "+
		"[any-y-any y-x-z]%s), against {x-x-y, z-y-x, y-x-z, all}; SatisfiedBy: op in {<<, <=, =, >=, >>, \"\", <, ==} x N in %q x V in the parsable ones of the same set",
		len(archs), strings.Join(comps, ", "), listLen, len(archs), maxRel, maxAlt, len(kinds), map[bool]string{true: ", [!any-any-y !all]"}[thorough], numbers),
		fmt.Sprintf("exhaustive enumeration; oracles written from the statement: Is = 'all' only with 'all' / equal if both concrete / componentwise "+
			"any-or-equal for concrete against wildcard, symmetric for every pair (wildcard against wildcard: symmetry and no panic only); Matches = empty "+
			"or (some entry matches) != negated (a wildcard entry against a wildcard architecture uses the real Is); GetPossibilities = per relation, "+
			"in order, the name of the first non-substvar alternative whose list admits the architecture; SatisfiedBy = N parsable, op known and "+
			"version.Compare(V, N) in the relation named by op. Cases: %d Is + %d Matches + %d GetPossibilities + %d SatisfiedBy, all distinct by construction",
			nIs, nMatches, nPoss, nSat),
		true)
}
