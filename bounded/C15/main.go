package main

// C15 (package deb): the ar and .deb readers terminate and stay consistent on arbitrary bytes.
// Bounded stand-in: structured corruption of valid archives (armodel.go) plus every short byte string after the
// global magic, each opened with the real deb.LoadAr/Next (twice) and deb.Load (repeatedly).

import (
	"bytes"
	"fmt"
	"io"
	"runtime/debug"
	"sort"
	"strings"
	"sync/atomic"

	"pault.ag/go/debian/deb"
)

var (
	colValues = []string{"-60", "-1", "-2", "9999999999", "", "abc", "+5", " 5", "0x10", "1e3"}
	substSet  = []byte{0x00, '\n', '-', '9', 0xff}
)

type variant struct {
	desc string
	ms   []member
}

type base struct {
	id      string
	ms      []member
	isDeb   bool
	b       []byte
	offs    []int     // offsets of the member headers
	hdr     []int     // every offset inside the global magic or a member header
	subst   []byte    // the values every header byte is set to
	structs []variant // duplicated, reordered and decoy members
	n       [5]int64  // cumulative case counts: base, col, trunc, subst, struct
}

func bin(s string) []byte { return []byte(s) }

func bases() []*base {
	blank := func(name string, data []byte) member {
		m := file(name, data)
		m.mtime, m.uid, m.gid, m.mode = "", "", "", ""
		return m
	}
	l := []*base{
		{id: "ar0", ms: []member{}},
		{id: "ar1", ms: []member{file("debian-binary", bin("2.0\n"))}},
		{id: "ar2", ms: []member{file("a", bin("`\n\x00")), blank("with/", nil), file("sixteen-chars-xx", bin("!<arch>\n"))}},
		{id: "ar3", ms: []member{file("control.tar.gz", bin("\n`\n 60 `")), file("a", bin("`"))}},
		{id: "ar4", ms: []member{file("sixteen-chars-xx", bin("\xff\n")), blank("a", bin("\n"))}},
		{id: "deb1", isDeb: true, ms: debMembers("foo", true, true)},
		{id: "deb2", isDeb: true, ms: debMembers("foo", false, true)},
	}
	if thorough {
		l = append(l, &base{id: "deb3", isDeb: true, ms: debMembers("foo", false, false)},
			&base{id: "deb4", isDeb: true, ms: debMembers("foo", true, false)})
		// every archive of 1..2 members of the C13 model
		opts := []member{}
		for _, n := range []string{"a", "debian-binary", "control.tar.gz", "sixteen-chars-xx", "with/"} {
			for _, s := range []int{0, 1, 2, 3, 7, 8} {
				opts = append(opts, file(n, bin("`\n\x00!<arch>\n")[:s]), blank(n, bin("\n`\xff 60 `\n")[:s]))
			}
		}
		for i, x := range opts {
			l = append(l, &base{id: fmt.Sprintf("m%d", i), ms: []member{x}})
			for j, y := range opts {
				l = append(l, &base{id: fmt.Sprintf("m%d.%d", i, j), ms: []member{x, y}})
			}
		}
	}
	for _, x := range l {
		x.prepare()
	}
	return l
}

func (x *base) prepare() {
	x.b = archive(x.ms, x.id != "ar3") // ar3: odd last member without its padding byte
	x.offs = headers(x.ms)
	for i := 0; i < len(arMagic); i++ {
		x.hdr = append(x.hdr, i)
	}
	for _, o := range x.offs {
		for i := 0; i < 60; i++ {
			x.hdr = append(x.hdr, o+i)
		}
	}
	extras := []member{}
	if x.isDeb { // decoys: a second control.*/data.* member with another extension or other content
		extras = []member{file("control.tar", tarball("./control", controlFile("evil"))), file("control.tar.gz", gz(tarball("./control", controlFile("evil")))),
			file("control.tar.xz", bin("not xz")), file("data.tar", tarball("./evil", "evil\n")), file("data.tar.gz", gz(tarball("./evil", "evil\n"))),
			file("data.tar.xz", bin("not xz")), file("debian-binary", bin("2.0\n")), file("_gpgorigin", bin("sig"))}
	}
	insert := func(what string, m member) {
		for p := 0; p <= len(x.ms); p++ {
			ms := append(append(append([]member{}, x.ms[:p]...), m), x.ms[p:]...)
			x.structs = append(x.structs, variant{fmt.Sprintf("%s %s inserted at position %d", what, m.name, p), ms})
		}
	}
	for j, m := range x.ms {
		insert(fmt.Sprintf("copy of member %d", j), m)
	}
	for _, m := range extras {
		insert("decoy", m)
	}
	var perm func(done, rest []member)
	perm = func(done, rest []member) {
		if len(rest) == 0 && len(done) > 1 {
			x.structs = append(x.structs, variant{"members reordered to " + names(done), done})
		}
		for i := range rest {
			perm(append(append([]member{}, done...), rest[i]), append(append([]member{}, rest[:i]...), rest[i+1:]...))
		}
	}
	perm(nil, x.ms)
	x.subst = substSet
	if thorough && !strings.HasPrefix(x.id, "m") { // the named bases get every byte value
		x.subst = make([]byte, 256)
		for v := range x.subst {
			x.subst[v] = byte(v)
		}
	}
	x.n = [5]int64{1, int64(len(x.ms) * len(columns) * len(colValues)), int64(len(x.b)), int64(len(x.hdr) * len(x.subst)), int64(len(x.structs))}
	for i := 1; i < 5; i++ {
		x.n[i] += x.n[i-1]
	}
}

// gen makes case k of the base: its class, id, description and bytes.
func (x *base) gen(k int64) (class, id, desc string, b []byte) {
	b = append([]byte{}, x.b...)
	switch {
	case k < x.n[0]:
		return "base", x.id, "valid archive " + names(x.ms), b
	case k < x.n[1]:
		k -= x.n[0]
		v, c, m := colValues[k%10], columns[k/10%8], int(k/80)
		copy(b[x.offs[m]+c.off:], col(v, c.width))
		return "col", fmt.Sprintf("%s/m%d.%s=%q", x.id, m, c.name, v), fmt.Sprintf("%s: column %s of member %d set to %q", x.id, c.name, m, col(v, c.width)), b
	case k < x.n[2]:
		k -= x.n[1]
		desc = fmt.Sprintf("%s cut to its first %d bytes", x.id, k)
		for i, o := range x.offs { // a cut between two members leaves a well-formed archive
			if end := o + 60 + len(x.ms[i].data); int(k) == o || int(k) == end || int(k) == end+end%2 {
				desc += " (boundary)"
				break
			}
		}
		return "trunc", fmt.Sprintf("%s/cut@%d", x.id, k), desc, b[:k]
	case k < x.n[3]:
		k -= x.n[2]
		o, v := x.hdr[k/int64(len(x.subst))], x.subst[k%int64(len(x.subst))]
		b[o] = v
		return "subst", fmt.Sprintf("%s/%d:=%02x", x.id, o, v), fmt.Sprintf("%s: byte at offset %d set to 0x%02x", x.id, o, v), b
	}
	v := x.structs[k-x.n[3]]
	return "struct", fmt.Sprintf("%s/struct%d", x.id, k-x.n[3]), x.id + ": " + v.desc, archive(v.ms, true)
}

type walked struct {
	trace   string   // what the iteration returned: the members, then the final error
	members string   // the members only, for the comparison of two runs
	names   []string // names of the returned members
	eof     bool
}

// walk opens b as an ar archive, iterates to the end and checks every returned member against the input bytes.
func walk(b []byte, bad func(class, what string, args ...interface{})) (w walked) {
	ar, err := deb.LoadAr(bytes.NewReader(b))
	if err != nil {
		if ar != nil {
			bad("value-with-error", "LoadAr returns an archive together with the error %v", err)
		}
		return walked{trace: "LoadAr: " + err.Error()}
	}
	off, limit := int64(len(arMagic)), len(b)/60+1
	for steps := 1; ; steps++ {
		if steps > limit {
			bad("steps", "still going after %d Next() calls on %d bytes (limit len/60+1 = %d)", steps-1, len(b), limit)
			return
		}
		e, err := ar.Next()
		if err != nil {
			if e != nil {
				bad("value-with-error", "Next() returns a member together with the error %v", err)
			}
			w.trace += "end: " + err.Error()
			w.eof = err == io.EOF
			return
		}
		if e == nil || e.Data == nil {
			bad("nil-member", "Next() number %d returns no member / no reader and no error", steps)
			return
		}
		w.members += fmt.Sprintf("%q %d %d %d %q %d; ", e.Name, e.Timestamp, e.OwnerID, e.GroupID, e.FileMode, e.Size)
		w.trace = w.members
		w.names = append(w.names, e.Name)
		if e.Size < 0 {
			bad("negative-size", "member %d (%q) has size %d", steps, e.Name, e.Size)
			return
		}
		if off+60 > int64(len(b)) || b[off+58] != 0x60 || b[off+59] != 0x0a {
			bad("magic", "member %d (%q) returned for the header at offset %d, which does not end in 0x60 0x0a", steps, e.Name, off)
		}
		data, err := io.ReadAll(e.Data)
		lo, hi := off+60, off+60+e.Size
		if err != nil || int64(len(data)) != e.Size || hi < lo || hi > int64(len(b)) || !bytes.Equal(data, b[lo:hi]) {
			bad("data", "member %d (%q, header at %d) has size %d, its reader delivers %d bytes (%v); equal to the input bytes there: %v",
				steps, e.Name, off, e.Size, len(data), err, hi >= lo && hi <= int64(len(b)) && bytes.Equal(data, b[lo:hi]))
		}
		off += 60 + e.Size + e.Size%2
		if off < 0 {
			return
		}
	}
}

// load opens b as a .deb and describes the outcome.
func load(b []byte) (outcome string, err error) {
	d, err := deb.Load(bytes.NewReader(b), "x.deb")
	if err != nil {
		if d != nil {
			return "value-with-error", err
		}
		return "error", err
	}
	defer d.Close()
	keys := []string{}
	for k := range d.ArContent {
		keys = append(keys, k)
	}
	sort.Strings(keys)
	return fmt.Sprintf("ok control%s data%s package=%q members=%q", d.ControlExt, d.DataExt, d.Control.Package, keys), nil
}

var nEOF, nErr, nLoaded, nRejected, nDropped, nMessage int64

// check runs one input; mkid makes its stable id (only needed for failures and samples).
func check(class string, mkid func() string, desc string, b []byte, loads int, sample bool) {
	atomic.AddInt64(&evaluations, 1)
	id := ""
	var in interface{}
	bad := func(c, what string, args ...interface{}) {
		if in == nil {
			in, id = blob(desc, b), mkid()
		}
		fail(c, id, in, fmt.Sprintf(what, args...))
	}
	w := walk(b, bad)
	if w2 := walk(b, bad); w2.members != w.members || w2.eof != w.eof { // the text of the final error is not part of the outcome
		bad("repeat-ar", "two iterations over the same bytes differ: %s / %s", w.trace, w2.trace)
	} else if w2.trace != w.trace {
		atomic.AddInt64(&nMessage, 1)
	}
	if w.eof {
		atomic.AddInt64(&nEOF, 1)
	} else {
		atomic.AddInt64(&nErr, 1)
	}
	out, err := load(b)
	if out == "value-with-error" {
		bad("value-with-error", "deb.Load returns a Deb together with the error %v", err)
	}
	for k := 1; k < loads; k++ {
		if o, _ := load(b); o != out {
			bad("repeat-load", "deb.Load number %d gives %q, the first gave %q", k+1, o, out)
		}
	}
	seen, controls, datas, dup := map[string]bool{}, 0, 0, false
	for _, n := range w.names {
		dup = dup || seen[n]
		seen[n] = true
		if strings.HasPrefix(n, "control.") {
			controls++
		}
		if strings.HasPrefix(n, "data.") {
			datas++
		}
	}
	if (dup || controls > 1 || datas > 1) && err == nil {
		bad("ambiguous-deb", "members %q (duplicate name, or more than one control.*/data.*) loaded as %s, expected an error", w.names, out)
	}
	if err == nil {
		atomic.AddInt64(&nLoaded, 1)
	} else {
		atomic.AddInt64(&nRejected, 1)
	}
	if class == "trunc" && w.eof && len(b) > len(arMagic) && !strings.HasSuffix(desc, "(boundary)") {
		atomic.AddInt64(&nDropped, 1) // not demanded by the statement, reported as a side count only
	}
	if class == "base" { // the unmutated archives must read cleanly, otherwise the corruption classes mean little
		if !w.eof || len(w.names) != strings.Count(desc, "(") {
			bad("base", "valid archive does not iterate to the end: %s", w.trace)
		}
		if strings.Contains(desc, "debian-binary(4) control.") && !strings.Contains(out, `package="foo"`) {
			bad("base", "valid .deb does not load: %s %v", out, err)
		}
	}
	if sample {
		id = mkid()
		s := map[string]interface{}{"id": id, "input": blob(desc, b), "ar": w.trace, "deb.Load": out}
		if err != nil {
			s["deb.Load"] = "error: " + err.Error()
		}
		keep(class, id, s)
	}
}

func short(i int64) []byte { // the i-th byte string of length 0..3, behind the global magic
	b := []byte(arMagic)
	for n, size := 0, int64(1); ; n, size = n+1, size*256 {
		if i < size {
			for k := n - 1; k >= 0; k-- {
				b = append(b, byte(i>>(8*uint(k))))
			}
			return b
		}
		i -= size
	}
}

func main() {
	debug.SetGCPercent(1000) // the cases allocate little and die young
	l := bases()
	cum, total := []int64{}, int64(0)
	for _, x := range l {
		total += x.n[4]
		cum = append(cum, total)
	}
	find := func(i int64) (*base, int64) {
		j := sort.Search(len(cum), func(j int) bool { return cum[j] > i })
		return l[j], i - (cum[j] - l[j].n[4])
	}
	run(total, func(i int64) (string, interface{}) {
		x, k := find(i)
		_, id, desc, b := x.gen(k)
		return id, blob(desc, b)
	}, func(i int64) {
		x, k := find(i)
		class, id, desc, b := x.gen(k)
		loads := 2
		if class == "struct" {
			loads = 5
		}
		if len(b) > len(arMagic)+3 && bytes.HasPrefix(b, []byte(arMagic)) && first(b) { // shorter ones are in the class below
			atomic.AddInt64(&distinct, 1)
		}
		check(class, func() string { return id }, desc, b, loads, class == "base" || sampled(id, 200))
		stat("cases "+class, 1)
	})
	nShort := int64(1 + 256 + 256*256 + 256*256*256)
	pick := uint64(seed) % 2000003
	run(nShort, func(i int64) (string, interface{}) {
		return fmt.Sprintf("short/%x", short(i)[8:]), blob("global magic + these bytes", short(i))
	},
		func(i int64) {
			b := short(i)
			atomic.AddInt64(&distinct, 1) // distinct by construction
			check("short", func() string { return fmt.Sprintf("short/%x", b[8:]) }, "global magic followed by these bytes", b, 2, uint64(i)%2000003 == pick)
		})
	stat("cases short", int(nShort))
	stat("iteration ended in io.EOF", int(nEOF))
	stat("iteration ended in an error", int(nErr))
	stat("deb.Load succeeded", int(nLoaded))
	stat("deb.Load failed", int(nRejected))
	stat("same outcome but another error text on the second iteration (map order in parseArEntry)", int(nMessage))
	stat("cut inside a member (not at a member boundary) where the iteration still ended in io.EOF", int(nDropped))
	emit(fmt.Sprintf("%d valid archives (%d ar archives of the C13 model, %d .deb built in memory with control/data tarballs stored or gzip-compressed), "+
		"each: unmutated; every header column (name, mtime, uid, gid, mode, size, magic byte 1, magic byte 2) of every member set to each of %q "+
		"padded/cut to the column width; cut at every offset; every byte of the global magic and of every member header set to each of "+
		"% x%s; every member duplicated at every position, every decoy of {control.tar, control.tar.gz, control.tar.xz, data.tar, data.tar.gz, "+
		"data.tar.xz, debian-binary, _gpgorigin} inserted at every position (.deb only), every reordering of the members; plus the global "+
		"magic followed by every byte string of length 0..3", len(l), countDeb(l, false), countDeb(l, true), colValues, substSet, map[bool]string{false: "", true: " (each of the 256 byte values for the 9 hand-picked bases)"}[thorough]),
		"cases are enumerated in index order from the list of bases; each input is iterated twice with deb.LoadAr/Next (Next() calls <= len/60+1; "+
			"every returned member: header magic 0x60 0x0a at the tracked header offset in the input, Size >= 0, reader delivers exactly Size bytes "+
			"equal to the input bytes behind the header; no value together with an error; both iterations return the same members and end the same way, EOF or error) and loaded with deb.Load "+
			"twice (5 times for duplicated/decoy/reordered members): same error-ness, ControlExt, DataExt, Control.Package and ArContent keys; "+
			"when the iteration shows a duplicate name or more than one control.*/data.* member deb.Load must fail; panics and hangs (5 s) are "+
			"failures. distinct_nontrivial = distinct inputs with an intact global magic (64-bit hash set for the structured cases longer than "+
			"11 bytes; the short strings are distinct by construction)", true)
}

func countDeb(l []*base, deb bool) (n int) {
	for _, x := range l {
		if x.isDeb == deb {
			n++
		}
	}
	return
}
