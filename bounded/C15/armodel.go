package main

// Model of the ar(1) container and of a minimal .deb, written from the format description (the same file is
// copied into C13, C15 and C16). Nothing here calls the code under test.

import (
	"archive/tar"
	"bytes"
	"compress/gzip"
	"strconv"
	"strings"
	"time"
)

const arMagic = "!<arch>\n"

// member is one archive member: the text of its header columns (unpadded, "" = blank column) and its data.
type member struct {
	name, mtime, uid, gid, mode, size string
	data                              []byte
}

// columns of the 60-byte member header: offset and width
var columns = []struct {
	name       string
	off, width int
}{{"name", 0, 16}, {"mtime", 16, 12}, {"uid", 28, 6}, {"gid", 34, 6}, {"mode", 40, 8}, {"size", 48, 10}, {"magic1", 58, 1}, {"magic2", 59, 1}}

// col pads s with spaces (or cuts it) to the width w.
func col(s string, w int) string {
	if len(s) >= w {
		return s[:w]
	}
	return s + strings.Repeat(" ", w-len(s))
}

func (m member) header() string {
	return col(m.name, 16) + col(m.mtime, 12) + col(m.uid, 6) + col(m.gid, 6) + col(m.mode, 8) + col(m.size, 10) + "`\n"
}

// file makes a member with the usual numeric columns and the size of its data.
func file(name string, data []byte) member {
	return member{name, "1700000000", "0", "0", "100644", strconv.Itoa(len(data)), data}
}

// archive writes the members out; data of odd length is padded with "\n", for the last member only if padLast.
func archive(ms []member, padLast bool) []byte {
	b := []byte(arMagic)
	for i, m := range ms {
		b = append(b, m.header()...)
		b = append(b, m.data...)
		if len(m.data)%2 == 1 && (padLast || i < len(ms)-1) {
			b = append(b, '\n')
		}
	}
	return b
}

// headers returns the offset of every member header of archive(ms, ·).
func headers(ms []member) []int {
	offs, off := []int{}, len(arMagic)
	for _, m := range ms {
		offs = append(offs, off)
		off += 60 + len(m.data) + len(m.data)%2
	}
	return offs
}

func names(ms []member) string {
	l := []string{}
	for _, m := range ms {
		l = append(l, m.name+"("+m.size+")")
	}
	return "[" + strings.Join(l, " ") + "]"
}

// tarball holds one regular file; gz compresses it.
func tarball(path, content string) []byte {
	var b bytes.Buffer
	w := tar.NewWriter(&b)
	w.WriteHeader(&tar.Header{Name: path, Mode: 0644, Size: int64(len(content)), ModTime: time.Unix(1700000000, 0), Typeflag: tar.TypeReg})
	w.Write([]byte(content))
	w.Close()
	return b.Bytes()
}

func gz(in []byte) []byte {
	var b bytes.Buffer
	w := gzip.NewWriter(&b)
	w.Write(in)
	w.Close()
	return b.Bytes()
}

func controlFile(pkg string) string {
	return "Package: " + pkg + "\nVersion: 1.0-1\nArchitecture: all\nMaintainer: A B <ab@example.org>\nDescription: bounded test package\n"
}

const payloadPath, payload = "./usr/share/doc/foo/README", "payload of foo\n"

// debMembers builds the three members of a small .deb; the control and data tarballs are stored or gzip-compressed.
func debMembers(pkg string, controlGz, dataGz bool) []member {
	c, cn := tarball("./control", controlFile(pkg)), "control.tar"
	if controlGz {
		c, cn = gz(c), "control.tar.gz"
	}
	d, dn := tarball(payloadPath, payload), "data.tar"
	if dataGz {
		d, dn = gz(d), "data.tar.gz"
	}
	return []member{file("debian-binary", []byte("2.0\n")), file(cn, c), file(dn, d)}
}
