package main

// C04 (package dependency): relationship fields parse into the structure they denote; malformed fields are rejected.
// Bounded stand-in: ASTs of the Policy grammar are rendered in several whitespace layouts and parsed by the real code;
// the result is compared field by field with the AST. Every rendering of a stated subset is then damaged (one byte
// deleted or doubled, or a malformed clause put in) and whatever an independent classifier recognises as one of the
// malformed classes of the statement has to be rejected with an error and a nil result.

import (
	"fmt"
	"sort"
	"strings"
	"sync"
	"sync/atomic"

	"pault.ag/go/debian/dependency"
)

// ---- AST and renderer ----------------------------------------------------------------------------------------

type stage struct {
	not  bool
	name string
}

type clause struct {
	kind    byte // 'v' (op num), 'a' [archs], 'p' <stages>
	op, num string
	not     bool
	archs   []string
	stages  []stage
}

type alt struct {
	subst      bool
	name, qual string
	clauses    []clause // in the order written
	canon      bool     // clauses in the order version, list, profiles (or a substvar)
}

type layout struct{ name, gap, pad, opgap, el, commaPre, commaPost, pipePre, pipePost, lead, trail string }

func uniform(name, b string) layout { return layout{name, b, "", b, b, "", b, b, b, "", ""} }

var layouts = []layout{
	{name: "minimal", el: " "},
	uniform("spaces", " "),
	uniform("tabs", "\t"),
	uniform("folded", "\n "),
	{"padded", "  ", " ", "  ", "  ", " ", " ", " ", " ", " ", " "}, // blanks inside the brackets as well
	// thorough only
	uniform("crlf", "\r\n "),
	{"mixed", "\t ", "\n", "", " \t", "\n ", "", "", "\t", "\n", "\t\n"},
}

func (c clause) render(l layout) string {
	switch c.kind {
	case 'v':
		return "(" + l.pad + c.op + l.opgap + c.num + l.pad + ")"
	case 'a':
		items := []string{}
		for _, a := range c.archs {
			if c.not {
				a = "!" + a
			}
			items = append(items, a)
		}
		return "[" + l.pad + strings.Join(items, l.el) + l.pad + "]"
	}
	items := []string{}
	for _, s := range c.stages {
		if s.not {
			items = append(items, "!"+s.name)
		} else {
			items = append(items, s.name)
		}
	}
	return "<" + l.pad + strings.Join(items, l.el) + l.pad + ">"
}

func (a alt) render(l layout) string {
	if a.subst {
		return "${" + a.name + "}"
	}
	s := a.name
	if a.qual != "" {
		s += ":" + a.qual
	}
	for _, c := range a.clauses {
		s += l.gap + c.render(l)
	}
	return s
}

// field joins rendered alternatives: rels[i] are the alternatives of relation i.
func field(rels [][]string, l layout) string {
	rs := make([]string, len(rels))
	for i, r := range rels {
		rs[i] = strings.Join(r, l.pipePre+"|"+l.pipePost)
	}
	return l.lead + strings.Join(rs, l.commaPre+","+l.commaPost) + l.trail
}

// ---- oracle: what the AST denotes ----------------------------------------------------------------------------

// archOf: Debian architecture name -> (ABI, OS, CPU); a lone name is a CPU of gnu-linux, os-cpu leaves the ABI open.
func archOf(n string) dependency.Arch {
	p := strings.Split(n, "-")
	switch {
	case n == "any" || n == "all":
		return dependency.Arch{ABI: n, OS: n, CPU: n}
	case len(p) == 1:
		return dependency.Arch{ABI: "gnu", OS: "linux", CPU: n}
	case len(p) == 2:
		return dependency.Arch{ABI: "any", OS: p[0], CPU: p[1]}
	}
	return dependency.Arch{ABI: p[0], OS: p[1], CPU: strings.Join(p[2:], "-")}
}

func diffAlt(p dependency.Possibility, a alt) string {
	if p.Name != a.name {
		return fmt.Sprintf("Name %q, expected %q", p.Name, a.name)
	}
	if p.Substvar != a.subst {
		return fmt.Sprintf("Substvar %v, expected %v", p.Substvar, a.subst)
	}
	if (p.Arch != nil) != (a.qual != "") {
		return fmt.Sprintf("qualifier present=%v, expected %q", p.Arch != nil, a.qual)
	}
	if p.Arch != nil && *p.Arch != archOf(a.qual) {
		return fmt.Sprintf("qualifier %+v, expected %+v", *p.Arch, archOf(a.qual))
	}
	var ver, arch *clause
	profiles := []clause{}
	for i, c := range a.clauses {
		switch c.kind {
		case 'v':
			ver = &a.clauses[i]
		case 'a':
			arch = &a.clauses[i]
		default:
			profiles = append(profiles, c)
		}
	}
	if (p.Version != nil) != (ver != nil) {
		return fmt.Sprintf("version clause present=%v, expected %v", p.Version != nil, ver != nil)
	}
	if ver != nil && (p.Version.Operator != ver.op || p.Version.Number != ver.num) {
		return fmt.Sprintf("version (%q %q), expected (%q %q)", p.Version.Operator, p.Version.Number, ver.op, ver.num)
	}
	got := dependency.ArchSet{}
	if p.Architectures != nil {
		got = *p.Architectures
	}
	want := dependency.ArchSet{}
	if arch != nil {
		want.Not = arch.not
		for _, n := range arch.archs {
			want.Architectures = append(want.Architectures, archOf(n))
		}
	}
	if len(got.Architectures) != len(want.Architectures) || len(want.Architectures) > 0 && got.Not != want.Not {
		return fmt.Sprintf("architecture list %+v, expected %+v", got, want)
	}
	for i := range want.Architectures {
		if got.Architectures[i] != want.Architectures[i] {
			return fmt.Sprintf("architecture list %+v, expected %+v", got, want)
		}
	}
	if len(p.StageSets) != len(profiles) {
		return fmt.Sprintf("%d profile groups %+v, expected %d", len(p.StageSets), p.StageSets, len(profiles))
	}
	for i, g := range profiles {
		if len(p.StageSets[i].Stages) != len(g.stages) {
			return fmt.Sprintf("profile group %d is %+v, expected %+v", i, p.StageSets[i], g.stages)
		}
		for k, s := range g.stages {
			if st := p.StageSets[i].Stages[k]; st.Not != s.not || st.Name != s.name {
				return fmt.Sprintf("profile group %d is %+v, expected %+v", i, p.StageSets[i], g.stages)
			}
		}
	}
	return ""
}

func diff(d *dependency.Dependency, rels [][]*alt) string {
	if len(d.Relations) != len(rels) {
		return fmt.Sprintf("%d relations, expected %d", len(d.Relations), len(rels))
	}
	for i, r := range rels {
		if len(d.Relations[i].Possibilities) != len(r) {
			return fmt.Sprintf("relation %d has %d alternatives, expected %d", i, len(d.Relations[i].Possibilities), len(r))
		}
		for k, a := range r {
			if w := diffAlt(d.Relations[i].Possibilities[k], *a); w != "" {
				return fmt.Sprintf("relation %d alternative %d: %s", i, k, w)
			}
		}
	}
	return ""
}

// ---- classifier of the malformed classes named in the statement (independent of the parser) --------------------

func blank(c byte) bool { return c == ' ' || c == '\t' || c == '\n' || c == '\r' }

// closer finds the closing byte of a group opened just before `from`; a second opener first means the group never ends.
func closer(s string, from int, open string, close byte) (int, string) {
	for j := from; j < len(s); j++ {
		if s[j] == close {
			return j, ""
		}
		if strings.HasPrefix(s[j:], open) {
			return -1, "nested"
		}
	}
	return -1, "unterminated"
}

var operators = map[string]bool{"<<": true, "<=": true, "=": true, ">=": true, ">>": true}

// malformed returns the class of the first recognised defect, "" when s is not recognised as malformed (sound, not
// complete: everything it names is one of the classes of the statement whatever else is wrong with s).
func malformed(s string) string {
	for i := 0; i < len(s); {
		sawName, nameEnded, versions, archlists := false, false, 0, 0
	alternative:
		for i < len(s) {
			c := s[i]
			switch {
			case c == ',' || c == '|':
				i++
				break alternative
			case blank(c):
				nameEnded = sawName
				i++
			case strings.HasPrefix(s[i:], "${"):
				if sawName {
					return ""
				}
				j, why := closer(s, i+2, "${", '}')
				if j < 0 {
					return why + "-substvar"
				}
				i, sawName, nameEnded = j+1, true, true
			case c == '(' || c == '[' || c == '<':
				if !sawName {
					return ""
				}
				j, why := closer(s, i+1, string(c), map[byte]byte{'(': ')', '[': ']', '<': '>'}[c])
				if j < 0 {
					return why + map[byte]string{'(': "-paren", '[': "-bracket", '<': "-profile"}[c]
				}
				body := strings.Trim(s[i+1:j], " \t\r\n")
				switch c {
				case '(':
					op := body[:len(body)-len(strings.TrimLeft(body, "<>="))] // greedy operator token
					if !operators[op] {
						if len(op) >= 1 && op[0] == '=' || len(op) >= 2 && operators[op[:2]] {
							return "unknown-operator-greedy" // a known operator followed by more operator characters
						}
						return "unknown-operator"
					}
					if versions++; versions > 1 {
						return "second-version"
					}
				case '[':
					neg, pos := 0, 0
					for _, e := range strings.Fields(body) {
						if e[0] == '!' {
							neg++
						} else {
							pos++
						}
					}
					if neg > 0 && pos > 0 {
						return "mixed-negation"
					}
					if archlists++; archlists > 1 {
						return "second-archlist"
					}
				}
				i, nameEnded = j+1, true
			default: // a byte of a name (or of its qualifier)
				if nameEnded {
					return "two-names"
				}
				sawName = true
				i++
			}
		}
	}
	return ""
}

// ---- running the real parser -----------------------------------------------------------------------------------

var (
	accepted   int64
	hashMu     sync.Mutex
	rejectSeen []uint64 // hashes of the malformed inputs checked (to count the distinct ones)
)

// positive: the rendering of an AST has to parse into that AST.
func positive(in string, rels [][]*alt, l layout) {
	atomic.AddInt64(&evaluations, 1)
	guard(in, func() {
		d, err := dependency.Parse(in)
		switch {
		case err != nil && d != nil, err == nil && d == nil:
			fail("value-xor-error", in, fmt.Sprintf("result %v together with error %v", d, err))
		case err != nil:
			fail("rejects-wellformed", in, fmt.Sprintf("layout %s: error %q", l.name, err))
		default:
			atomic.AddInt64(&accepted, 1)
			if w := diff(d, rels); w != "" {
				fail("structure", in, fmt.Sprintf("layout %s: %s (parsed as %q)", l.name, w, d.String()))
			} else if wanted(in) {
				keep("parsed", in, map[string]string{"input": in, "layout": l.name, "parsed": fmt.Sprintf("%+v", summary(d))})
			}
		}
	})
}

func summary(d *dependency.Dependency) [][]string {
	out := [][]string{}
	for _, r := range d.Relations {
		o := []string{}
		for _, p := range r.Possibilities {
			o = append(o, p.String())
		}
		out = append(out, o)
	}
	return out
}

// negative: `in` is a damaged field; when it is recognisably malformed the parser must return an error and nil.
func negative(in string, local *[]uint64) {
	atomic.AddInt64(&evaluations, 1)
	class := malformed(in)
	guard(in, func() {
		d, err := dependency.Parse(in)
		switch {
		case err != nil && d != nil, err == nil && d == nil:
			fail("value-xor-error", in, fmt.Sprintf("result %v together with error %v", d, err))
		case class != "" && err == nil:
			fail("accepts-"+class, in, fmt.Sprintf("malformed (%s) but parsed as %q, expected an error and a nil result", class, summary(d)))
		}
		if class != "" {
			*local = append(*local, hash(in))
			if wanted(in) {
				keep("rejected", in, map[string]string{"input": in, "malformed": class, "error": fmt.Sprint(err)})
			}
		}
	})
}

// damage applies every single-byte deletion and duplication, and puts in malformed clauses.
func damage(in string, local *[]uint64) {
	for i := 0; i < len(in); i++ {
		if i > 0 && in[i] == in[i-1] {
			continue // same two strings as at i-1
		}
		negative(in[:i]+in[i+1:], local)
		negative(in[:i+1]+in[i:], local)
	}
	for _, cut := range []string{"(", "[", "<", "${"} { // truncated inside a group
		if k := strings.LastIndex(in, cut); k >= 0 {
			negative(in[:k+len(cut)], local)
			negative(in[:k+len(cut)]+"x", local)
		}
	}
	for _, ins := range []string{" (>= 9)", "(<< 9)", " [i386]", "[!i386]", " bar", "\tbar", " (>< 1)", " (1)", "(< 1)", " (=> 1)", "(!= 1)",
		" [!a b]", "[a !b]", " [a b !c]"} {
		for _, at := range []string{",", "|", ""} { // at the end of the first relation, of the first alternative, of the field
			k := len(in)
			if at != "" {
				if k = strings.Index(in, at); k < 0 {
					continue
				}
				for k > 0 && blank(in[k-1]) {
					k--
				}
			}
			if strings.HasSuffix(in[:k], "}") {
				continue // after a substvar only " bar" would be a named class; keep it simple
			}
			negative(in[:k]+ins+in[k:], local)
		}
	}
}

// ---- the domain --------------------------------------------------------------------------------------------------

func permutations(cs []clause) [][]clause {
	if len(cs) <= 1 {
		return [][]clause{cs}
	}
	out := [][]clause{}
	for i := range cs {
		rest := append(append([]clause{}, cs[:i]...), cs[i+1:]...)
		for _, p := range permutations(rest) {
			out = append(out, append([]clause{cs[i]}, p...))
		}
	}
	return out
}

func alternatives() []alt {
	versions := []*clause{nil, {kind: 'v', op: ">=", num: "1.0"}, {kind: 'v', op: "<<", num: "2:1.0~rc1-1"}, {kind: 'v', op: "=", num: "1"}}
	archs := []*clause{nil, {kind: 'a', archs: []string{"amd64"}}, {kind: 'a', not: true, archs: []string{"amd64", "i386"}},
		{kind: 'a', archs: []string{"linux-any", "kfreebsd-amd64"}}}
	profiles := [][]clause{nil, {{kind: 'p', stages: []stage{{false, "stage1"}}}},
		{{kind: 'p', stages: []stage{{true, "nocheck"}}}, {kind: 'p', stages: []stage{{false, "stage1"}, {false, "cross"}}}}}
	out := []alt{{subst: true, name: "misc:Depends", canon: true}}
	for _, name := range []string{"foo", "lib-x2"} {
		for _, qual := range []string{"", "any", "amd64"} {
			for _, v := range versions {
				for _, a := range archs {
					for _, p := range profiles {
						cs := []clause{}
						if v != nil {
							cs = append(cs, *v)
						}
						if a != nil {
							cs = append(cs, *a)
						}
						cs = append(cs, p...)
						for k, order := range permutations(cs) {
							out = append(out, alt{name: name, qual: qual, clauses: order, canon: k == 0})
						}
					}
				}
			}
		}
	}
	return out
}

func main() {
	alts := alternatives()
	nl := 5
	if thorough {
		nl = len(layouts)
	}
	ls := layouts[:nl]
	text := make([][]string, nl) // text[layout][alternative]
	for li, l := range ls {
		text[li] = make([]string, len(alts))
		for ai, a := range alts {
			text[li][ai] = a.render(l)
		}
	}
	// core alternatives for the deeper shapes: one of each kind
	core := []int{}
	for _, want := range []string{"${misc:Depends}", "foo", "lib-x2:any", "foo (>= 1.0)", "lib-x2:amd64 [!amd64 !i386]", "foo <!nocheck> <stage1 cross>",
		"lib-x2 (<< 2:1.0~rc1-1) [linux-any kfreebsd-amd64] <stage1>", "foo:any <stage1> [amd64] (= 1)"} {
		for ai := range alts {
			if text[1][ai] == want {
				core = append(core, ai)
			}
		}
	}
	if len(core) != 8 {
		panic("core alternatives not found")
	}
	n, nc := int64(len(alts)), int64(len(core))
	var renderings int64

	// run renders one AST (indices into alts per relation) in every layout, checks it and optionally damages it
	run := func(shape [][]int, mutate bool, local *[]uint64) {
		rels := make([][]*alt, len(shape))
		for i, r := range shape {
			for _, ai := range r {
				rels[i] = append(rels[i], &alts[ai])
			}
		}
		seen := make([]string, 0, nl)
	next:
		for li, l := range ls {
			strs := make([][]string, len(shape))
			for i, r := range shape {
				for _, ai := range r {
					strs[i] = append(strs[i], text[li][ai])
				}
			}
			in := field(strs, l)
			for _, s := range seen { // e.g. a bare name looks the same in every layout: one evaluation
				if s == in {
					continue next
				}
			}
			seen = append(seen, in)
			atomic.AddInt64(&renderings, 1)
			positive(in, rels, l)
			if mutate {
				damage(in, local)
			}
		}
	}
	// sweep runs f over [0,total) in parallel with a per-call buffer for the hashes of malformed inputs
	sweep := func(total int64, f func(i int64, local *[]uint64)) {
		parallel(total, func(i int64) {
			local := []uint64{}
			f(i, &local)
			if len(local) > 0 {
				hashMu.Lock()
				rejectSeen = append(rejectSeen, local...)
				hashMu.Unlock()
			}
		})
	}

	// (a) one alternative; (b) one relation of two alternatives; (c) two relations of one alternative: the full set
	sweep(n, func(i int64, h *[]uint64) { run([][]int{{int(i)}}, true, h) })
	sweep(n*n, func(i int64, h *[]uint64) {
		a, b := int(i/n), int(i%n)
		if !thorough && !alts[a].canon && !alts[b].canon {
			return // quick: one side of a pair has its clauses in the canonical order
		}
		inCore := false
		for _, c := range core {
			inCore = inCore || c == a || c == b
		}
		mutate := thorough && inCore // thorough: damage the pairs with a core alternative on either side
		run([][]int{{a, b}}, mutate, h)
		run([][]int{{a}, {b}}, mutate, h)
	})
	// (d) the remaining shapes up to 2 x 2 (thorough: 3 relations) over the core alternatives
	shapes := [][]int{{1, 2}, {2, 1}, {2, 2}}
	if thorough {
		for a := 1; a <= 2; a++ {
			for b := 1; b <= 2; b++ {
				for c := 1; c <= 2; c++ {
					shapes = append(shapes, []int{a, b, c})
				}
			}
		}
	}
	for _, sh := range shapes {
		slots, total := 0, int64(1)
		for _, k := range sh {
			slots += k
		}
		for k := 0; k < slots; k++ {
			total *= nc
		}
		sh := sh
		sweep(total, func(i int64, h *[]uint64) {
			shape := make([][]int, len(sh))
			for r, k := range sh {
				for ; k > 0; k-- {
					shape[r] = append(shape[r], core[i%nc])
					i /= nc
				}
			}
			run(shape, len(sh) <= 2, h)
		})
	}

	sort.Slice(rejectSeen, func(i, j int) bool { return rejectSeen[i] < rejectSeen[j] })
	malformedDistinct := int64(0)
	for i, h := range rejectSeen {
		if i == 0 || h != rejectSeen[i-1] {
			malformedDistinct++
		}
	}
	distinct = accepted + malformedDistinct
	what := "(a) every single alternative, (b) every relation of two alternatives and (c) every field of two single-alternative relations"
	if !thorough {
		ncanon := 0
		for _, a := range alts {
			if a.canon {
				ncanon++
			}
		}
		what += fmt.Sprintf(" where at least one of the two is among the %d alternatives written in the order version, list, profiles", ncanon)
	}
	deep := "(d) the shapes 1+2, 2+1, 2+2 (alternatives per relation) over 8 core alternatives (substvar, bare name, qualifier only, version only, " +
		"qualifier + negated list, two profile groups, version + list + profile, all clauses in reverse order)"
	rej := "rejection half: every single-byte deletion and duplication, truncation after the last opener and 14 inserted malformed clauses " +
		"(second version/list, second name, unknown operators, mixed negation) of every rendering of (a) and (d)"
	if thorough {
		deep += " and all 8 shapes of three relations with 1..2 alternatives"
		rej += " (shapes of <= 2 relations) and of the (b)/(c) pairs that contain a core alternative"
	}
	emit(fmt.Sprintf("alternatives: ${misc:Depends} or {foo, lib-x2} x qualifier {none, any, amd64} x version {none, (>= 1.0), (<< 2:1.0~rc1-1), (= 1)} x "+
		"list {none, [amd64], [!amd64 !i386], [linux-any kfreebsd-amd64]} x profiles {none, <stage1>, <!nocheck> <stage1 cross>} x every order of the "+
		"clauses = %d alternatives; fields: %s over all %d; %s; each in %d whitespace layouts (%s); %s. The full product of 2 x 2 alternatives "+
		"(%d^4 fields) is not enumerated.", len(alts), what, len(alts), deep, nl, layoutNames(ls), rej, len(alts)),
		fmt.Sprintf("every AST is rendered by the harness' own renderer in each layout (identical renderings of one AST count once: %d distinct "+
			"renderings), parsed by dependency.Parse and compared field by field (name, qualifier triple, operator/number, Not + architecture triples, "+
			"profile groups with Not flags, substvar flag; relation/alternative counts and order). Damaged fields are classified by an independent "+
			"scanner (unterminated/nested paren, bracket, profile, substvar; unknown operator; mixed negation; second version/list; two names); "+
			"classified ones must give err != nil and a nil result, all of them value-xor-error and no panic. distinct_nontrivial = %d renderings "+
			"accepted by the parser + %d distinct (64-bit hash) damaged fields classified as malformed", renderings, accepted, malformedDistinct),
		true)
}

func layoutNames(ls []layout) string {
	n := []string{}
	for _, l := range ls {
		n = append(n, l.name)
	}
	return strings.Join(n, ", ")
}
