// C10 bounded stand-in: .dsc, .changes, debian/control, Packages, Sources and .deb control documents rendered in the
// real Debian layout from a model; the typed parsers and their accessors must return the model.
package main

import (
	"bufio"
	"crypto/md5"
	"crypto/sha1"
	"crypto/sha256"
	"crypto/sha512"
	"encoding/json"
	"fmt"
	"hash/fnv"
	"os"
	"path"
	"reflect"
	"sort"
	"strings"
	"sync"

	"pault.ag/go/debian/control"
	"pault.ag/go/debian/deb"
	"pault.ag/go/debian/dependency"
	"pault.ag/go/debian/version"
)

// ---- recorder ----

type failure struct {
	Key   string      `json:"key"`
	Input interface{} `json:"input"`
	What  string      `json:"what"`
}

type rec struct {
	kind    string
	evals   int
	hashes  map[uint64]bool
	fails   []failure
	counts  map[string]int
	lastDoc map[string]int
	sample  string
	text    string // current document
}

func newRec(kind string) *rec {
	return &rec{kind: kind, hashes: map[uint64]bool{}, counts: map[string]int{}, lastDoc: map[string]int{}}
}
func (r *rec) start(text string) {
	r.text = text
	r.evals++
	h := fnv.New64a()
	h.Write([]byte(text))
	r.hashes[h.Sum64()] = true
	if r.evals == 37 || r.sample == "" {
		r.sample = text
	}
}
func (r *rec) fail(field, what string) {
	key := r.kind + "." + field
	if r.lastDoc[key] == r.evals {
		return // count a document once per check
	}
	r.lastDoc[key] = r.evals
	if r.counts[key]++; r.counts[key] <= 1 {
		r.fails = append(r.fails, failure{key, r.text, what})
	}
}
func (r *rec) eq(field string, got, want interface{}) {
	if !reflect.DeepEqual(got, want) {
		r.fail(field, fmt.Sprintf("%s: got %s, model says %s", field, show(got), show(want)))
	}
}
func show(x interface{}) string {
	b, err := json.Marshal(x)
	if err != nil {
		return fmt.Sprintf("%+v", x)
	}
	return string(b)
}
func (r *rec) guard(f func()) bool {
	ok := true
	func() {
		defer func() {
			if p := recover(); p != nil {
				ok = false
				r.fail("panic", fmt.Sprint("panic: ", p))
			}
		}()
		f()
	}()
	return ok
}

// ---- model pieces and layout helpers ----

var (
	people   = []string{"Alice Able <alice@example.org>", "Bob B. Baker <bob@example.org>", "Carol Cole <carol@example.org>", "Dan O'Dee <dan@example.org>"}
	binNames = []string{"foo", "libfoo1", "foo-doc"}
	archSets = [][]string{nil, {"any"}, {"all"}, {"any", "all"}, {"amd64", "i386", "all"}, {"linux-any", "kfreebsd-amd64"}}
	versions = []string{"1.0-1", "2:1.0~rc1-1+b1", "1.0"}
	bdeps    = []string{"debhelper (>= 9)", "libfoo-dev [amd64 i386] | bar", "baz <!nocheck>"}
	rdeps    = []string{"libc6 (>= 2.17)", "foo-data (= 1.0-1) | foo-common", "bar:any"}
)

type doc struct{ b strings.Builder }

func (d *doc) field(name, value string) { d.b.WriteString(name + ": " + value + "\n") }
func (d *doc) opt(on bool, name, value string) {
	if on {
		d.field(name, value)
	}
}
func (d *doc) block(name string, lines []string) { // value starts on the next line
	d.b.WriteString(name + ":\n")
	for _, l := range lines {
		d.b.WriteString(" " + l + "\n")
	}
}
func (d *doc) blank()         { d.b.WriteString("\n") }
func (d *doc) String() string { return d.b.String() }

// "a, b, c" or folded "a,\n b,\n c"
func commaList(items []string, folded bool) string {
	if folded {
		return strings.Join(items, ",\n ")
	}
	return strings.Join(items, ", ")
}

// "a b c" or folded before the last element "a b\n c"
func spaceList(items []string, folded bool) string {
	if folded && len(items) > 1 {
		return strings.Join(items[:len(items)-1], " ") + "\n " + items[len(items)-1]
	}
	return strings.Join(items, " ")
}

type file struct {
	name string
	size int64
}
type tup struct { // what a checksum / file list entry must say
	Alg, Hash string
	Size      int64
	Name      string
	Section   string `json:",omitempty"`
	Priority  string `json:",omitempty"`
}

func sum(alg, name string) string {
	switch alg {
	case "md5":
		return fmt.Sprintf("%x", md5.Sum([]byte(name)))
	case "sha1":
		return fmt.Sprintf("%x", sha1.Sum([]byte(name)))
	case "sha256":
		return fmt.Sprintf("%x", sha256.Sum256([]byte(name)))
	}
	return fmt.Sprintf("%x", sha512.Sum512([]byte(name)))
}

// the lines of a checksum block and the tuples they stand for; section/priority only for the .changes Files list
func hashBlock(alg string, files []file, section, priority string) (lines []string, want []tup) {
	for _, f := range files {
		l := fmt.Sprintf("%s %d ", sum(alg, f.name), f.size)
		if section != "" {
			l += section + " " + priority + " "
		}
		lines = append(lines, l+f.name)
		want = append(want, tup{alg, sum(alg, f.name), f.size, f.name, section, priority})
	}
	return
}
func tupOf(h control.FileHash) tup { return tup{h.Algorithm, h.Hash, h.Size, h.Filename, "", ""} }
func md5Tups(hs []control.MD5FileHash) (out []tup) {
	for _, h := range hs {
		out = append(out, tupOf(h.FileHash))
	}
	return
}
func sha1Tups(hs []control.SHA1FileHash) (out []tup) {
	for _, h := range hs {
		out = append(out, tupOf(h.FileHash))
	}
	return
}
func sha256Tups(hs []control.SHA256FileHash) (out []tup) {
	for _, h := range hs {
		out = append(out, tupOf(h.FileHash))
	}
	return
}
func plainTups(hs []control.FileHash) (out []tup) {
	for _, h := range hs {
		out = append(out, tupOf(h))
	}
	return
}

// parsed forms, by the library's own leaf parsers (covered by other properties)
func wantVersion(s string) version.Version {
	v, err := version.Parse(s)
	if err != nil {
		panic(err)
	}
	return v
}
func wantArches(names []string) []dependency.Arch {
	var out []dependency.Arch
	for _, n := range names {
		a, err := dependency.ParseArch(n)
		if err != nil {
			panic(err)
		}
		out = append(out, *a)
	}
	return out
}
func wantDep(items []string) dependency.Dependency {
	if len(items) == 0 {
		return dependency.Dependency{}
	}
	d, err := dependency.Parse(strings.Join(items, ", "))
	if err != nil {
		panic(err)
	}
	return *d
}
func (r *rec) eqDep(field string, got dependency.Dependency, items []string) {
	want := wantDep(items)
	if len(got.Relations) == 0 && len(want.Relations) == 0 {
		return
	}
	r.eq(field, got, want)
}
func strs(s []string) []string { // nil and empty list are the same list
	if len(s) == 0 {
		return nil
	}
	return s
}
func hasAll(names []string) bool {
	for _, n := range names {
		if n == "all" {
			return true
		}
	}
	return false
}
func sourceFiles(n int) []file {
	return []file{{"src_1.0-1.dsc", 1899}, {"src_1.0.orig.tar.gz", 92748}, {"src_1.0-1.debian.tar.xz", 2356}}[3-n:]
}

// mixed radix enumeration
func product(dims []int, f func(ix []int)) {
	ix := make([]int, len(dims))
	for {
		f(ix)
		k := 0
		for ; k < len(dims); k++ {
			if ix[k]++; ix[k] < dims[k] {
				break
			}
			ix[k] = 0
		}
		if k == len(dims) {
			return
		}
	}
}

// dependency field variants: 0 absent, 1 one relation, 2 three relations on one line, 3 three relations folded
func depVariant(v int, pool []string) (items []string, text string) {
	switch v {
	case 1:
		return pool[:1], pool[0]
	case 2:
		return pool, commaList(pool, false)
	case 3:
		return pool, commaList(pool, true)
	}
	return nil, ""
}

// ---- .dsc ----

func genDsc(r *rec, thorough bool) string {
	nVer, nFiles := 2, 2
	if thorough {
		nVer, nFiles = 3, 3
	}
	// Binary 0..3, folded?, Uploaders 0..3, folded?, arch set, version, optional fields on/off, Build-Depends variant, files 1..n
	product([]int{4, 2, 4, 2, len(archSets), nVer, 2, 4, nFiles}, func(ix []int) {
		nb, bf, nu, uf, as, vi, optOn, bd, nf := ix[0], ix[1] == 1, ix[2], ix[3] == 1, archSets[ix[4]], versions[ix[5]], ix[6] == 1, ix[7], ix[8]+1
		if (bf && nb < 2) || (uf && nu < 2) {
			return // folding needs two elements
		}
		bdItems, bdText := depVariant(bd, bdeps)
		files := sourceFiles(nf)
		var d doc
		d.field("Format", "3.0 (quilt)")
		d.field("Source", "src")
		d.opt(nb > 0, "Binary", commaList(binNames[:nb], bf))
		d.opt(as != nil, "Architecture", strings.Join(as, " "))
		d.field("Version", vi)
		d.opt(optOn, "Origin", "debian")
		d.field("Maintainer", people[0])
		d.opt(nu > 0, "Uploaders", commaList(people[1:1+nu], uf))
		d.opt(optOn, "Homepage", "https://example.org/src")
		d.opt(optOn, "Standards-Version", "4.6.2")
		d.field("Vcs-Git", "https://salsa.debian.org/debian/src.git")
		d.opt(bd > 0, "Build-Depends", bdText)
		d.opt(optOn, "Build-Depends-Indep", "texlive")
		d.block("Package-List", []string{"foo deb misc optional arch=any"})
		l1, w1 := hashBlock("sha1", files, "", "")
		l256, w256 := hashBlock("sha256", files, "", "")
		l5, w5 := hashBlock("md5", files, "", "")
		d.block("Checksums-Sha1", l1)
		d.block("Checksums-Sha256", l256)
		d.block("Files", l5)
		r.start(d.String())
		var got *control.DSC
		var err error
		if !r.guard(func() {
			got, err = control.ParseDsc(bufio.NewReader(strings.NewReader(d.String())), "/srv/pool/src_1.0-1.dsc")
		}) {
			return
		}
		if err != nil || got == nil {
			r.fail("error", fmt.Sprint("ParseDsc: ", err))
			return
		}
		on := func(s string) string {
			if optOn {
				return s
			}
			return ""
		}
		r.eq("Format", got.Format, "3.0 (quilt)")
		r.eq("Source", got.Source, "src")
		r.eq("Binaries", strs(got.Binaries), strs(binNames[:nb]))
		r.eq("Architectures", got.Architectures, wantArches(as))
		r.eq("Version", got.Version, wantVersion(vi))
		r.eq("Origin", got.Origin, on("debian"))
		r.eq("Maintainer", got.Maintainer, people[0])
		r.eq("Uploaders", strs(got.Uploaders), strs(people[1:1+nu]))
		r.eq("Homepage", got.Homepage, on("https://example.org/src"))
		r.eq("StandardsVersion", got.StandardsVersion, on("4.6.2"))
		r.eqDep("BuildDepends", got.BuildDepends, bdItems)
		r.eqDep("BuildDependsIndep", got.BuildDependsIndep, map[bool][]string{true: {"texlive"}}[optOn])
		r.eqDep("BuildDependsArch", got.BuildDependsArch, nil)
		r.eq("ChecksumsSha1", sha1Tups(got.ChecksumsSha1), w1)
		r.eq("ChecksumsSha256", sha256Tups(got.ChecksumsSha256), w256)
		r.eq("Files", md5Tups(got.Files), w5)
		r.eq("Values[Vcs-Git]", got.Values["Vcs-Git"], "https://salsa.debian.org/debian/src.git")
		r.guard(func() {
			r.eq("Maintainers()", got.Maintainers(), append([]string{people[0]}, people[1:1+nu]...))
			r.eq("HasArchAll()", got.HasArchAll(), hasAll(as))
			var abs []tup
			for _, t := range w5 {
				t.Name = path.Join("/srv/pool", t.Name)
				abs = append(abs, t)
			}
			r.eq("AbsFiles()", md5Tups(got.AbsFiles()), abs)
		})
	})
	return "Format, Source, Version in {" + strings.Join(versions[:nVer], ", ") + "}, Maintainer always; Binary 0..3 names (comma list, one line or one name per continuation line), Uploaders 0..3, Architecture one of {absent, any, all, 'any all', 'amd64 i386 all', 'linux-any kfreebsd-amd64'}; Origin/Homepage/Standards-Version/Build-Depends-Indep all on or all off; Build-Depends absent / 1 relation / 3 relations on one line / 3 folded; " + fmt.Sprintf("1..%d files in each of Checksums-Sha1, Checksums-Sha256, Files", nFiles) + "; an unknown Vcs-Git field and a Package-List block"
}

// ---- .changes ----

func genChanges(r *rec, thorough bool) string {
	nVer := 2
	if thorough {
		nVer = 3
	}
	archs := [][]string{{"source"}, {"source", "amd64", "all"}, {"amd64"}, {"source", "kfreebsd-amd64"}}
	product([]int{3, 2, len(archs), nVer, 4, 2, 3}, func(ix []int) {
		nb, bf, as, vi, nc, optOn, nf := ix[0]+1, ix[1] == 1, archs[ix[2]], versions[ix[3]], ix[4], ix[5] == 1, ix[6]+1
		if bf && nb < 2 {
			return
		}
		closes := []string{"805204", "1", "99999"}[:nc]
		files := sourceFiles(nf)
		chg := []string{"src (" + vi + ") unstable; urgency=medium", ".", "  * Fix FTBFS (Closes: #805204).", "  * Second item,", "    continued."}
		var d doc
		d.field("Format", "1.8")
		d.field("Date", "Mon, 16 Nov 2015 21:15:55 -0800")
		d.field("Source", "src")
		d.field("Binary", spaceList(binNames[:nb], bf))
		d.field("Architecture", strings.Join(as, " "))
		d.field("Version", vi)
		d.field("Distribution", "unstable")
		d.field("Urgency", "medium")
		d.opt(optOn, "Origin", "debian")
		d.field("Maintainer", people[0])
		d.field("Changed-By", people[1])
		d.block("Description", []string{"foo - does foo", "libfoo1 - library"})
		d.opt(nc > 0, "Closes", strings.Join(closes, " "))
		d.block("Changes", chg)
		l1, w1 := hashBlock("sha1", files, "", "")
		l256, w256 := hashBlock("sha256", files, "", "")
		l5, w5 := hashBlock("md5", files, "misc", "optional")
		d.block("Checksums-Sha1", l1)
		d.block("Checksums-Sha256", l256)
		d.block("Files", l5)
		r.start(d.String())
		var got *control.Changes
		var err error
		if !r.guard(func() {
			got, err = control.ParseChanges(bufio.NewReader(strings.NewReader(d.String())), "/srv/incoming/src_1.0-1_amd64.changes")
		}) {
			return
		}
		if err != nil || got == nil {
			r.fail("error", fmt.Sprint("ParseChanges: ", err))
			return
		}
		r.eq("Format", got.Format, "1.8")
		r.eq("Source", got.Source, "src")
		r.eq("Binaries", strs(got.Binaries), strs(binNames[:nb]))
		r.eq("Architectures", got.Architectures, wantArches(as))
		r.eq("Version", got.Version, wantVersion(vi))
		r.eq("Origin", got.Origin, map[bool]string{true: "debian"}[optOn])
		r.eq("Distribution", got.Distribution, "unstable")
		r.eq("Urgency", got.Urgency, "medium")
		r.eq("Maintainer", got.Maintainer, people[0])
		r.eq("ChangedBy", got.ChangedBy, people[1])
		r.eq("Closes", strs(got.Closes), strs(closes))
		r.eq("Changes", got.Changes, "src ("+vi+") unstable; urgency=medium\n\n  * Fix FTBFS (Closes: #805204).\n  * Second item,\n    continued.\n")
		r.eq("ChecksumsSha1", sha1Tups(got.ChecksumsSha1), w1)
		r.eq("ChecksumsSha256", sha256Tups(got.ChecksumsSha256), w256)
		conv := func(hs []control.FileListChangesFileHash) (out []tup) {
			for _, h := range hs {
				t := tupOf(h.FileHash)
				t.Section, t.Priority = h.Component, h.Priority
				out = append(out, t)
			}
			return
		}
		r.eq("Files", conv(got.Files), w5)
		r.guard(func() {
			var abs []tup
			for _, t := range w5 {
				t.Name = path.Join("/srv/incoming", t.Name)
				abs = append(abs, t)
			}
			r.eq("AbsFiles()", conv(got.AbsFiles()), abs)
		})
	})
	return "Binary 1..3 names (space list, one line or folded onto a continuation line), Architecture in {source, 'source amd64 all', amd64, 'source kfreebsd-amd64'}, Version in {" + strings.Join(versions[:nVer], ", ") + "}, Closes 0..3 bug numbers, Origin on/off, 1..3 files in Checksums-Sha1, Checksums-Sha256 and the 5-column Files list; Date, Description and a 5-line Changes block always"
}

// ---- debian/control ----

func genControl(r *rec, thorough bool) string {
	binArchs := [][]string{{"any"}, {"all"}, {"amd64", "i386"}, {"linux-any"}}
	nArch := len(binArchs)
	// uploaders 0..3, folded, Build-Depends variant, binaries 1..3, arch of the binaries, optional binary fields on/off, Depends variant, blank run 1..2 (+ comment line)
	product([]int{4, 2, 4, 3, nArch, 2, 4, 3}, func(ix []int) {
		nu, uf, bd, nbin, as, optOn, dv, sep := ix[0], ix[1] == 1, ix[2], ix[3]+1, binArchs[ix[4]], ix[5] == 1, ix[6], ix[7]
		if uf && nu < 2 {
			return
		}
		bdItems, bdText := depVariant(bd, bdeps)
		depPool := []string{"${shlibs:Depends}", "${misc:Depends}", "foo-data (= ${binary:Version}) | foo-common"}
		depItems, depText := depVariant(dv, depPool)
		var d doc
		d.field("Source", "src")
		d.field("Section", "misc")
		d.field("Priority", "optional")
		d.field("Maintainer", people[0])
		d.opt(nu > 0, "Uploaders", commaList(people[1:1+nu], uf))
		d.opt(bd > 0, "Build-Depends", bdText)
		d.opt(optOn, "Build-Depends-Indep", "texlive")
		d.opt(optOn, "Build-Conflicts", "badpkg")
		d.field("Standards-Version", "4.6.2")
		d.field("Homepage", "https://example.org/src")
		for i := 0; i < nbin; i++ {
			d.blank()
			if sep == 1 {
				d.blank()
			}
			if sep == 2 {
				d.b.WriteString("# the next package\n")
			}
			d.field("Package", binNames[i])
			d.field("Architecture", strings.Join(as, " "))
			d.opt(optOn, "Section", "libs")
			d.opt(optOn, "Priority", "extra")
			d.opt(optOn && i == 0, "Essential", "yes")
			d.opt(dv > 0, "Depends", depText)
			d.opt(optOn, "Pre-Depends", "dpkg (>= 1.17)")
			d.opt(optOn, "Recommends", "foo-doc")
			d.opt(optOn, "Suggests", "bar | baz")
			d.opt(optOn, "Breaks", "old (<< 1.0)")
			d.opt(optOn, "Replaces", "old (<< 1.0)")
			d.opt(optOn, "Built-Using", "gcc-12 (= 12.2.0-14)")
			d.field("Description", "does "+binNames[i]+"\n Extended text of "+binNames[i]+".\n .\n Second paragraph.")
		}
		r.start(d.String())
		var got *control.Control
		var err error
		if !r.guard(func() {
			got, err = control.ParseControl(bufio.NewReader(strings.NewReader(d.String())), "/src/debian/control")
		}) {
			return
		}
		if err != nil || got == nil {
			r.fail("error", fmt.Sprint("ParseControl: ", err))
			return
		}
		on := func(s string) []string {
			if optOn {
				return []string{s}
			}
			return nil
		}
		s := got.Source
		r.eq("Source.Source", s.Source, "src")
		r.eq("Source.Section", s.Section, "misc")
		r.eq("Source.Priority", s.Priority, "optional")
		r.eq("Source.Maintainer", s.Maintainer, people[0])
		r.eq("Source.Uploaders", strs(s.Uploaders), strs(people[1:1+nu]))
		r.eqDep("Source.BuildDepends", s.BuildDepends, bdItems)
		r.eqDep("Source.BuildDependsIndep", s.BuildDependsIndep, on("texlive"))
		r.eqDep("Source.BuildConflicts", s.BuildConflicts, on("badpkg"))
		r.eqDep("Source.BuildConflictsIndep", s.BuildConflictsIndep, nil)
		r.eq("Source.Values[Standards-Version]", s.Values["Standards-Version"], "4.6.2")
		r.guard(func() { r.eq("Source.Maintainers()", s.Maintainers(), append([]string{people[0]}, people[1:1+nu]...)) })
		if len(got.Binaries) != nbin {
			r.fail("Binaries.count", fmt.Sprintf("%d binary paragraphs, model has %d", len(got.Binaries), nbin))
			return
		}
		for i, b := range got.Binaries {
			r.eq("Binary.Package", b.Package, binNames[i])
			r.eq("Binary.Architectures", b.Architectures, wantArches(as))
			r.eq("Binary.Section", b.Section, map[bool]string{true: "libs"}[optOn])
			r.eq("Binary.Priority", b.Priority, map[bool]string{true: "extra"}[optOn])
			r.eq("Binary.Essential", b.Essential, optOn && i == 0)
			r.eq("Binary.Description", b.Description, "does "+binNames[i]+"\nExtended text of "+binNames[i]+".\n\nSecond paragraph.\n")
			r.eqDep("Binary.Depends", b.Depends, depItems)
			r.eqDep("Binary.PreDepends", b.PreDepends, on("dpkg (>= 1.17)"))
			r.eqDep("Binary.Recommends", b.Recommends, on("foo-doc"))
			r.eqDep("Binary.Suggests", b.Suggests, on("bar | baz"))
			r.eqDep("Binary.Breaks", b.Breaks, on("old (<< 1.0)"))
			r.eqDep("Binary.Replaces", b.Replaces, on("old (<< 1.0)"))
			r.eqDep("Binary.BuiltUsing", b.BuiltUsing, on("gcc-12 (= 12.2.0-14)"))
			r.eqDep("Binary.Conflicts", b.Conflicts, nil)
			r.eqDep("Binary.Enhances", b.Enhances, nil)
		}
	})
	return "source paragraph (Source, Section, Priority, Maintainer, Standards-Version, Homepage always; Uploaders 0..3, one line or folded; Build-Depends absent / 1 / 3 on one line / 3 folded; Build-Depends-Indep + Build-Conflicts on/off) followed by 1..3 binary paragraphs (Package, Architecture in {any, all, 'amd64 i386', linux-any}, 4-line Description always; Depends absent / 1 / 3 / 3 folded with substvars; Section, Priority, Essential (first package), Pre-Depends, Recommends, Suggests, Breaks, Replaces, Built-Using all on or all off); paragraphs separated by 1 blank line, 2 blank lines, or 1 blank line + a '#' comment line"
}

// ---- Packages ----

func genPackages(r *rec, thorough bool) string {
	sources := []string{"", "src", "src (1.0-1)"}
	archs := []string{"amd64", "all", "kfreebsd-amd64"}
	nVer := 2
	if thorough {
		nVer = 3
	}
	// stanzas 1..3, Source variant, arch, version, optional on/off, Depends variant, Tag 0..3, folded
	product([]int{3, len(sources), len(archs), nVer, 2, 4, 4, 2}, func(ix []int) {
		n, src, arch, vi, optOn, dv, nt, tf := ix[0]+1, sources[ix[1]], archs[ix[2]], versions[ix[3]], ix[4] == 1, ix[5], ix[6], ix[7] == 1
		if tf && nt < 2 {
			return
		}
		tags := []string{"role::program", "implemented-in::c", "uitoolkit::gtk"}[:nt]
		depItems, depText := depVariant(dv, rdeps)
		var d doc
		for i := 0; i < n; i++ {
			if i > 0 {
				d.blank()
			}
			p := binNames[i]
			d.field("Package", p)
			d.opt(src != "", "Source", src)
			d.field("Version", vi)
			d.field("Installed-Size", fmt.Sprint(211+i))
			d.field("Maintainer", people[0])
			d.field("Architecture", arch)
			d.opt(optOn, "Multi-Arch", "same")
			d.opt(dv > 0, "Depends", depText)
			d.opt(optOn, "Pre-Depends", "dpkg (>= 1.17)")
			d.opt(optOn, "Suggests", "bar | baz")
			d.opt(optOn, "Conflicts", "other")
			d.opt(optOn, "Breaks", "old (<< 1.0)")
			d.opt(optOn, "Replaces", "old (<< 1.0)")
			d.opt(optOn, "Built-Using", "gcc-12 (= 12.2.0-14)")
			d.field("Description", "does "+p)
			d.opt(optOn, "Homepage", "https://example.org/src")
			d.field("Description-md5", sum("md5", "desc"+p))
			d.opt(nt > 0, "Tag", commaList(tags, tf))
			d.field("Section", "misc")
			d.field("Priority", "optional")
			d.field("Filename", "pool/main/s/src/"+p+"_1.0-1_"+arch+".deb")
			d.field("Size", fmt.Sprint(132048+i))
			d.field("MD5sum", sum("md5", p))
			d.field("SHA1", sum("sha1", p))
			d.field("SHA256", sum("sha256", p))
			d.opt(optOn, "Build-Ids", "0123456789abcdef0123456789abcdef01234567 89abcdef0123456789abcdef0123456789abcdef")
		}
		r.start(d.String())
		var got []control.BinaryIndex
		var err error
		if !r.guard(func() { got, err = control.ParseBinaryIndex(bufio.NewReader(strings.NewReader(d.String()))) }) {
			return
		}
		if err != nil || len(got) != n {
			r.fail("error", fmt.Sprintf("ParseBinaryIndex: %d entries (model %d), err=%v", len(got), n, err))
			return
		}
		on := func(s string) []string {
			if optOn {
				return []string{s}
			}
			return nil
		}
		ons := func(s string) string {
			if optOn {
				return s
			}
			return ""
		}
		for i, b := range got {
			p := binNames[i]
			r.eq("Package", b.Package, p)
			r.eq("Source", b.Source, src)
			r.eq("Version", b.Version, wantVersion(vi))
			r.eq("InstalledSize", b.InstalledSize, 211+i)
			r.eq("Maintainer", b.Maintainer, people[0])
			r.eq("Architecture", b.Architecture, wantArches([]string{arch})[0])
			r.eq("MultiArch", b.MultiArch, ons("same"))
			r.eq("Description", b.Description, "does "+p)
			r.eq("Homepage", b.Homepage, ons("https://example.org/src"))
			r.eq("DescriptionMD5", b.DescriptionMD5, sum("md5", "desc"+p))
			r.eq("Tags", strs(b.Tags), strs(tags))
			r.eq("Section", b.Section, "misc")
			r.eq("Priority", b.Priority, "optional")
			r.eq("Filename", b.Filename, "pool/main/s/src/"+p+"_1.0-1_"+arch+".deb")
			r.eq("Size", b.Size, 132048+i)
			r.eq("MD5sum", b.MD5sum, sum("md5", p))
			r.eq("SHA1", b.SHA1, sum("sha1", p))
			r.eq("SHA256", b.SHA256, sum("sha256", p))
			r.eq("DebugBuildIds", strs(b.DebugBuildIds), map[bool][]string{true: {"0123456789abcdef0123456789abcdef01234567", "89abcdef0123456789abcdef0123456789abcdef"}}[optOn])
			b := b
			r.guard(func() {
				wantSrc := p
				if src != "" {
					wantSrc = "src"
				}
				r.eq("SourcePackage()", b.SourcePackage(), wantSrc)
				r.eqDep("GetDepends()", b.GetDepends(), depItems)
				r.eqDep("GetPreDepends()", b.GetPreDepends(), on("dpkg (>= 1.17)"))
				r.eqDep("GetSuggests()", b.GetSuggests(), on("bar | baz"))
				r.eqDep("GetConflicts()", b.GetConflicts(), on("other"))
				r.eqDep("GetBreaks()", b.GetBreaks(), on("old (<< 1.0)"))
				r.eqDep("GetReplaces()", b.GetReplaces(), on("old (<< 1.0)"))
				r.eqDep("GetBuiltUsing()", b.GetBuiltUsing(), on("gcc-12 (= 12.2.0-14)"))
			})
		}
	})
	return "1..3 stanzas; Source in {absent, 'src', 'src (1.0-1)'}, Architecture in {amd64, all, kfreebsd-amd64}, Version in {" + strings.Join(versions[:nVer], ", ") + "}, Depends absent / 1 / 3 on one line / 3 folded, Tag 0..3 (one line or folded), Multi-Arch/Pre-Depends/Suggests/Conflicts/Breaks/Replaces/Built-Using/Homepage/Build-Ids all on or all off; Package, Installed-Size, Maintainer, Description, Description-md5, Section, Priority, Filename, Size, MD5sum, SHA1, SHA256 always"
}

// ---- Sources (+ BestChecksums) ----

type best struct {
	control.Paragraph
	Package string
	control.BestChecksums
}

func genSources(r *rec, thorough bool) string {
	nVer := 2
	if thorough {
		nVer = 3
	}
	// stanzas 1..2, Binary 1..3, folded, Uploaders 0..3, folded, arch set (not absent), version, Build-Depends variant, optional on/off, files 1..3, sha512 block on/off
	product([]int{2, 3, 2, 4, 2, len(archSets) - 1, nVer, 4, 2, 3, 2}, func(ix []int) {
		n, nb, bf, nu, uf, as, vi, bd, optOn, nf, s512 := ix[0]+1, ix[1]+1, ix[2] == 1, ix[3], ix[4] == 1, archSets[ix[5]+1], versions[ix[6]], ix[7], ix[8] == 1, ix[9]+1, ix[10] == 1
		if (bf && nb < 2) || (uf && nu < 2) {
			return
		}
		if !thorough && n == 2 && (nf != 2 || bd == 1) {
			return // quick: two-stanza documents only with 2 files and not the one-relation Build-Depends
		}
		bdItems, bdText := depVariant(bd, bdeps)
		files := sourceFiles(nf)
		l5, w5 := hashBlock("md5", files, "", "")
		l1, w1 := hashBlock("sha1", files, "", "")
		l256, w256 := hashBlock("sha256", files, "", "")
		l512, w512 := hashBlock("sha512", files, "", "")
		var d doc
		for i := 0; i < n; i++ {
			if i > 0 {
				d.blank()
			}
			d.field("Package", []string{"src", "src2"}[i])
			d.field("Binary", commaList(binNames[:nb], bf))
			d.field("Version", vi)
			d.field("Maintainer", people[0])
			d.opt(nu > 0, "Uploaders", commaList(people[1:1+nu], uf))
			d.opt(bd > 0, "Build-Depends", bdText)
			d.opt(optOn, "Build-Depends-Arch", "gcc-multilib [amd64]")
			d.opt(optOn, "Build-Depends-Indep", "texlive")
			d.field("Architecture", strings.Join(as, " "))
			d.field("Standards-Version", "4.6.2")
			d.field("Format", "3.0 (quilt)")
			d.block("Files", l5)
			d.opt(optOn, "Vcs-Browser", "https://salsa.debian.org/debian/src")
			d.opt(optOn, "Vcs-Git", "https://salsa.debian.org/debian/src.git")
			d.block("Checksums-Sha1", l1)
			d.block("Checksums-Sha256", l256)
			if s512 {
				d.block("Checksums-Sha512", l512)
			}
			d.opt(optOn, "Homepage", "https://example.org/src")
			d.block("Package-List", []string{"foo deb misc optional arch=any"})
			d.field("Directory", "pool/main/s/src")
			d.field("Priority", "source")
			d.field("Section", "misc")
		}
		r.start(d.String())
		var got []control.SourceIndex
		var err error
		if !r.guard(func() { got, err = control.ParseSourceIndex(bufio.NewReader(strings.NewReader(d.String()))) }) {
			return
		}
		if err != nil || len(got) != n {
			r.fail("error", fmt.Sprintf("ParseSourceIndex: %d entries (model %d), err=%v", len(got), n, err))
			return
		}
		ons := func(s string) string {
			if optOn {
				return s
			}
			return ""
		}
		on := func(s string) []string {
			if optOn {
				return []string{s}
			}
			return nil
		}
		for i, s := range got {
			r.eq("Package", s.Package, []string{"src", "src2"}[i])
			r.eq("Binaries", strs(s.Binaries), strs(binNames[:nb]))
			r.eq("Version", s.Version, wantVersion(vi))
			r.eq("Maintainer", s.Maintainer, people[0])
			r.eq("Uploaders", strs(s.Uploaders), strs(people[1:1+nu]))
			r.eq("Architecture", s.Architecture, wantArches(as))
			r.eq("StandardsVersion", s.StandardsVersion, "4.6.2")
			r.eq("Format", s.Format, "3.0 (quilt)")
			r.eq("Files", md5Tups(s.Files), w5)
			r.eq("VcsBrowser", s.VcsBrowser, ons("https://salsa.debian.org/debian/src"))
			r.eq("VcsGit", s.VcsGit, ons("https://salsa.debian.org/debian/src.git"))
			r.eq("VcsSvn", s.VcsSvn, "")
			r.eq("ChecksumsSha1", sha1Tups(s.ChecksumsSha1), w1)
			r.eq("ChecksumsSha256", sha256Tups(s.ChecksumsSha256), w256)
			r.eq("Homepage", s.Homepage, ons("https://example.org/src"))
			r.eq("Directory", s.Directory, "pool/main/s/src")
			r.eq("Priority", s.Priority, "source")
			r.eq("Section", s.Section, "misc")
			s := s
			r.guard(func() {
				r.eqDep("GetBuildDepends()", s.GetBuildDepends(), bdItems)
				r.eqDep("GetBuildDependsArch()", s.GetBuildDependsArch(), on("gcc-multilib [amd64]"))
				r.eqDep("GetBuildDependsIndep()", s.GetBuildDependsIndep(), on("texlive"))
			})
		}
		// the same text read into a struct that embeds BestChecksums: sha256 wins; without it sha512
		for _, drop256 := range []bool{false, true} {
			text := d.String()
			want := w256
			if drop256 {
				text = strings.Replace(text, "Checksums-Sha256:", "X-Not-Checksums:", -1)
				want = map[bool][]tup{true: w512}[s512]
			}
			var bs []best
			if !r.guard(func() { err = control.Unmarshal(&bs, strings.NewReader(text)) }) || err != nil || len(bs) != n {
				r.fail("BestChecksums.error", fmt.Sprintf("Unmarshal into struct embedding BestChecksums: %d entries, err=%v", len(bs), err))
				continue
			}
			for _, b := range bs {
				b := b
				r.guard(func() {
					r.eq(fmt.Sprintf("BestChecksums.Checksums()[sha256 %v, sha512 %v]", !drop256, s512), plainTups(b.Checksums()), want)
				})
			}
		}
	})
	return "1..2 stanzas" + map[bool]string{false: " (2 stanzas only with 2 files and Build-Depends not the 1-relation variant)"}[thorough] + "; Binary 1..3 (comma list, one line or folded), Uploaders 0..3 (one line or folded), Architecture in {any, all, 'any all', 'amd64 i386 all', 'linux-any kfreebsd-amd64'}, Version in {" + strings.Join(versions[:nVer], ", ") + "}, Build-Depends absent / 1 / 3 / 3 folded, Build-Depends-Arch/-Indep/Vcs-Browser/Vcs-Git/Homepage all on or all off, 1..3 files in Files, Checksums-Sha1, Checksums-Sha256 and optionally Checksums-Sha512; each document also read into a struct embedding control.BestChecksums, once as is and once with the Sha256 block renamed away"
}

// ---- control file of a .deb ----

func genDeb(r *rec, thorough bool) string {
	sources := []string{"", "src", "src (1.0-1)"}
	archs := []string{"amd64", "all", "kfreebsd-amd64", "any"}
	product([]int{len(sources), len(archs), len(versions), 2, 4, 4, 2}, func(ix []int) {
		src, arch, vi, optOn, dv, rv, longDesc := sources[ix[0]], archs[ix[1]], versions[ix[2]], ix[3] == 1, ix[4], ix[5], ix[6] == 1
		depItems, depText := depVariant(dv, rdeps)
		recItems, recText := depVariant(rv, []string{"foo-doc", "bar | baz", "qux (>= 2)"})
		desc, wantDesc := "does foo", "does foo"
		if longDesc {
			desc, wantDesc = "does foo\n Extended text.\n .\n  indented", "does foo\nExtended text.\n\n indented\n"
		}
		var d doc
		d.field("Package", "foo")
		d.opt(src != "", "Source", src)
		d.field("Version", vi)
		d.field("Architecture", arch)
		d.field("Maintainer", people[0])
		d.field("Installed-Size", "211")
		d.opt(optOn, "Multi-Arch", "foreign")
		d.opt(dv > 0, "Depends", depText)
		d.opt(rv > 0, "Recommends", recText)
		d.opt(optOn, "Suggests", "bar | baz")
		d.opt(optOn, "Breaks", "old (<< 1.0)")
		d.opt(optOn, "Replaces", "old (<< 1.0)")
		d.opt(optOn, "Built-Using", "gcc-12 (= 12.2.0-14)")
		d.field("Section", "misc")
		d.field("Priority", "optional")
		d.opt(optOn, "Homepage", "https://example.org/src")
		d.field("Description", desc)
		r.start(d.String())
		var got deb.Control
		var err error
		if !r.guard(func() { err = control.Unmarshal(&got, strings.NewReader(d.String())) }) {
			return
		}
		if err != nil {
			r.fail("error", fmt.Sprint("Unmarshal into deb.Control: ", err))
			return
		}
		on := func(s string) []string {
			if optOn {
				return []string{s}
			}
			return nil
		}
		ons := func(s string) string {
			if optOn {
				return s
			}
			return ""
		}
		r.eq("Package", got.Package, "foo")
		r.eq("Source", got.Source, src)
		r.eq("Version", got.Version, wantVersion(vi))
		r.eq("Architecture", got.Architecture, wantArches([]string{arch})[0])
		r.eq("Maintainer", got.Maintainer, people[0])
		r.eq("InstalledSize", got.InstalledSize, 211)
		r.eq("MultiArch", got.MultiArch, ons("foreign"))
		r.eqDep("Depends", got.Depends, depItems)
		r.eqDep("Recommends", got.Recommends, recItems)
		r.eqDep("Suggests", got.Suggests, on("bar | baz"))
		r.eqDep("Breaks", got.Breaks, on("old (<< 1.0)"))
		r.eqDep("Replaces", got.Replaces, on("old (<< 1.0)"))
		r.eqDep("BuiltUsing", got.BuiltUsing, on("gcc-12 (= 12.2.0-14)"))
		r.eq("Section", got.Section, "misc")
		r.eq("Priority", got.Priority, "optional")
		r.eq("Homepage", got.Homepage, ons("https://example.org/src"))
		r.eq("Description", got.Description, wantDesc)
		r.guard(func() {
			want := "foo"
			if src != "" {
				want = "src"
			}
			r.eq("SourceName()", got.SourceName(), want)
		})
	})
	return "Source in {absent, 'src', 'src (1.0-1)'}, Architecture in {amd64, all, kfreebsd-amd64, any}, Version in {" + strings.Join(versions, ", ") + "}, Depends and Recommends each absent / 1 / 3 on one line / 3 folded, Description one line or 4 lines, Multi-Arch/Suggests/Breaks/Replaces/Built-Using/Homepage all on or all off; Package, Maintainer, Installed-Size, Section, Priority always"
}

// ---- main ----

func main() {
	thorough := os.Getenv("TIER") == "thorough"
	kinds := []struct {
		name string
		gen  func(*rec, bool) string
	}{{"dsc", genDsc}, {"changes", genChanges}, {"debian-control", genControl}, {"packages", genPackages}, {"sources", genSources}, {"deb-control", genDeb}}
	recs := make([]*rec, len(kinds))
	bounds := make([]string, len(kinds))
	var wg sync.WaitGroup
	for i, k := range kinds {
		i, k := i, k
		recs[i] = newRec(k.name)
		wg.Add(1)
		go func() {
			defer wg.Done()
			bounds[i] = k.name + ": " + k.gen(recs[i], thorough)
		}()
	}
	wg.Wait()

	evals, distinct := 0, 0
	per := map[string]int{}
	counts := map[string]int{}
	fails := []failure{}
	var samples []interface{}
	for _, r := range recs {
		evals += r.evals
		distinct += len(r.hashes)
		per[r.kind] = r.evals
		for k, n := range r.counts {
			counts[k] = n
		}
		for _, f := range r.fails {
			f.What = fmt.Sprintf("%s (%d documents failed this check)", f.What, r.counts[f.Key])
			fails = append(fails, f)
		}
		samples = append(samples, map[string]string{"kind": r.kind, "document": r.sample})
	}
	sort.SliceStable(fails, func(i, j int) bool { return counts[fails[i].Key] > counts[fails[j].Key] })
	if len(fails) > 20 {
		fails = fails[:20]
	}
	out := map[string]interface{}{
		"bound": "Full cross product per document kind of: " + strings.Join(bounds, " || ") + ". Lists of length 0 are rendered by leaving the field out. People: " + strings.Join(people, "; ") + ". Binary names: " + strings.Join(binNames, ", ") + ". File entries: src_1.0-1.dsc / src_1.0.orig.tar.gz / src_1.0-1.debian.tar.xz with the md5/sha1/sha256/sha512 of their names as hashes.",
		"rule": "Each document is rendered from the model in the layout dpkg/apt write (one 'Name: value' line per field, comma lists folded one element per continuation line, checksum blocks starting on the line after the field name) and parsed with the typed parser (ParseDsc, ParseChanges, ParseControl, ParseBinaryIndex, ParseSourceIndex, Unmarshal into deb.Control). Every typed field and accessor is compared with the model by reflect.DeepEqual: scalars verbatim (multi-line scalars in the reader's form: logical lines each ended by \"\\n\"), versions/architectures/dependencies against version.Parse / dependency.ParseArch / dependency.Parse of the one-line text, lists element by element (nil == empty), checksum entries as (algorithm, hash, size, name[, section, priority]). Absent optional fields must be zero. No panic, no error. " +
			fmt.Sprintf("evaluations by kind: %v. distinct_nontrivial = distinct document texts (64-bit FNV) per kind; every document has all mandatory fields and exercises every comparison.", per),
		"evaluations":         evals,
		"distinct_nontrivial": distinct,
		"exhaustive":          true,
		"samples":             samples,
		"failure_counts":      counts,
		"failures":            fails,
	}
	enc := json.NewEncoder(os.Stdout)
	enc.SetEscapeHTML(false)
	enc.Encode(out)
}
